#!/bin/sh
# Build the framework from files on disk only (offline). Idempotent.
set -e
cd "$(dirname "$0")"
export CARGO_NET_OFFLINE=true
ln -sfn /repo/pkgs pkgs
python3 - <<'PY'
import sys
sys.path.insert(0, '.')
from vlib import build
build.ensure_toolchain('rel')
build.ensure_harness()
PY
echo "setup done"
