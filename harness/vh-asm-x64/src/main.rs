//! vh-asm-x64: executor for C07 (x86-64 instructions are encoded as requested).
//!
//! The Python side (vlib/props/c07.py + vlib/asmspec/x64.py) owns the operand domains and the oracle
//! (llvm-mc). This binary only *executes* requests against the real `dora_asm::x64::AssemblerX64`:
//!
//!   vh-asm-x64 run in=<requests.txt> out=<results.jsonl>
//!   vh-asm-x64 list                      (prints the method names of the dispatch table)
//!
//! Request line:  <id> <method> <avx 0|1> <pre> <operand>...
//!   r<n>  general purpose register n          x<n>  xmm register n
//!   i<v>  Immediate(v) (i64, decimal)         u<v>  u8           d<v>  i32
//!   c<VariantName>  Condition::<VariantName>
//!   ao:<base>:<disp>  Address::offset         ag:<base>  Address::reg
//!   ai:<index>:<scale>:<disp>  Address::index
//!   aa:<base>:<index>:<scale>:<disp>  Address::array      ap:<disp>  Address::rip
//!   Lf<k>  label bound k nop bytes *after* the instruction (forward reference)
//!   Lb<k>  label bound k nop bytes *before* the instruction (backward reference);
//!          odd ids use create_and_bind_label, even ids create_label + bind_label
//! Layout: <pre> nops, [label, k nops], INSTRUCTION, [k nops, label], 3 nops, finalize(1).
//! Result line (JSON): {id, st: "ok", hex (instruction bytes after finalize), start, end, lbl, total, clean}
//!   `clean` = every byte outside [start, end) is still a nop and the buffer has the expected length;
//!   st "refused" (+loc, msg) = the assembler panicked (assert); st "unknown" = method not in the table.
use std::io::{BufRead, Write};

use dora_asm::Label;
use dora_asm::x64::*;
use vhc::{Args, catch, json};

struct Ops<'a> {
    toks: Vec<&'a str>,
    pos: usize,
    label: Option<Label>,
}

type R<T> = Result<T, String>;

#[allow(non_snake_case)]
impl<'a> Ops<'a> {
    fn next(&mut self, prefix: &str) -> R<&'a str> {
        let t = self.toks.get(self.pos).ok_or_else(|| format!("missing operand {}", self.pos))?;
        self.pos += 1;
        t.strip_prefix(prefix).ok_or_else(|| format!("operand {:?} is not of kind {:?}", t, prefix))
    }
    fn num<T: std::str::FromStr>(s: &str) -> R<T> {
        s.parse::<T>().map_err(|_| format!("bad number {:?}", s))
    }
    fn reg(s: &str) -> R<Register> {
        let n: u8 = Self::num(s)?;
        if n >= 16 {
            return Err(format!("bad register {}", n));
        }
        Ok(Register::new(n))
    }
    fn R(&mut self) -> R<Register> {
        Self::reg(self.next("r")?)
    }
    fn X(&mut self) -> R<XmmRegister> {
        let n: u8 = Self::num(self.next("x")?)?;
        if n >= 16 {
            return Err(format!("bad xmm register {}", n));
        }
        Ok(XmmRegister::new(n))
    }
    fn I(&mut self) -> R<Immediate> {
        Ok(Immediate(Self::num::<i64>(self.next("i")?)?))
    }
    fn U(&mut self) -> R<u8> {
        Self::num(self.next("u")?)
    }
    fn D(&mut self) -> R<i32> {
        Self::num(self.next("d")?)
    }
    fn C(&mut self) -> R<Condition> {
        cond_by_name(self.next("c")?)
    }
    fn L(&mut self) -> R<Label> {
        self.next("L")?;
        self.label.ok_or_else(|| "no label prepared".to_string())
    }
    fn scale(s: &str) -> R<ScaleFactor> {
        Ok(match s {
            "1" => ScaleFactor::One,
            "2" => ScaleFactor::Two,
            "4" => ScaleFactor::Four,
            "8" => ScaleFactor::Eight,
            _ => return Err(format!("bad scale {:?}", s)),
        })
    }
    fn A(&mut self) -> R<Address> {
        let t = self.next("a")?;
        let p: Vec<&str> = t.split(':').collect();
        Ok(match (p[0], p.len()) {
            ("o", 3) => Address::offset(Self::reg(p[1])?, Self::num(p[2])?),
            ("g", 2) => Address::reg(Self::reg(p[1])?),
            ("i", 4) => Address::index(Self::reg(p[1])?, Self::scale(p[2])?, Self::num(p[3])?),
            ("a", 5) => Address::array(Self::reg(p[1])?, Self::reg(p[2])?, Self::scale(p[3])?, Self::num(p[4])?),
            ("p", 2) => Address::rip(Self::num(p[1])?),
            _ => return Err(format!("bad address {:?}", t)),
        })
    }
}

macro_rules! conditions {
    ($($v:ident),* $(,)?) => {
        fn cond_by_name(s: &str) -> R<Condition> {
            match s {
                $( stringify!($v) => Ok(Condition::$v), )*
                _ => Err(format!("unknown condition {:?}", s)),
            }
        }
        const CONDITIONS: &[&str] = &[$( stringify!($v) ),*];
    };
}

conditions!(
    Overflow, NoOverflow, Below, NeitherAboveNorEqual, NotBelow, AboveOrEqual, Equal, Zero, NotEqual, NotZero,
    BelowOrEqual, NotAbove, NeitherBelowNorEqual, Above, Sign, NoSign, Parity, ParityEven, NoParity, ParityOdd,
    Less, NeitherGreaterNorEqual, NotLess, GreaterOrEqual, LessOrEqual, NotGreater, NeitherLessNorEqual, Greater,
);

/// Some(Ok) = called, Some(Err) = malformed request, None = unknown method.
macro_rules! methods {
    ($( $m:ident ( $($k:ident),* ) ),* $(,)?) => {
        fn dispatch(asm: &mut AssemblerX64, name: &str, p: &mut Ops) -> Option<R<()>> {
            match name {
                $( stringify!($m) => Some((|| -> R<()> {
                    methods!(@call asm, p, $m; $($k),*);
                    Ok(())
                })()), )*
                _ => None,
            }
        }
        const METHODS: &[(&str, &str)] = &[$( (stringify!($m), stringify!($($k)*)) ),*];
    };
    (@call $asm:ident, $p:ident, $m:ident; ) => { $asm.$m() };
    (@call $asm:ident, $p:ident, $m:ident; $a:ident) => {{ let a = $p.$a()?; $asm.$m(a) }};
    (@call $asm:ident, $p:ident, $m:ident; $a:ident, $b:ident) => {{ let a = $p.$a()?; let b = $p.$b()?; $asm.$m(a, b) }};
    (@call $asm:ident, $p:ident, $m:ident; $a:ident, $b:ident, $c:ident) => {{
        let a = $p.$a()?; let b = $p.$b()?; let c = $p.$c()?; $asm.$m(a, b, c) }};
    (@call $asm:ident, $p:ident, $m:ident; $a:ident, $b:ident, $c:ident, $d:ident) => {{
        let a = $p.$a()?; let b = $p.$b()?; let c = $p.$c()?; let d = $p.$d()?; $asm.$m(a, b, c, d) }};
}

methods!(
    addl_ri(R, I), addl_rr(R, R), addq_ri(R, I), addq_rr(R, R), addss_rr(X, X), addsd_rr(X, X), andl_rr(R, R),
    andps_ra(X, A), andps_rl(X, L), andq_ri(R, I), andq_rr(R, R), call_r(R), call_rel32(D), cdq(), cmovl(C, R, R),
    cmovq(C, R, R), cmpb_ai(A, I), cmpb_ar(A, R), cmpb_rr(R, R), cmpl_ai(A, I), cmpl_ar(A, R), cmpl_ri(R, I),
    cmpl_rr(R, R), cmpq_ai(A, I), cmpq_ar(A, R), cmpq_ri(R, I), cmpq_rr(R, R), cmpxchgl_ar(A, R), cmpxchgq_ar(A, R),
    cqo(), cvtsd2ss_rr(X, X), cvtsi2sdd_rr(X, R), cvtsi2sdq_rr(X, R), cvtsi2ssd_rr(X, R), cvtsi2ssq_rr(X, R),
    cvtss2sd_rr(X, X), cvttsd2sid_rr(R, X), cvttsd2siq_rr(R, X), cvttss2sid_rr(R, X), cvttss2siq_rr(R, X),
    divss_rr(X, X), divsd_rr(X, X), idivl_r(R), idivq_r(R), imull_rr(R, R), imulq_rr(R, R), int3(), jcc(C, L),
    jcc_near(C, L), jmp(L), jmp_near(L), jmp_r(R), lea(R, A), lock_cmpxchgq_ar(A, R), lock_cmpxchgl_ar(A, R),
    lock_xaddq_ar(A, R), lock_xaddl_ar(A, R), lzcntl_rr(R, R), lzcntq_rr(R, R), mfence(), movaps_ar(A, X),
    movb_ai(A, I), movb_ar(A, R), movb_ra(R, A), movd_rx(R, X), movd_xr(X, R), movl_ai(A, I), movl_ar(A, R),
    movl_ra(R, A), movl_ri(R, I), movl_rr(R, R), movq_ai(A, I), movq_ar(A, R), movq_ra(R, A), movq_ri(R, I),
    movq_rl(R, L), movq_rr(R, R), movq_rx(R, X), movq_xr(X, R), movsd_ra(X, A), movsd_rl(X, L), movsd_rr(X, X),
    movsd_ar(A, X), movss_ar(A, X), movss_ra(X, A), movss_rl(X, L), movss_rr(X, X), movsxbl_ra(R, A),
    movsxbl_rr(R, R), movsxbq_ra(R, A), movsxbq_rr(R, R), movsxlq_rr(R, R), movups_ar(A, X), movzxb_rr(R, R),
    movzxb_ra(R, A), mulsd_rr(X, X), mulss_rr(X, X), negl(R), negq(R), nop(), notl(R), notq(R), orl_rr(R, R),
    orq_rr(R, R), pushq_r(R), popcntl_rr(R, R), popcntq_rr(R, R), popq_r(R), pxor_rr(X, X), retq(), roll_r(R),
    rolq_r(R), roundsd_ri(X, X, U), roundss_ri(X, X, U), rorl_r(R), rorq_r(R), sarl_r(R), sarl_ri(R, I), sarq_r(R),
    sarq_ri(R, I), setcc_r(C, R), shll_r(R), shll_ri(R, I), shlq_r(R), shlq_ri(R, I), shrl_r(R), shrl_ri(R, I),
    shrq_r(R), shrq_ri(R, I), sqrtsd_rr(X, X), sqrtss_rr(X, X), subl_rr(R, R), subq_ri(R, I), subq_rr(R, R),
    subsd_rr(X, X), subss_rr(X, X), testb_ai(A, I), testb_rr(R, R), testl_ai(A, I), testl_ar(A, R), testl_ri(R, I),
    testl_rr(R, R), testq_ai(A, I), testq_ar(A, R), testq_rr(R, R), tzcntl_rr(R, R), tzcntq_rr(R, R),
    ucomisd_rr(X, X), ucomiss_rr(X, X), vaddsd_rr(X, X, X), vaddss_rr(X, X, X), vandpd_ra(X, X, A),
    vandpd_rl(X, X, L), vandps_ra(X, X, A), vandps_rl(X, X, L), vcvtsd2ss_rr(X, X, X), vcvtsi2sdd_rr(X, X, R),
    vcvtsi2sdq_rr(X, X, R), vcvtsi2ssd_rr(X, X, R), vcvtsi2ssq_rr(X, X, R), vcvtss2sd_rr(X, X, X),
    vcvttsd2sid_rr(R, X), vcvttsd2siq_rr(R, X), vcvttss2sid_rr(R, X), vcvttss2siq_rr(R, X), vdivsd_rr(X, X, X),
    vdivss_rr(X, X, X), vmovapd_rr(X, X), vmovaps_rr(X, X), vmovd_rx(R, X), vmovd_xr(X, R), vmovq_rx(R, X),
    vmovq_xr(X, R), vmovsd_ar(A, X), vmovsd_ra(X, A), vmovsd_rl(X, L), vmovsd_rr(X, X, X), vmovss_ar(A, X),
    vmovss_ra(X, A), vmovss_rl(X, L), vmovss_rr(X, X, X), vmulsd_rr(X, X, X), vmulss_rr(X, X, X),
    vroundsd_ri(X, X, X, U), vroundss_ri(X, X, X, U), vsqrtsd_rr(X, X, X), vsqrtss_rr(X, X, X), vsubsd_rr(X, X, X),
    vsubss_rr(X, X, X), vucomisd_rr(X, X), vucomiss_rr(X, X), vxorpd_ra(X, X, A), vxorpd_rl(X, X, L),
    vxorps_ra(X, X, A), vxorps_rl(X, X, L), vxorps_rr(X, X, X), xaddl_ar(A, R), xaddq_ar(A, R), xchgb_ar(A, R),
    xchgl_ar(A, R), xchgq_ar(A, R), xorl_ri(R, I), xorl_rr(R, R), xorpd_ra(X, A), xorpd_rl(X, L), xorps_ra(X, A),
    xorps_rl(X, L), xorps_rr(X, X), xorq_rr(R, R),
);

const TAIL_NOPS: usize = 3;

enum Outcome {
    Ok { code: Vec<u8>, start: usize, end: usize, lbl: Option<u32> },
    Unknown,
    Malformed(String),
}

fn execute(id: u64, method: &str, avx: bool, pre: usize, toks: &[&str]) -> Outcome {
    let mut asm = AssemblerX64::new(avx);
    for _ in 0..pre {
        asm.nop();
    }
    // label scenario (at most one label operand per request)
    let ltok = toks.iter().find(|t| t.starts_with('L')).copied();
    let mut label = None;
    let mut fwd_pad = None;
    if let Some(t) = ltok {
        let k: usize = match t[2..].parse() {
            Ok(k) => k,
            Err(_) => return Outcome::Malformed(format!("bad label operand {:?}", t)),
        };
        match &t[1..2] {
            "b" => {
                let l = if id % 2 == 1 {
                    asm.create_and_bind_label()
                } else {
                    let l = asm.create_label();
                    asm.bind_label(l);
                    l
                };
                for _ in 0..k {
                    asm.nop();
                }
                label = Some(l);
            }
            "f" => {
                label = Some(asm.create_label());
                fwd_pad = Some(k);
            }
            _ => return Outcome::Malformed(format!("bad label operand {:?}", t)),
        }
    }
    let start = asm.position();
    let mut ops = Ops { toks: toks.to_vec(), pos: 0, label };
    match dispatch(&mut asm, method, &mut ops) {
        None => return Outcome::Unknown,
        Some(Err(e)) => return Outcome::Malformed(e),
        Some(Ok(())) => {}
    }
    if ops.pos != toks.len() {
        return Outcome::Malformed(format!("{} operands given, {} used", toks.len(), ops.pos));
    }
    let end = asm.position();
    if let Some(k) = fwd_pad {
        for _ in 0..k {
            asm.nop();
        }
        asm.bind_label(label.unwrap());
    }
    for _ in 0..TAIL_NOPS {
        asm.nop();
    }
    let lbl = label.and_then(|l| asm.offset(l));
    let code = asm.finalize(1).code();
    Outcome::Ok { code, start, end, lbl }
}

fn hex(b: &[u8]) -> String {
    let mut s = String::with_capacity(b.len() * 2);
    for x in b {
        s.push_str(&format!("{:02x}", x));
    }
    s
}

fn run(args: &Args) {
    let inp = args.get("in").expect("in=<file>");
    let outp = args.get("out").expect("out=<file>");
    let f = std::io::BufReader::new(std::fs::File::open(inp).expect("open request file"));
    let mut out = std::io::BufWriter::new(std::fs::File::create(outp).expect("create result file"));
    let mut n = 0u64;
    for line in f.lines() {
        let line = line.unwrap();
        let toks: Vec<&str> = line.split_whitespace().collect();
        if toks.is_empty() || toks[0].starts_with('#') {
            continue;
        }
        n += 1;
        let parsed = (|| -> Option<(u64, &str, bool, usize)> {
            Some((toks.first()?.parse().ok()?, *toks.get(1)?, *toks.get(2)? == "1", toks.get(3)?.parse().ok()?))
        })();
        let Some((id, method, avx, pre)) = parsed else {
            writeln!(out, "{}", json!({"id": -1, "st": "malformed", "msg": line})).unwrap();
            continue;
        };
        let ops = &toks[4..];
        let v = match catch(|| execute(id, method, avx, pre, ops)) {
            Err(p) => json!({"id": id, "st": "refused", "loc": p.loc, "msg": p.msg.chars().take(200).collect::<String>()}),
            Ok(Outcome::Unknown) => json!({"id": id, "st": "unknown"}),
            Ok(Outcome::Malformed(m)) => json!({"id": id, "st": "malformed", "msg": m}),
            Ok(Outcome::Ok { code, start, end, lbl }) => {
                let inside = start <= end && end <= code.len();
                let clean = inside
                    && code[..start].iter().all(|b| *b == 0x90)
                    && code[end..].iter().all(|b| *b == 0x90);
                let h = if inside { hex(&code[start..end]) } else { hex(&code) };
                json!({"id": id, "st": "ok", "hex": h, "start": start, "end": end, "lbl": lbl,
                       "total": code.len(), "clean": clean})
            }
        };
        writeln!(out, "{}", v).unwrap();
    }
    writeln!(out, "{}", json!({"st": "done", "n": n})).unwrap();
    out.flush().unwrap();
}

fn main() {
    let args = Args::parse();
    vhc::install_panic_hook();
    match args.mode.as_str() {
        "run" => run(&args),
        "list" => {
            for (m, k) in METHODS {
                println!("{} {}", m, k);
            }
            for c in CONDITIONS {
                println!("@cond {}", c);
            }
        }
        m => {
            eprintln!("unknown mode {:?}", m);
            std::process::exit(2);
        }
    }
}
