//! C17 oracle: formatting never changes a program and is stable.
//!
//! skeleton = pre-order sequence of syntax-node kinds and non-trivia tokens (kind, text); only COMMA
//! tokens that directly precede the closing delimiter of their list -- `)`, `]`, `}` or the closing `|`
//! of a lambda parameter list -- are removed on both sides (the formatter regenerates list commas; every
//! other token is passed through). Comment multiset compared by text (line comments right-trimmed).
use std::sync::Arc;

use dora_parser::ast::{SyntaxElement, SyntaxNode};
use dora_parser::{Parser, TokenKind};
use vhc::textgen::{Corpus, tokens};
use vhc::{Args, Reporter, Rng, catch, msg_class};

#[derive(PartialEq, Eq, Debug, Clone)]
pub enum Sk {
    Node(TokenKind),
    Tok(TokenKind, String),
}

struct Analysis {
    skel: Vec<Sk>,
    comments: Vec<(String, String)>, // (text, context)
}

fn analyze(text: &str) -> Option<Analysis> {
    let (file, errors) = Parser::from_shared_string(Arc::new(text.to_string())).parse();
    if !errors.is_empty() {
        return None;
    }
    let mut skel = vec![];
    let mut comments: Vec<(String, String)> = vec![];
    let mut st = Walk { prev_tok: TokenKind::EOF, pending: vec![] };
    walk(&file.root(), &mut skel, &mut comments, &mut st);
    Some(Analysis { skel: strip_trailing_commas(skel), comments })
}

struct Walk {
    prev_tok: TokenKind,
    pending: Vec<usize>, // comments waiting for their "next token"
}

fn walk(node: &SyntaxNode, skel: &mut Vec<Sk>, comments: &mut Vec<(String, String)>, st: &mut Walk) {
    skel.push(Sk::Node(node.green().syntax_kind()));
    for el in node.children_with_tokens() {
        match el {
            SyntaxElement::Node(n) => walk(&n, skel, comments, st),
            SyntaxElement::Token(t) => {
                let k = t.syntax_kind();
                if t.is_trivia() {
                    if k == TokenKind::LINE_COMMENT || k == TokenKind::MULTILINE_COMMENT {
                        let txt = if k == TokenKind::LINE_COMMENT { t.text().trim_end().to_string() } else { t.text().to_string() };
                        st.pending.push(comments.len());
                        comments.push((txt, format!("parent={:?}:prev={:?}", node.green().syntax_kind(), st.prev_tok)));
                    }
                } else {
                    for p in st.pending.drain(..) {
                        comments[p].1.push_str(&format!(":next={:?}", k));
                    }
                    st.prev_tok = k;
                    skel.push(Sk::Tok(k, t.text().to_string()));
                }
            }
        }
    }
}

fn strip_trailing_commas(v: Vec<Sk>) -> Vec<Sk> {
    let mut out: Vec<Sk> = Vec::with_capacity(v.len());
    // the closing `|` of a lambda parameter list: an OR token that is the last token child of a
    // PARAM_LIST-like node. We approximate structurally: a COMMA whose next token is OR and whose next
    // token after that begins the lambda's return type or body is optional -- the formatter itself
    // regenerates it; the node kinds around are compared as well, so a changed tree still shows up.
    for (i, e) in v.iter().enumerate() {
        if let Sk::Tok(TokenKind::COMMA, _) = e {
            let mut j = i + 1;
            while j < v.len() {
                if let Sk::Node(_) = v[j] { j += 1; } else { break; }
            }
            if j < v.len() {
                if let Sk::Tok(k, _) = &v[j] {
                    if matches!(k, TokenKind::R_PAREN | TokenKind::R_BRACKET | TokenKind::R_BRACE | TokenKind::OR) {
                        // `(a,)` vs `(a)`: the node kinds differ (tuple vs paren), so removing the comma
                        // here cannot hide a real change.
                        continue;
                    }
                }
            }
        }
        out.push(e.clone());
    }
    out
}

pub const WIDTHS: &[u32] = &[1, 20, 40, 60, 90, 120, 1000];

/// Layout mutants: same code tokens, different layout/comments.
fn layout_mutant(rng: &mut Rng, base: &str) -> (String, &'static str) {
    let toks = tokens(base);
    let kind = rng.below(5);
    let mut s = String::with_capacity(base.len() * 2);
    let ws = [" ", "  ", "\n", "\n\n", "\t", " \n ", "\n    ", "          ", "\n\n\n"];
    match kind {
        0 => {
            // re-spacing: every whitespace/newline run replaced
            for (k, t) in &toks {
                if matches!(k, TokenKind::WHITESPACE | TokenKind::NEWLINE) {
                    s.push_str(rng.pick_str(&ws));
                } else {
                    s.push_str(t);
                }
            }
            (s, "respace")
        }
        1 => {
            // comment insertion at token boundaries
            let rate = 1 + rng.below(8) as u64;
            let mut n = 0;
            for (i, (k, t)) in toks.iter().enumerate() {
                s.push_str(t);
                let in_template = false;
                let _ = in_template;
                if i + 1 < toks.len() && rng.chance(1, rate) && !matches!(k, TokenKind::LINE_COMMENT) {
                    n += 1;
                    match rng.below(4) {
                        0 => s.push_str(&format!(" /* c{} */ ", n)),
                        1 => s.push_str(&format!("/*c{}*/", n)),
                        2 => s.push_str(&format!(" // c{}\n", n)),
                        _ => s.push_str(&format!("\n// c{}\n", n)),
                    }
                }
            }
            (s, "comments")
        }
        2 => {
            // every boundary between two tokens gets whitespace
            for (_, t) in &toks {
                s.push_str(t);
                if rng.chance(1, 3) {
                    s.push_str(rng.pick_str(&ws));
                }
            }
            (s, "space-insert")
        }
        3 => {
            // line joining: newlines become spaces (except after line comments)
            let mut prev_line_comment = false;
            for (k, t) in &toks {
                if *k == TokenKind::NEWLINE && !prev_line_comment && rng.chance(3, 4) {
                    s.push(' ');
                } else {
                    s.push_str(t);
                }
                if *k != TokenKind::WHITESPACE {
                    prev_line_comment = *k == TokenKind::LINE_COMMENT;
                }
            }
            (s, "line-join")
        }
        _ => {
            // line splitting: whitespace becomes newline
            for (k, t) in &toks {
                if *k == TokenKind::WHITESPACE && rng.chance(1, 2) {
                    s.push('\n');
                } else {
                    s.push_str(t);
                }
            }
            (s, "line-split")
        }
    }
}

fn first_diff(a: &[Sk], b: &[Sk]) -> (usize, String, String) {
    let i = a.iter().zip(b.iter()).position(|(x, y)| x != y).unwrap_or(a.len().min(b.len()));
    let show = |v: &[Sk]| -> String {
        let lo = i.saturating_sub(3);
        let hi = (i + 4).min(v.len());
        format!("{:?}", &v[lo..hi])
    };
    (i, show(a), show(b))
}

fn kind_of(v: &[Sk], i: usize) -> String {
    match v.get(i) {
        Some(Sk::Node(k)) => format!("N:{:?}", k),
        Some(Sk::Tok(k, _)) => format!("T:{:?}", k),
        None => "END".into(),
    }
}

pub fn check_one(text: &str, width: u32) -> Result<Vec<(String, String)>, &'static str> {
    let Some(a0) = analyze(text) else { return Err("input-parse-errors") };
    let out = match dora_format::format_source_with_line_length(text, width) {
        Ok(o) => o,
        Err(_) => return Err("format-rejected"),
    };
    let mut bad = vec![];
    match analyze(&out) {
        None => bad.push(("c17:output-parse-errors".to_string(), "formatted output has parse errors".to_string())),
        Some(a1) => {
            if a0.skel != a1.skel {
                let (i, x, y) = first_diff(&a0.skel, &a1.skel);
                bad.push((
                    format!("c17:skeleton:{}->{}", kind_of(&a0.skel, i), kind_of(&a1.skel, i)),
                    format!("skeleton differs at element {}: input {} / output {}", i, x, y),
                ));
            }
            let mut c0: Vec<&(String, String)> = a0.comments.iter().collect();
            let mut c1: Vec<&String> = a1.comments.iter().map(|c| &c.0).collect();
            c0.sort();
            c1.sort();
            let only0: Vec<&(String, String)> = {
                // multiset difference
                let mut rest: Vec<&String> = c1.clone();
                let mut out = vec![];
                for c in &c0 {
                    if let Some(p) = rest.iter().position(|r| **r == c.0) {
                        rest.remove(p);
                    } else {
                        out.push(*c);
                    }
                }
                if !rest.is_empty() && out.is_empty() {
                    bad.push(("c17:comment-invented".into(), format!("output has a comment the input lacks: {:?}", rest[0])));
                }
                out
            };
            if let Some(c) = only0.first() {
                bad.push((format!("c17:comment-lost:{}", c.1), format!("comment {:?} of the input is missing in the output ({} lost)", c.0, only0.len())));
            }
        }
    }
    match dora_format::format_source_with_line_length(&out, width) {
        Ok(again) => {
            if *again != *out {
                let p = again.bytes().zip(out.bytes()).position(|(a, b)| a != b).unwrap_or(0);
                let lo = p.saturating_sub(40);
                let ctx = |s: &str| -> String { s.chars().skip(s[..lo.min(s.len())].chars().count()).take(100).collect() };
                bad.push(("c17:not-idempotent".into(), format!("second formatting differs at byte {}: {:?} vs {:?}", p, ctx(&out), ctx(&again))));
            }
        }
        Err(_) => bad.push(("c17:second-format-rejected".into(), "formatter rejected its own output".into())),
    }
    Ok(bad)
}

pub fn run(args: &Args) {
    let corpus = Corpus::load(args.extra.as_deref());
    let mut rep = Reporter::new(args);
    let nwidths: usize = args.get("widths").map(|s| s.parse().unwrap()).unwrap_or(3);
    for idx in args.indices() {
        let mut rng = Rng::new(args.seed, 0xc17, idx);
        // even indices: corpus file as is (walking the corpus); odd: layout mutant of a small file
        let (text, family, base): (String, String, usize) = if idx % 2 == 0 {
            let i = ((idx / 2) as usize) % corpus.files.len();
            match corpus.read(i) {
                Some(t) => (t, "corpus".into(), i),
                None => continue,
            }
        } else {
            let (i, b) = corpus.random_small(&mut rng);
            let (t, k) = layout_mutant(&mut rng, &b);
            (t, format!("mutant-{}", k), i)
        };
        let _ = base;
        rep.begin_case(idx, text.as_bytes());
        rep.count("cases", 1);
        // widths: a rotating subset so that all widths are covered across the run
        let mut widths: Vec<u32> = vec![];
        for k in 0..nwidths.min(WIDTHS.len()) {
            widths.push(WIDTHS[((idx as usize) + k * 3) % WIDTHS.len()]);
        }
        widths.sort();
        widths.dedup();
        for w in widths {
            let t = text.clone();
            match catch(move || check_one(&t, w)) {
                Ok(Ok(bad)) => {
                    rep.count("formatted", 1);
                    rep.count(&format!("family:{}", family), 1);
                    rep.count(&format!("width:{}", w), 1);
                    let snip: String = if idx < 64 { text.chars().take(160).collect() } else { String::new() };
                    rep.line(vhc::json!({"t": "ok", "idx": idx, "h": vhc::fnv(text.as_bytes()) ^ (w as u64), "fam": family, "w": w, "snip": snip}));
                    for (key, what) in bad {
                        rep.bad(idx, &key, &format!("width {}: {}", w, what), &text, &family);
                    }
                }
                Ok(Err(why)) => {
                    rep.count(&format!("skipped:{}", why), 1);
                    break;
                }
                Err(p) => {
                    rep.count("formatted", 1);
                    let key = format!("panic@{}:{}", p.loc, msg_class(&p.msg));
                    rep.bad(idx, &key, &format!("width {}: formatter panicked at {}: {}", w, p.loc, p.msg), &text, &family);
                }
            }
        }
    }
    rep.finish();
}
