//! C17 oracle: formatting never changes a program and is stable.
//!
//! For an input that parses without errors and a line width w:
//!   1. `format_source_with_line_length` does not panic (this includes its own re-parse assertion);
//!   2. the output parses without errors;
//!   3. *skeleton* equality: the tree of syntax-node kinds and non-trivia tokens (kind, text), with the
//!      optional separators removed on both sides, is identical. Optional separators are exactly
//!        (a) a COMMA that is the child of a LIST_ITEM whose next non-trivia sibling is the closing
//!            delimiter of the list (`)`, `]`, `}` or the closing `|` of a lambda parameter list),
//!        (b) a COMMA that is a direct child of MATCH_EXPR and either directly precedes the closing `}`
//!            or directly follows an arm whose value is block-like for the *parser* (block, if, for,
//!            while, match: `parse_match` only `eat`s the comma there).
//!      Every other token must be passed through in order. If the raw skeletons differ, *canonical*
//!      skeletons are compared, in which the three reorderings the formatter performs by design are
//!      factored out: (A) maximal runs of sibling USE declarations as multisets, (B) use-group entries as
//!      multisets and a one-entry group equal to its content, (C) the MODIFIER children of a MODIFIER_LIST
//!      as a multiset. The smallest set of canonicalisations that makes the skeletons equal is reported
//!      under one of seven fixed keys `c17:reordered:<set>`; if none does, `c17:skeleton:...`.
//!   4. the multiset of comment texts is identical (line comments compared right-trimmed);
//!      a lost comment is keyed by its structural position class in the *input* tree;
//!   5. format(format(x)) == format(x); keyed by the token context of the first differing byte.
use std::sync::Arc;

use dora_parser::ast::{SyntaxElement, SyntaxNode};
use dora_parser::{Parser, TokenKind};
use vhc::textgen::{Corpus, tokens};
use vhc::{Args, Reporter, Rng, catch, msg_class};

// ------------------------------------------------------------------------------------------------
// Trees without trivia and without optional separators

#[derive(PartialEq, Eq, Debug, Clone)]
pub enum T {
    N(TokenKind, Vec<T>),
    K(TokenKind, String),
}

#[derive(PartialEq, Eq, Debug, Clone)]
pub enum Sk {
    Open(TokenKind),
    Close,
    Tok(TokenKind, String),
}

pub struct Comment {
    pub text: String,
    pub class: String,  // structural position class (key material)
    pub detail: String, // parent/prev/next, human readable
    /// texts of the code tokens around the comment (optional separators skipped); only used to decide
    /// *which* of several comments with the same text was lost
    pub prev_code: String,
    pub next_code: String,
}

#[derive(Default)]
struct Anchors {
    last_code: String,
    pending: Vec<usize>,
}

pub struct Analysis {
    pub tree: T,
    pub comments: Vec<Comment>,
}

const CLOSERS: &[TokenKind] = &[TokenKind::R_PAREN, TokenKind::R_BRACKET, TokenKind::R_BRACE, TokenKind::OR];

/// value kinds for which `parse_match` makes the separating comma optional (parser.rs parse_factor:
/// Blocklike::Yes); a lambda is *not* in this set.
const PARSER_BLOCKLIKE: &[TokenKind] =
    &[TokenKind::BLOCK_EXPR, TokenKind::IF_EXPR, TokenKind::FOR_EXPR, TokenKind::WHILE_EXPR, TokenKind::MATCH_EXPR];

/// node kinds printed by the formatter's comma-list/braced-list helpers
const LIST_KINDS: &[TokenKind] = &[
    TokenKind::ARGUMENT_LIST,
    TokenKind::PARAM_LIST,
    TokenKind::LAMBDA_PARAM_LIST,
    TokenKind::TYPE_PARAM_LIST,
    TokenKind::TYPE_ARGUMENT_LIST,
    TokenKind::UNNAMED_FIELD_LIST,
    TokenKind::NAMED_FIELD_LIST,
    TokenKind::ENUM_VARIANT_LIST,
    TokenKind::CTOR_FIELD_LIST,
    TokenKind::TUPLE_EXPR,
    TokenKind::TUPLE_TYPE,
    TokenKind::TUPLE_PATTERN,
    TokenKind::USE_GROUP,
];

fn kind_of_node(n: &SyntaxNode) -> TokenKind {
    n.green().syntax_kind()
}

fn el_kind(e: &SyntaxElement) -> TokenKind {
    match e {
        SyntaxElement::Node(n) => kind_of_node(n),
        SyntaxElement::Token(t) => t.syntax_kind(),
    }
}

fn is_trivia_el(e: &SyntaxElement) -> bool {
    match e {
        SyntaxElement::Node(_) => false,
        SyntaxElement::Token(t) => t.is_trivia(),
    }
}

fn last_child_node_kind(n: &SyntaxNode) -> Option<TokenKind> {
    let mut k = None;
    for el in n.children_with_tokens() {
        if let SyntaxElement::Node(c) = el {
            k = Some(kind_of_node(&c));
        }
    }
    k
}

pub fn analyze(text: &str) -> Option<Analysis> {
    let (file, errors) = Parser::from_shared_string(Arc::new(text.to_string())).parse();
    if !errors.is_empty() {
        return None;
    }
    let mut comments = vec![];
    let mut anchors = Anchors::default();
    let tree = build(&file.root(), false, &mut comments, &mut anchors);
    Some(Analysis { tree, comments })
}

/// `item_before_closer`: this node is a LIST_ITEM directly followed by the closing delimiter of its list.
fn build(node: &SyntaxNode, item_before_closer: bool, comments: &mut Vec<Comment>, anchors: &mut Anchors) -> T {
    let kind = kind_of_node(node);
    let els: Vec<SyntaxElement> = node.children_with_tokens().collect();
    let code: Vec<usize> = (0..els.len()).filter(|&i| !is_trivia_el(&els[i])).collect();
    let prev_code = |i: usize| -> Option<usize> { code.iter().rev().find(|&&j| j < i).copied() };
    let next_code = |i: usize| -> Option<usize> { code.iter().find(|&&j| j > i).copied() };
    let mut out = vec![];
    for (i, el) in els.iter().enumerate() {
        match el {
            SyntaxElement::Node(n) => {
                let before_closer = kind_of_node(n) == TokenKind::LIST_ITEM
                    && next_code(i).map(|j| matches!(&els[j], SyntaxElement::Token(t) if CLOSERS.contains(&t.syntax_kind()))).unwrap_or(false);
                out.push(build(n, before_closer, comments, anchors));
            }
            SyntaxElement::Token(t) => {
                let k = t.syntax_kind();
                if t.is_trivia() {
                    if k == TokenKind::LINE_COMMENT || k == TokenKind::MULTILINE_COMMENT {
                        let txt = if k == TokenKind::LINE_COMMENT { t.text().trim_end().to_string() } else { t.text().to_string() };
                        let p = prev_code(i).map(|j| el_kind(&els[j]));
                        let n = next_code(i).map(|j| el_kind(&els[j]));
                        let class = match (p, n) {
                            (Some(_), None) if LIST_KINDS.contains(&kind) => "after-closing-delimiter-of-list".to_string(),
                            (Some(_), None) => format!("trailing-in:{:?}", kind),
                            (None, Some(_)) => format!("leading-in:{:?}", kind),
                            (None, None) => format!("alone-in:{:?}", kind),
                            (Some(p), Some(n)) => format!("in:{:?}:after:{:?}:before:{:?}", kind, p, n),
                        };
                        anchors.pending.push(comments.len());
                        comments.push(Comment {
                            text: txt,
                            class,
                            detail: format!("parent={:?} prev={:?} next={:?}", kind, p, n),
                            prev_code: anchors.last_code.clone(),
                            next_code: String::new(),
                        });
                    }
                    continue;
                }
                if k == TokenKind::COMMA {
                    let optional = match kind {
                        TokenKind::LIST_ITEM => item_before_closer && next_code(i).is_none(),
                        TokenKind::MATCH_EXPR => {
                            let before_brace = next_code(i)
                                .map(|j| matches!(&els[j], SyntaxElement::Token(t) if t.syntax_kind() == TokenKind::R_BRACE))
                                .unwrap_or(false);
                            let after_blocklike = prev_code(i)
                                .map(|j| match &els[j] {
                                    SyntaxElement::Node(a) if kind_of_node(a) == TokenKind::MATCH_ARM => {
                                        last_child_node_kind(a).map(|v| PARSER_BLOCKLIKE.contains(&v)).unwrap_or(false)
                                    }
                                    _ => false,
                                })
                                .unwrap_or(false);
                            before_brace || after_blocklike
                        }
                        _ => false,
                    };
                    if optional {
                        continue;
                    }
                }
                for c in anchors.pending.drain(..) {
                    comments[c].next_code = t.text().to_string();
                }
                anchors.last_code = t.text().to_string();
                out.push(T::K(k, t.text().to_string()));
            }
        }
    }
    T::N(kind, out)
}

fn flatten(t: &T, out: &mut Vec<Sk>) {
    match t {
        T::N(k, ch) => {
            out.push(Sk::Open(*k));
            for c in ch {
                flatten(c, out);
            }
            out.push(Sk::Close);
        }
        T::K(k, s) => out.push(Sk::Tok(*k, s.clone())),
    }
}

fn flat(t: &T) -> Vec<Sk> {
    let mut v = vec![];
    flatten(t, &mut v);
    v
}

fn ser(t: &T) -> String {
    let mut s = String::new();
    fn go(t: &T, s: &mut String) {
        match t {
            T::N(k, ch) => {
                s.push_str(&format!("({:?}", k));
                for c in ch {
                    s.push(' ');
                    go(c, s);
                }
                s.push(')');
            }
            T::K(k, x) => s.push_str(&format!("{:?}:{:?}", k, x)),
        }
    }
    go(t, &mut s);
    s
}

pub const CANON_USE_DECL: u8 = 1;
pub const CANON_USE_GROUP: u8 = 2;
pub const CANON_MODIFIERS: u8 = 4;

fn is_kind(t: &T, k: TokenKind) -> bool {
    matches!(t, T::N(x, _) if *x == k)
}

/// Canonical form under the canonicalisations selected by `mask` (bottom-up).
fn canon(t: &T, mask: u8) -> T {
    match t {
        T::K(..) => t.clone(),
        T::N(kind, ch) => {
            let mut ch: Vec<T> = ch.iter().map(|c| canon(c, mask)).collect();
            if mask & CANON_MODIFIERS != 0 && *kind == TokenKind::MODIFIER_LIST {
                // (C) all MODIFIER children as a multiset (they are the only code children)
                let mut mods: Vec<T> = ch.iter().filter(|c| is_kind(c, TokenKind::MODIFIER)).cloned().collect();
                mods.sort_by_key(ser);
                let mut it = mods.into_iter();
                for c in ch.iter_mut() {
                    if is_kind(c, TokenKind::MODIFIER) {
                        *c = it.next().unwrap();
                    }
                }
            }
            if mask & CANON_USE_GROUP != 0 && *kind == TokenKind::USE_GROUP {
                // (B1) entries as a multiset; the separating commas carry no information once the
                // entries are unordered, so they are removed from the items.
                let mut items: Vec<T> = vec![];
                for c in ch.iter() {
                    if let T::N(TokenKind::LIST_ITEM, ic) = c {
                        let ic: Vec<T> = ic.iter().filter(|x| !matches!(x, T::K(TokenKind::COMMA, _))).cloned().collect();
                        items.push(T::N(TokenKind::LIST_ITEM, ic));
                    }
                }
                items.sort_by_key(ser);
                let mut it = items.into_iter();
                for c in ch.iter_mut() {
                    if is_kind(c, TokenKind::LIST_ITEM) {
                        *c = it.next().unwrap();
                    }
                }
            }
            if mask & CANON_USE_GROUP != 0 && *kind == TokenKind::USE_TREE {
                // (B2) `p::{q::X}` == `p::q::X`: a group with exactly one entry is replaced by the
                // children of that entry's use tree (children are canonical already, so nested
                // one-entry groups have been flattened before).
                if let Some(T::N(TokenKind::USE_GROUP, gc)) = ch.last() {
                    let items: Vec<&T> = gc.iter().filter(|c| is_kind(c, TokenKind::LIST_ITEM)).collect();
                    if items.len() == 1 {
                        if let T::N(_, ic) = items[0] {
                            if ic.len() == 1 {
                                if let T::N(TokenKind::USE_TREE, inner) = &ic[0] {
                                    let inner = inner.clone();
                                    ch.pop();
                                    ch.extend(inner);
                                }
                            }
                        }
                    }
                }
            }
            if mask & CANON_USE_DECL != 0 {
                // (A) maximal runs of sibling USE declarations as multisets
                let mut i = 0;
                while i < ch.len() {
                    if !is_kind(&ch[i], TokenKind::USE) {
                        i += 1;
                        continue;
                    }
                    let mut j = i + 1;
                    while j < ch.len() && is_kind(&ch[j], TokenKind::USE) {
                        j += 1;
                    }
                    ch[i..j].sort_by_key(ser);
                    i = j;
                }
            }
            T::N(*kind, ch)
        }
    }
}

fn mask_name(mask: u8) -> String {
    let mut v = vec![];
    if mask & CANON_USE_DECL != 0 {
        v.push("use-decl-sort");
    }
    if mask & CANON_USE_GROUP != 0 {
        v.push("use-group");
    }
    if mask & CANON_MODIFIERS != 0 {
        v.push("modifiers");
    }
    v.join("+")
}

fn sk_kind(v: &[Sk], i: usize) -> String {
    match v.get(i) {
        Some(Sk::Open(k)) => format!("N:{:?}", k),
        Some(Sk::Close) => "CLOSE".into(),
        Some(Sk::Tok(k, _)) => format!("T:{:?}", k),
        None => "END".into(),
    }
}

/// innermost node kind that is open at position i
fn enclosing(v: &[Sk], i: usize) -> String {
    let mut st = vec![];
    for e in &v[..i.min(v.len())] {
        match e {
            Sk::Open(k) => st.push(*k),
            Sk::Close => {
                st.pop();
            }
            _ => {}
        }
    }
    st.last().map(|k| format!("{:?}", k)).unwrap_or_else(|| "ROOT".into())
}

/// None = equal; Some((key, what))
fn compare_trees(a: &T, b: &T) -> Option<(String, String)> {
    let (fa, fb) = (flat(a), flat(b));
    if fa == fb {
        return None;
    }
    // smallest canonicalisation set that explains the difference
    let mut masks: Vec<u8> = (1..8).collect();
    masks.sort_by_key(|m: &u8| m.count_ones());
    for m in masks {
        if flat(&canon(a, m)) == flat(&canon(b, m)) {
            return Some((
                format!("c17:reordered:{}", mask_name(m)),
                format!("code tokens were reordered (equal only modulo: {})", mask_name(m)),
            ));
        }
    }
    // a real difference: describe it on the fully canonical forms so that by-design reorderings
    // elsewhere in the file do not hide or shift it
    let (ca, cb) = (flat(&canon(a, 7)), flat(&canon(b, 7)));
    let i = ca.iter().zip(cb.iter()).position(|(x, y)| x != y).unwrap_or(ca.len().min(cb.len()));
    let show = |v: &[Sk]| -> String {
        let lo = i.saturating_sub(4);
        let hi = (i + 4).min(v.len());
        format!("{:?}", &v[lo..hi])
    };
    Some((
        format!("c17:skeleton:in:{}:{}->{}", enclosing(&ca, i), sk_kind(&ca, i), sk_kind(&cb, i)),
        format!("skeleton differs at element {}: input {} / output {}", i, show(&ca), show(&cb)),
    ))
}

// ------------------------------------------------------------------------------------------------
// Non-idempotence: key = token context of the first differing byte in the first output

fn tok_class(k: TokenKind) -> String {
    use TokenKind::*;
    match k {
        IDENTIFIER | INT_LITERAL | FLOAT_LITERAL | STRING_LITERAL | CHAR_LITERAL | TEMPLATE_LITERAL | TEMPLATE_END_LITERAL | TRUE | FALSE | SELF_KW
        | UPCASE_SELF_KW => "atom".into(),
        LINE_COMMENT => "line-comment".into(),
        MULTILINE_COMMENT => "block-comment".into(),
        _ => format!("{:?}", k),
    }
}

/// Code/comment tokens of a text with the layout gap in front of each: number of newlines (0..=3, 3 = "3 or
/// more") between it and the previous non-blank token.
fn gap_tokens(text: &str) -> Vec<(TokenKind, usize, usize, u64)> {
    let mut out = vec![];
    let mut nl = 0usize;
    let mut pos = 0usize;
    for (k, t) in tokens(text) {
        match k {
            TokenKind::WHITESPACE => {}
            TokenKind::NEWLINE => nl += 1,
            _ => {
                out.push((k, nl.min(3), pos, vhc::fnv(t.trim_end().as_bytes())));
                nl = 0;
            }
        }
        pos += t.len();
    }
    out
}

type GapTok = (TokenKind, usize, usize, u64);

/// A comma directly in front of a closing delimiter is (lexically approximated) the optional trailing
/// separator the formatter adds when a list breaks: it comes and goes with the re-breaking of a group and
/// must not turn a layout difference into "tokens differ". Such a comma is removed where the other text
/// does not have it. Only the key is affected by this approximation, never the verdict (byte equality).
fn align_optional_commas(a: Vec<GapTok>, b: Vec<GapTok>) -> (Vec<GapTok>, Vec<GapTok>) {
    let optional = |v: &Vec<GapTok>, i: usize| -> bool {
        v[i].0 == TokenKind::COMMA
            && v.get(i + 1)
                .map(|n| matches!(n.0, TokenKind::R_PAREN | TokenKind::R_BRACKET | TokenKind::R_BRACE | TokenKind::OR))
                .unwrap_or(false)
    };
    let (mut i, mut j) = (0usize, 0usize);
    let (mut ra, mut rb): (Vec<GapTok>, Vec<GapTok>) = (vec![], vec![]);
    let (mut ca, mut cb) = (0usize, 0usize); // gap carried over a removed comma (max, not sum)
    while i < a.len() || j < b.len() {
        let same = i < a.len() && j < b.len() && a[i].0 == b[j].0 && a[i].3 == b[j].3;
        if !same && i < a.len() && optional(&a, i) {
            ca = ca.max(a[i].1);
            i += 1;
            continue;
        }
        if !same && j < b.len() && optional(&b, j) {
            cb = cb.max(b[j].1);
            j += 1;
            continue;
        }
        if i < a.len() {
            let mut t = a[i];
            t.1 = t.1.max(ca);
            ra.push(t);
            i += 1;
        }
        if j < b.len() {
            let mut t = b[j];
            t.1 = t.1.max(cb);
            rb.push(t);
            j += 1;
        }
        ca = 0;
        cb = 0;
    }
    (ra, rb)
}

const GAP_NAMES: [&str; 4] = ["same-line", "newline", "blank-line", "blank-lines"];

/// Key of a non-idempotence. Both outputs have the same token sequence (otherwise `tokens-differ`); the
/// layout difference that is reported is, in this order of preference,
///   1. the first place where the second pass has *fewer* newlines than the first (something the first
///      pass let through and the second pass normalised: the cause; re-breaking of groups because a line
///      became longer is the consequence and comes with *more* newlines),
///   2. the first place where it has more newlines,
///   3. the first byte that differs (spacing inside a line).
/// The key names the gap change and the token classes on both sides of it.
fn idem_key(first: &str, second: &str) -> (String, String) {
    let p = first.bytes().zip(second.bytes()).position(|(a, b)| a != b).unwrap_or(first.len().min(second.len()));
    let mut lo = p.saturating_sub(60);
    while !first.is_char_boundary(lo) {
        lo -= 1;
    }
    let ctx = |s: &str, lo: usize| -> String { s.get(lo..).unwrap_or("").chars().take(120).collect() };
    let what0 = format!("second formatting differs at byte {}: {:?} vs {:?}", p, ctx(first, lo), ctx(second, lo));
    let (a, b) = align_optional_commas(gap_tokens(first), gap_tokens(second));
    let same_tokens = a.len() == b.len() && a.iter().zip(b.iter()).all(|(x, y)| x.0 == y.0 && x.3 == y.3);
    if !same_tokens {
        // comments moved relative to code tokens, or an optional separator came or went
        let i = a.iter().zip(b.iter()).position(|(x, y)| x.0 != y.0 || x.3 != y.3).unwrap_or(a.len().min(b.len()));
        let cls = |v: &Vec<GapTok>| v.get(i).map(|t| tok_class(t.0)).unwrap_or_else(|| "END".into());
        return (format!("c17:not-idempotent:tokens-differ:{}->{}", cls(&a), cls(&b)), what0);
    }
    let fewer = (0..a.len()).find(|&i| b[i].1 < a[i].1);
    let more = (0..a.len()).find(|&i| b[i].1 > a[i].1);
    let name = |i: usize| -> String {
        let prev = if i == 0 { "START".to_string() } else { tok_class(a[i - 1].0) };
        format!("{}|{}:{}->{}", prev, tok_class(a[i].0), GAP_NAMES[a[i].1], GAP_NAMES[b[i].1])
    };
    if let Some(i) = fewer.or(more) {
        let mut lo = a[i].2.saturating_sub(60);
        while !first.is_char_boundary(lo) {
            lo -= 1;
        }
        return (
            format!("c17:not-idempotent:{}", name(i)),
            format!("{} (keyed by the layout change in front of byte {} of the first output: {:?})", what0, a[i].2, ctx(first, lo)),
        );
    }
    // spacing inside a line only: name the side that is a comment (the two trivia printers of the
    // formatter differ exactly there), otherwise the two token classes
    let i = a.iter().position(|t| t.2 >= p).unwrap_or(a.len().saturating_sub(1));
    let prev = if i == 0 { None } else { Some(a[i - 1].0) };
    let next = a.get(i).map(|t| t.0);
    let cls = |k: Option<TokenKind>| k.map(tok_class).unwrap_or_else(|| "EDGE".into());
    let key = match (prev, next) {
        (Some(TokenKind::LINE_COMMENT), _) => "indent-after-line-comment".to_string(),
        (_, Some(TokenKind::LINE_COMMENT)) => "before-line-comment".to_string(),
        (Some(TokenKind::MULTILINE_COMMENT), Some(TokenKind::MULTILINE_COMMENT)) => "between-block-comments".to_string(),
        (_, Some(TokenKind::MULTILINE_COMMENT)) => "before-block-comment".to_string(),
        (Some(TokenKind::MULTILINE_COMMENT), _) => "after-block-comment".to_string(),
        _ => format!("{}|{}", cls(prev), cls(next)),
    };
    (format!("c17:not-idempotent:spacing:{}", key), what0)
}

// ------------------------------------------------------------------------------------------------

pub const WIDTHS: &[u32] = &[1, 20, 40, 60, 90, 120, 1000];

pub fn check_one(text: &str, width: u32) -> Result<Vec<(String, String)>, &'static str> {
    let Some(a0) = analyze(text) else { return Err("input-parse-errors") };
    let out = match dora_format::format_source_with_line_length(text, width) {
        Ok(o) => o,
        Err(_) => return Err("format-rejected"),
    };
    let mut bad = vec![];
    match analyze(&out) {
        None => bad.push(("c17:output-parse-errors".to_string(), "formatted output has parse errors".to_string())),
        Some(a1) => {
            if let Some(d) = compare_trees(&a0.tree, &a1.tree) {
                bad.push(d);
            }
            // comment multiset
            // multiset comparison by text; three rounds (same text and both neighbouring code tokens,
            // one of them, text only) so that, among input comments with the same text, the one that
            // is reported as lost is the one whose surroundings have no counterpart in the output
            let mut rest: Vec<&Comment> = a1.comments.iter().collect();
            let mut open: Vec<&Comment> = a0.comments.iter().collect();
            for round in 0..3 {
                let mut still = vec![];
                for c in open {
                    let hit = rest.iter().position(|r| {
                        r.text == c.text
                            && match round {
                                0 => r.prev_code == c.prev_code && r.next_code == c.next_code,
                                1 => r.prev_code == c.prev_code || r.next_code == c.next_code,
                                _ => true,
                            }
                    });
                    match hit {
                        Some(p) => {
                            rest.swap_remove(p);
                        }
                        None => still.push(c),
                    }
                }
                open = still;
            }
            let lost: Vec<&Comment> = open;
            let rest: Vec<&String> = rest.iter().map(|c| &c.text).collect();
            if !rest.is_empty() && lost.is_empty() {
                bad.push(("c17:comment-invented".into(), format!("output has a comment the input lacks: {:?}", rest[0])));
            }
            // one report per distinct position class
            let mut seen: Vec<&str> = vec![];
            for c in &lost {
                if seen.contains(&c.class.as_str()) {
                    continue;
                }
                seen.push(&c.class);
                let n = lost.iter().filter(|x| x.class == c.class).count();
                bad.push((
                    format!("c17:comment-lost:{}", c.class),
                    format!("comment {:?} of the input is missing in the output ({}; {} lost in this position class)", c.text, c.detail, n),
                ));
            }
        }
    }
    match dora_format::format_source_with_line_length(&out, width) {
        Ok(again) => {
            if *again != *out {
                bad.push(idem_key(&out, &again));
            }
        }
        Err(_) => bad.push(("c17:second-format-rejected".into(), "formatter rejected its own output".into())),
    }
    Ok(bad)
}

// ------------------------------------------------------------------------------------------------
// Comment insertion
//
// Two families:
//  * `comments` (tiers): comments are inserted at *structural* positions taken from the syntax tree of
//    the base file -- before/after statements, elements, match arms, fields/variants and list items,
//    after an opening and before a closing brace -- in the styles people write (own-line `//` and
//    `/* */`, trailing `//` and `/* */`, inline `/* */` in front). Only (position, style) pairs of
//    `COMMENT_SITES` are used; see the comment there for what was left out and why.
//  * `comments-wide` (kv `wide=1`, not part of any tier): a comment at every token boundary with
//    probability 1/rate. On the pinned tree this family does not saturate (see report).

#[derive(Clone, Copy, PartialEq, Eq, Debug)]
enum Side {
    Before,
    After,
}

struct Point {
    at: usize,
    class: &'static str,
    side: Side,
}

const BRACED: &[TokenKind] =
    &[TokenKind::BLOCK_EXPR, TokenKind::ELEMENT_LIST, TokenKind::MATCH_EXPR, TokenKind::NAMED_FIELD_LIST, TokenKind::ENUM_VARIANT_LIST];

fn collect_points(node: &SyntaxNode, pts: &mut Vec<Point>) {
    use TokenKind::*;
    let kind = kind_of_node(node);
    let els: Vec<SyntaxElement> = node.children_with_tokens().collect();
    for (i, el) in els.iter().enumerate() {
        match el {
            SyntaxElement::Node(n) => {
                let ck = kind_of_node(n);
                let class: Option<&'static str> = match (kind, ck) {
                    (BLOCK_EXPR, LET) | (BLOCK_EXPR, EXPR_STMT) => Some("stmt"),
                    (ELEMENT_LIST, _) => Some("element"),
                    (MATCH_EXPR, MATCH_ARM) => Some("arm"),
                    (NAMED_FIELD_LIST, LIST_ITEM) | (ENUM_VARIANT_LIST, LIST_ITEM) => Some("field"),
                    (USE_GROUP, LIST_ITEM) => None,
                    (_, LIST_ITEM) => {
                        let n_items = els.iter().filter(|e| matches!(e, SyntaxElement::Node(x) if kind_of_node(x) == LIST_ITEM)).count();
                        if n_items == 1 { Some("item-single") } else { Some("item") }
                    }
                    _ => None,
                };
                if let Some(c) = class {
                    let sp = n.span();
                    if sp.len() > 0 {
                        pts.push(Point { at: sp.start() as usize, class: c, side: Side::Before });
                        let mut end = sp.end() as usize;
                        if c == "arm" {
                            // behind the separating comma, if there is one
                            if let Some(SyntaxElement::Token(t)) = els[i + 1..].iter().find(|e| !is_trivia_el(e)) {
                                if t.syntax_kind() == COMMA {
                                    end = (t.offset().value() + t.text_length()) as usize;
                                }
                            }
                        }
                        pts.push(Point { at: end, class: c, side: Side::After });
                    }
                }
                collect_points(n, pts);
            }
            SyntaxElement::Token(t) => {
                if kind == IF_EXPR && t.syntax_kind() == ELSE_KW {
                    pts.push(Point { at: t.offset().value() as usize, class: "else", side: Side::Before });
                }
                if BRACED.contains(&kind) {
                    if t.syntax_kind() == L_BRACE {
                        pts.push(Point { at: (t.offset().value() + t.text_length()) as usize, class: "open-brace", side: Side::After });
                    } else if t.syntax_kind() == R_BRACE {
                        pts.push(Point { at: t.offset().value() as usize, class: "close-brace", side: Side::Before });
                    }
                }
            }
        }
    }
}

/// (position class, style) pairs used by the tier family. Styles: before = own-line (`\n// c\n`),
/// own-block (`\n/* c */\n`), inline-block (`/* c */ `); after = trail-line (` // c\n`), trail-block (` /* c */`),
/// trail-block-nl (` /* c */\n`).
pub const ALL_STYLES_BEFORE: &[&str] = &["own-line", "own-block", "inline-block"];
pub const ALL_STYLES_AFTER: &[&str] = &["trail-line", "trail-block", "trail-block-nl"];
pub const ALL_CLASSES: &[&str] = &["stmt", "element", "arm", "field", "item", "item-single", "open-brace", "close-brace", "else"];

/// Everything except a trailing block comment behind a list item's comma (`f(a, /* c */ b)`,
/// `f(a, b, /* c */)`): the comma-list printer and the trivia printer lay such a comment out
/// differently (`, /* c */ b` vs `/* c */b`; `, /* c */)` vs `/* c */)`), and which of the two sees it
/// changes between the first and the second pass, so the failure key would depend on the token that
/// happens to follow (not a closed set). Reported as a finding; the wide family shows it too.
pub const COMMENT_SITES: &[(&str, &str)] = &[
    ("stmt", "*"),
    ("element", "*"),
    ("arm", "*"),
    ("field", "*"),
    ("open-brace", "*"),
    ("close-brace", "*"),
    ("item", "own-line"),
    ("item", "own-block"),
    ("item", "inline-block"),
    ("item", "trail-line"),
    // the only entry of a list: no trailing line comment. `f(\n a == b, // c\n)`: the first pass drops the
    // (optional) comma and keeps the comment, which the parser then attaches to `b`, i.e. inside the
    // group of `a == b`; a hard line inside a group forces it to break, so the second pass prints
    // `a ==\n b // c`. The key would name the operator/chain that re-breaks (not a closed set).
    ("item-single", "own-line"),
    ("item-single", "own-block"),
    ("item-single", "inline-block"),
    // in front of `else` only the inline style: `} // c\n else` and `} /* c */\n else` are laid out
    // differently by the first and the second pass (indent behind a line comment; line break behind a
    // block comment kept by print_trivia only) -- the same two trivia-printer defects as above.
    ("else", "inline-block"),
];

fn site_allowed(class: &str, style: &str) -> bool {
    COMMENT_SITES.iter().any(|(c, s)| (*c == "*" || *c == class) && (*s == "*" || *s == style))
}

fn render_comment(style: &str, n: usize) -> String {
    match style {
        "own-line" => format!("\n// zq{}\n", n),
        "own-block" => format!("\n/* zq{} */\n", n),
        "inline-block" => format!("/* zq{} */ ", n),
        "trail-line" => format!(" // zq{}\n", n),
        "trail-block" => format!(" /* zq{} */", n),
        "trail-block-nl" => format!(" /* zq{} */\n", n),
        _ => unreachable!(),
    }
}

pub struct MutOpts {
    pub wide: bool,
    /// measurement mode: every mutant uses exactly one (class, style) pair (all pairs, allowed or not)
    /// and reports it in its family name
    pub measure: bool,
}

fn comment_mutant(rng: &mut Rng, base: &str, opts: &MutOpts) -> (String, String) {
    if opts.wide {
        let toks = tokens(base);
        let mut s = String::with_capacity(base.len() * 2);
        let rate = 1 + rng.below(8) as u64;
        let mut n = 0;
        for (i, (k, t)) in toks.iter().enumerate() {
            s.push_str(t);
            if i + 1 < toks.len() && rng.chance(1, rate) && !matches!(k, TokenKind::LINE_COMMENT) {
                n += 1;
                match rng.below(4) {
                    0 => s.push_str(&format!(" /* c{} */ ", n)),
                    1 => s.push_str(&format!("/*c{}*/", n)),
                    2 => s.push_str(&format!(" // c{}\n", n)),
                    _ => s.push_str(&format!("\n// c{}\n", n)),
                }
            }
        }
        return (s, "comments-wide".to_string());
    }
    let (file, errors) = Parser::from_shared_string(Arc::new(base.to_string())).parse();
    if !errors.is_empty() {
        return (base.to_string(), "comments".to_string());
    }
    let mut pts = vec![];
    collect_points(&file.root(), &mut pts);
    pts.sort_by_key(|p| (p.at, if p.side == Side::After { 0 } else { 1 }));
    let only: Option<(&str, &str)> = if opts.measure {
        let c = *rng.pick(ALL_CLASSES);
        let st = if c == "open-brace" {
            *rng.pick(ALL_STYLES_AFTER)
        } else if c == "close-brace" || c == "else" {
            *rng.pick(ALL_STYLES_BEFORE)
        } else if rng.chance(1, 2) {
            *rng.pick(ALL_STYLES_BEFORE)
        } else {
            *rng.pick(ALL_STYLES_AFTER)
        };
        Some((c, st))
    } else {
        None
    };
    let rate = 1 + rng.below(6) as u64;
    let mut s = String::with_capacity(base.len() * 2);
    let mut last = 0usize;
    let mut n = 0usize;
    for p in &pts {
        if p.at < last || p.at > base.len() || !base.is_char_boundary(p.at) {
            continue;
        }
        let styles = if p.side == Side::Before { ALL_STYLES_BEFORE } else { ALL_STYLES_AFTER };
        let style = *rng.pick(styles);
        let take = match only {
            Some((c, st)) => c == p.class && st == style,
            None => site_allowed(p.class, style) && rng.chance(1, rate),
        };
        if !take {
            continue;
        }
        s.push_str(&base[last..p.at]);
        last = p.at;
        n += 1;
        s.push_str(&render_comment(style, n));
    }
    s.push_str(&base[last..]);
    match only {
        Some((c, st)) => (s, format!("mc:{}:{}", c, st)),
        None => (s, "comments".to_string()),
    }
}

// ------------------------------------------------------------------------------------------------
// Synthetic list shapes. The repository corpus holds only a handful of one-element tuples, so layout mutants almost
// never reach the places where a separator is MANDATORY (`(x,)`: without the comma it is a parenthesised expression).
// This family writes small programs made of one-element tuple expressions in several contexts, with and without
// comments behind the entry / its comma, in the layouts people write. The formatter regenerates list commas, so these
// are exactly the inputs on which "optional trailing separator" and "mandatory separator" must not be confused.
// (One-entry argument lists etc. with a trailing line comment are left out: genuine idempotence defect, see COMMENT_SITES.)
fn synthetic_lists(rng: &mut Rng) -> String {
    let exprs = ["17", "a + b", "foo(1, 2)", "x.y", "\"s\"", "(1, 2)", "g((3,))", "-1i32", "a && b", "v(0)", "|k: Int64|: Int64 { k }", "if c { 1 } else { 2 }"];
    let mut s = String::from("fn main() {\n");
    let n = 1 + rng.below(6);
    for i in 0..n {
        let e = *rng.pick(&exprs);
        // line comments only: a trailing BLOCK comment behind a list item's comma is a documented defect of the
        // pinned tree (comma-list printer vs trivia printer, see COMMENT_SITES)
        let comment = match rng.below(4) {
            0 => String::new(),
            1 => format!(" // zq{}\n", i),
            2 => format!("\n    // zq{}\n", i),
            _ => format!(" // zq{} long long long long long long long long long comment\n", i),
        };
        let before = match rng.below(4) { 0 => "\n        ", 1 => " ", _ => "" };
        let tuple = format!("({}{},{}    )", before, e, if comment.is_empty() { " ".to_string() } else { comment });
        match rng.below(6) {
            0 => s.push_str(&format!("    let t{} = {};\n", i, tuple)),
            1 => s.push_str(&format!("    f({});\n", tuple)),
            2 => s.push_str(&format!("    let t{} = {}.0;\n", i, tuple)),
            3 => s.push_str(&format!("    g(1, {}, 2);\n", tuple)),
            4 => s.push_str(&format!("    return {};\n", tuple)),
            _ => s.push_str(&format!("    let t{}: (Int64,) = {};\n", i, tuple)),
        }
    }
    s.push_str("}\n");
    s
}

// ------------------------------------------------------------------------------------------------
// Layout mutants: same code tokens, different layout/comments.

fn layout_mutant(rng: &mut Rng, base: &str, opts: &MutOpts) -> (String, String) {
    let toks = tokens(base);
    let kind = if opts.measure || opts.wide { 1 } else { rng.below(5) };
    let mut s = String::with_capacity(base.len() * 2);
    let ws = [" ", "  ", "\n", "\n\n", "\t", " \n ", "\n    ", "          ", "\n\n\n"];
    match kind {
        0 => {
            // re-spacing: every whitespace/newline run replaced
            for (k, t) in &toks {
                if matches!(k, TokenKind::WHITESPACE | TokenKind::NEWLINE) {
                    s.push_str(rng.pick_str(&ws));
                } else {
                    s.push_str(t);
                }
            }
            (s, "respace".to_string())
        }
        1 => {
            return comment_mutant(rng, base, opts);
        }
        2 => {
            // every boundary between two tokens gets whitespace
            for (_, t) in &toks {
                s.push_str(t);
                if rng.chance(1, 3) {
                    s.push_str(rng.pick_str(&ws));
                }
            }
            (s, "space-insert".to_string())
        }
        3 => {
            // line joining: newlines become spaces (except after line comments)
            let mut prev_line_comment = false;
            for (k, t) in &toks {
                if *k == TokenKind::NEWLINE && !prev_line_comment && rng.chance(3, 4) {
                    s.push(' ');
                } else {
                    s.push_str(t);
                }
                if *k != TokenKind::WHITESPACE {
                    prev_line_comment = *k == TokenKind::LINE_COMMENT;
                }
            }
            (s, "line-join".to_string())
        }
        _ => {
            // line splitting: whitespace becomes newline
            for (k, t) in &toks {
                if *k == TokenKind::WHITESPACE && rng.chance(1, 2) {
                    s.push('\n');
                } else {
                    s.push_str(t);
                }
            }
            (s, "line-split".to_string())
        }
    }
}

fn debug_one(path: &str, width: u32) {
    let text = std::fs::read_to_string(path).unwrap();
    if let Some(a) = analyze(&text) {
        if std::env::var("C17_TREE").is_ok() {
            println!("== TREE\n{}", ser(&a.tree));
        }
        for c in &a.comments {
            println!("== COMMENT {:?} class={} ({})", c.text, c.class, c.detail);
        }
    }
    let t = text.clone();
    match catch(move || dora_format::format_source_with_line_length(&t, width)) {
        Ok(Ok(o)) => {
            println!("== FIRST\n{}", o);
            if let Ok(o2) = dora_format::format_source_with_line_length(&o, width) {
                if *o2 != *o {
                    println!("== SECOND\n{}", o2);
                }
            }
        }
        Ok(Err(_)) => println!("== REJECTED"),
        Err(p) => println!("== PANIC {} {}", p.loc, p.msg),
    }
    let t = text.clone();
    match catch(move || check_one(&t, width)) {
        Ok(Ok(bad)) => {
            for (k, w) in bad {
                println!("== BAD {} | {}", k, w);
            }
        }
        Ok(Err(e)) => println!("== SKIP {}", e),
        Err(p) => println!("== PANIC panic@{}:{}", p.loc, msg_class(&p.msg)),
    }
}

pub fn run(args: &Args) {
    if let Some(p) = args.get("file") {
        let w: u32 = args.get("w").map(|s| s.parse().unwrap()).unwrap_or(90);
        debug_one(p, w);
        return;
    }
    let corpus = Corpus::load(args.extra.as_deref());
    if args.get("survey").is_some() {
        // investigation: comment position classes over the corpus
        let mut m: std::collections::BTreeMap<String, (usize, String)> = Default::default();
        for (i, f) in corpus.files.iter().enumerate() {
            let Some(t) = corpus.read(i) else { continue };
            let Ok(Some(a)) = catch(move || analyze(&t)) else { continue };
            for c in a.comments {
                let e = m.entry(c.class.clone()).or_insert((0, f.display().to_string()));
                e.0 += 1;
            }
        }
        for (k, (n, f)) in m {
            println!("{:6} {} e.g. {}", n, k, f);
        }
        return;
    }
    let mut rep = Reporter::new(args);
    let nwidths: usize = args.get("widths").map(|s| s.parse().unwrap()).unwrap_or(3);
    let opts = MutOpts { wide: args.get("wide") == Some("1"), measure: args.get("cmeasure") == Some("1") };
    let mut per_key: std::collections::HashMap<String, u32> = Default::default();
    for idx in args.indices() {
        let mut rng = Rng::new(args.seed, 0xc17, idx);
        // even indices: corpus file as is (walking the corpus); odd: layout mutant of a small file
        let (text, family): (String, String) = if idx % 32 == 31 && !opts.wide && !opts.measure {
            (synthetic_lists(&mut rng), "synthetic-lists".into())
        } else if idx % 2 == 0 {
            let i = ((idx / 2) as usize) % corpus.files.len();
            match corpus.read(i) {
                Some(t) => (t, "corpus".into()),
                None => continue,
            }
        } else {
            let (_, b) = match args.get("basefilter") {
                // investigation only: mutants of the files whose path contains the given text
                Some(pat) => {
                    let cand: Vec<usize> = (0..corpus.files.len()).filter(|&i| corpus.files[i].to_string_lossy().contains(pat)).collect();
                    let i = *rng.pick(&cand);
                    (i, corpus.read(i).unwrap_or_default())
                }
                None => corpus.random_small(&mut rng),
            };
            let (t, k) = layout_mutant(&mut rng, &b, &opts);
            (t, format!("mutant-{}", k))
        };
        rep.begin_case(idx, text.as_bytes());
        rep.count("cases", 1);
        // widths: a rotating subset so that all widths are covered across the run
        let mut widths: Vec<u32> = vec![];
        for k in 0..nwidths.min(WIDTHS.len()) {
            widths.push(WIDTHS[((idx as usize) + k * 3) % WIDTHS.len()]);
        }
        widths.sort();
        widths.dedup();
        for w in widths {
            let t = text.clone();
            match catch(move || check_one(&t, w)) {
                Ok(Ok(bad)) => {
                    rep.count("formatted", 1);
                    rep.count(&format!("family:{}", family), 1);
                    rep.count(&format!("width:{}", w), 1);
                    let snip: String = if idx < 64 { text.chars().take(160).collect() } else { String::new() };
                    rep.line(vhc::json!({"t": "ok", "idx": idx, "h": vhc::fnv(text.as_bytes()) ^ (w as u64), "fam": family, "w": w, "snip": snip}));
                    for (key, what) in bad {
                        // the reporter keeps the input text only for the first 200 reports of a shard: report
                        // each key at most 3 times per shard so that every distinct key comes with a witness;
                        // all occurrences are counted
                        rep.count(&format!("bad:{}", key), 1);
                        let n = per_key.entry(key.clone()).or_insert(0u32);
                        *n += 1;
                        if *n <= 3 {
                            rep.bad(idx, &key, &format!("width {}: {}", w, what), &text, &family);
                        }
                    }
                }
                Ok(Err(why)) => {
                    rep.count(&format!("skipped:{}", why), 1);
                    break;
                }
                Err(p) => {
                    rep.count("formatted", 1);
                    let key = format!("panic@{}:{}", p.loc, msg_class(&p.msg));
                    rep.count(&format!("bad:{}", key), 1);
                    let n = per_key.entry(key.clone()).or_insert(0u32);
                    *n += 1;
                    if *n <= 3 {
                        rep.bad(idx, &key, &format!("width {}: formatter panicked at {}: {}", w, p.loc, p.msg), &text, &family);
                    }
                }
            }
        }
    }
    rep.finish();
}
