//! vh-text: in-process oracles over text inputs.
//!   parse   -> C16 (losslessness, tiling, spans, re-parse, line/column) and parser-level C06 (no panic)
//!   format  -> C17 (skeleton, comments, idempotence, no panic)
//!   symbols -> C19 (mangling)
use std::sync::Arc;

use dora_parser::ast::{SyntaxElement, SyntaxNode};
use dora_parser::{GreenElement, GreenNode, Parser, TokenKind, compute_line_column, compute_line_starts, lex};
use vhc::textgen::{Corpus, gen_case};
use vhc::{Args, Reporter, catch, msg_class};

mod format;
mod symbols;

fn main() {
    let args = Args::parse();
    vhc::install_panic_hook();
    let mode = args.mode.clone();
    vhc::with_big_stack(move || match mode.as_str() {
        "parse" => run_parse(&args),
        "format" => format::run(&args),
        "symbols" => symbols::run(&args),
        m => panic!("unknown mode {}", m),
    });
}

// ------------------------------------------------------------------------------------------------
// C16 oracle

/// Green-level invariants, iteratively (no recursion: depth is input controlled).
fn check_green(root: &Arc<GreenNode>, text: &str, bad: &mut Vec<(String, String)>) -> (u64, u64) {
    let mut nodes = 0u64;
    let mut toks = 0u64;
    let mut stack: Vec<(Arc<GreenNode>, u32)> = vec![(root.clone(), 0)];
    while let Some((n, start)) = stack.pop() {
        nodes += 1;
        let mut pos = start;
        let mut sum: u64 = 0;
        for c in n.children() {
            match c {
                GreenElement::Token(t) => {
                    toks += 1;
                    let l = t.text.len() as u32;
                    let s = pos as usize;
                    let e = s + l as usize;
                    if e > text.len() || !text.is_char_boundary(s) || !text.is_char_boundary(e) || &text[s..e] != t.text.as_str() {
                        if bad.len() < 4 {
                            bad.push(("token-text".into(), format!("token {:?} at {} does not match text", t.kind, pos)));
                        }
                    }
                    if l == 0 && bad.len() < 4 {
                        bad.push(("empty-token".into(), format!("zero-length token {:?} at {}", t.kind, pos)));
                    }
                    sum += l as u64;
                    pos += l;
                }
                GreenElement::Node(ch) => {
                    stack.push((ch.clone(), pos));
                    sum += ch.text_length() as u64;
                    pos += ch.text_length();
                }
            }
        }
        if sum != n.text_length() as u64 && bad.len() < 4 {
            bad.push((
                "node-length".into(),
                format!("node {:?} at {}: text_length {} != sum of children {}", n.syntax_kind(), start, n.text_length(), sum),
            ));
        }
    }
    (nodes, toks)
}

/// Red-level: child offsets contiguous, full_span == (offset, green length), non-trivia span inside.
fn check_red(root: &SyntaxNode, bad: &mut Vec<(String, String)>) {
    let mut stack = vec![root.clone()];
    while let Some(n) = stack.pop() {
        let fs = n.full_span();
        let mut pos = n.offset().value();
        if fs.start() != pos || fs.len() != n.green().text_length() {
            bad.push(("red-span".into(), format!("full_span {:?} != offset {} len {}", fs, pos, n.green().text_length())));
        }
        let nt = n.span();
        if !(nt.start() >= fs.start() && nt.end() <= fs.end()) && bad.len() < 4 {
            bad.push(("nontrivia-span".into(), format!("span {} not inside full span {}", nt, fs)));
        }
        for c in n.children_with_tokens() {
            let off = c.offset().value();
            if off != pos && bad.len() < 4 {
                bad.push(("child-gap".into(), format!("child at {} expected {}", off, pos)));
            }
            pos = off + c.text_length();
            if let SyntaxElement::Node(ch) = c {
                stack.push(ch);
            }
        }
        if pos != fs.end() && bad.len() < 4 {
            bad.push(("child-end".into(), format!("children end at {} node ends at {}", pos, fs.end())));
        }
    }
}

fn shape(root: &Arc<GreenNode>) -> Vec<(TokenKind, u32)> {
    let mut out = vec![];
    let mut stack: Vec<GreenElement> = vec![GreenElement::Node(root.clone())];
    while let Some(e) = stack.pop() {
        match e {
            GreenElement::Token(t) => out.push((t.kind, t.text.len() as u32)),
            GreenElement::Node(n) => {
                out.push((n.syntax_kind(), n.text_length() | 0x8000_0000));
                for c in n.children().iter().rev() {
                    stack.push(c.clone());
                }
            }
        }
    }
    out
}

/// Naive line/column: 1-based line, 1-based byte column; line breaks are \n, \r\n, lone \r.
fn naive_line_col(text: &str, offset: usize) -> (u32, u32) {
    let b = text.as_bytes();
    let mut line = 1u32;
    let mut line_start = 0usize;
    let mut i = 0usize;
    while i < offset {
        if b[i] == b'\n' {
            line += 1;
            line_start = i + 1;
        } else if b[i] == b'\r' {
            if i + 1 < b.len() && b[i + 1] == b'\n' {
                // the \n belongs to this line break; an offset pointing at the \n is still on the old line
                if i + 1 < offset {
                    i += 1;
                    line += 1;
                    line_start = i + 1;
                }
            } else {
                line += 1;
                line_start = i + 1;
            }
        }
        i += 1;
    }
    (line, (offset - line_start) as u32 + 1)
}

pub fn parse_oracle(text: &str, rng: &mut vhc::Rng) -> (Vec<(String, String)>, bool, u64, u64) {
    let mut bad: Vec<(String, String)> = vec![];
    let (file, errors) = Parser::from_shared_string(Arc::new(text.to_string())).parse();
    let root = file.root();
    let s = root.green().to_string();
    if s != text {
        let p = s.bytes().zip(text.bytes()).position(|(a, b)| a != b).unwrap_or(s.len().min(text.len()));
        bad.push(("roundtrip".into(), format!("tree text differs from input at byte {} (tree {} bytes, input {} bytes)", p, s.len(), text.len())));
    }
    if root.green().text_length() as usize != text.len() {
        bad.push(("root-length".into(), format!("root length {} != input length {}", root.green().text_length(), text.len())));
    }
    let (nodes, toks) = check_green(root.green(), text, &mut bad);
    check_red(&root, &mut bad);
    for e in &errors {
        let (s, e2) = (e.span.start() as usize, e.span.end() as usize);
        if e2 > text.len() || s > e2 {
            bad.push(("error-span".into(), format!("error span {}..{} outside text of {} bytes ({})", s, e2, text.len(), e.error.message())));
        } else if !text.is_char_boundary(s) || !text.is_char_boundary(e2) {
            bad.push(("error-span-boundary".into(), format!("error span {}..{} not on char boundaries", s, e2)));
        }
    }
    // lexer tiling
    let lr = lex(text);
    let mut prev = 0u32;
    for (i, &st) in lr.starts.iter().enumerate() {
        if (i == 0 && st != 0) || (i > 0 && st <= prev) || st as usize >= text.len().max(1) {
            bad.push(("lexer-tiling".into(), format!("token {} starts at {} after {}", i, st, prev)));
            break;
        }
        prev = st;
    }
    for e in &lr.errors {
        if e.span.end() as usize > text.len() {
            bad.push(("lexer-error-span".into(), format!("lexer error span {} outside", e.span)));
        }
    }
    // re-parse of the reproduced text: same shape (only when error free, as the property states)
    if errors.is_empty() {
        let (file2, errors2) = Parser::from_shared_string(Arc::new(s.clone())).parse();
        if !errors2.is_empty() {
            bad.push(("reparse-errors".into(), "reproduced text has parse errors".into()));
        } else if shape(file2.root().green()) != shape(root.green()) {
            bad.push(("reparse-shape".into(), "re-parsed tree has a different shape".into()));
        }
    }
    // line/column versus naive scan
    let ls = compute_line_starts(text);
    let n = text.len();
    let mut offs: Vec<usize> = vec![0, n];
    if n <= 2000 {
        offs.extend(0..=n);
    } else {
        for _ in 0..400 {
            offs.push(rng.below(n + 1));
        }
        // around every line break in a window
        for (i, b) in text.bytes().enumerate().take(20000) {
            if b == b'\n' || b == b'\r' {
                offs.push(i);
                offs.push(i + 1);
            }
        }
    }
    for o in offs {
        if o > n {
            continue;
        }
        let got = compute_line_column(&ls, o as u32);
        let want = naive_line_col(text, o);
        if got != want {
            bad.push(("line-column".into(), format!("offset {}: compute_line_column {:?} != naive {:?}", o, got, want)));
            break;
        }
    }
    (bad, errors.is_empty(), nodes, toks)
}

fn run_parse(args: &Args) {
    let corpus = Corpus::load(args.extra.as_deref());
    let mut rep = Reporter::new(args);
    for idx in args.indices() {
        let case = gen_case(&corpus, args.seed, idx);
        rep.begin_case(idx, case.text.as_bytes());
        rep.count("cases", 1);
        rep.count(&format!("family:{}", case.family), 1);
        let mut rng = vhc::Rng::new(args.seed, 0x11c0, idx);
        let text = case.text.clone();
        match catch(move || parse_oracle(&text, &mut rng)) {
            Ok((bad, clean, nodes, toks)) => {
                rep.count("nodes", nodes);
                rep.count("tokens", toks);
                rep.count(if clean { "error_free" } else { "with_errors" }, 1);
                let snip: String = if idx < 64 { case.text.chars().take(160).collect() } else { String::new() };
                rep.line(vhc::json!({"t": "ok", "idx": idx, "h": vhc::fnv(case.text.as_bytes()), "clean": clean, "fam": case.family, "snip": snip}));
                for (rule, what) in bad {
                    rep.bad(idx, &format!("c16:{}", rule), &what, &case.text, &case.family);
                }
            }
            Err(p) => {
                let key = format!("panic@{}:{}", p.loc, msg_class(&p.msg));
                rep.bad(idx, &key, &format!("parser panicked at {}: {}", p.loc, p.msg), &case.text, &case.family);
            }
        }
    }
    rep.finish();
}
