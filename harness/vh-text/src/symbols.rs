//! C19 oracle over generated display names: injectivity, alphabet, length cap, demangle round trip,
//! determinism and collision-freedom of shortening.
use std::collections::HashMap;

use dora_symbol::{demangle_name, mangle_name, mangle_name_with_max_len};
use vhc::{Args, Reporter, Rng, catch, msg_class};

const MAX_LEN: usize = 200; // AOT_SYMBOL_MAX_LEN; the Python side cross-checks this against the source

const SEPS: &[&str] = &[
    "::", "[", "]", "(", ")", ", ", ": ", " for ", "#", "<impl", ">", " ", "<", "$", "_", "__", "_3A", "_5F", "-", ".",
    "&", "*", "'", "\"", "|", "=>", "->", "{", "}", "@", "!", "?", ";", "/", "\\", "\t", "\n", "\0",
];
const WORDS: &[&str] = &[
    "std", "boots", "main", "interface", "compile", "Option", "Int32", "Int64", "String", "Vec", "Array", "HashMap",
    "Fn1", "call", "thunk", "trait", "object", "T", "U", "Self", "Lambda1Env", "impl", "H", "H0", "A", "a", "F", "f",
    "0", "9", "3A", "5F", "5f", "ä", "€", "😀", "☃", "ß", "中",
];

fn gen_name(rng: &mut Rng) -> String {
    let mut s = String::new();
    let style = rng.below(8);
    let n = match style {
        0 => 1 + rng.below(4),
        1..=4 => 2 + rng.below(12),
        5 => 20 + rng.below(60),
        _ => 1 + rng.below(30),
    };
    for i in 0..n {
        if i > 0 || rng.chance(1, 5) {
            s.push_str(rng.pick_str(SEPS));
        }
        s.push_str(rng.pick_str(WORDS));
    }
    // long common prefixes around and far beyond the cap
    if rng.chance(1, 4) {
        let plen = *rng.pick(&[150usize, 180, 190, 195, 199, 200, 201, 210, 500, 5000]);
        let unit = *rng.pick(&["Int64, ", "a", "::x", "_", "ä", "[T]"]);
        let mut p = String::new();
        while p.len() < plen {
            p.push_str(unit);
        }
        s = format!("{}{}", p, s);
    }
    s
}

/// A neighbour of `name`: one character changed/inserted/removed at a random position, preferring
/// characters that need escaping and their escape spellings.
fn neighbour(rng: &mut Rng, name: &str) -> String {
    let chars: Vec<char> = name.chars().collect();
    if chars.is_empty() {
        return "_".into();
    }
    let i = rng.below(chars.len());
    let repl: &[&str] = &["_", "_5F", ":", "_3A", "A", "a", "", "__", "5F", "3A", "_H", "H", "\u{1}", "ä", "Ã¤", " "];
    let mut out = String::new();
    for (k, c) in chars.iter().enumerate() {
        if k == i {
            match rng.below(3) {
                0 => out.push_str(rng.pick_str(repl)),
                1 => {
                    out.push(*c);
                    out.push_str(rng.pick_str(repl));
                }
                _ => {}
            }
        } else {
            out.push(*c);
        }
    }
    out
}

fn valid_symbol(s: &str) -> bool {
    s.starts_with("dora_") && s.bytes().all(|b| b.is_ascii_alphanumeric() || b == b'_')
}

pub fn run(args: &Args) {
    let mut rep = Reporter::new(args);
    // global maps for collision detection across the whole shard
    let mut full: HashMap<String, String> = HashMap::new(); // mangled -> name
    let mut capped: HashMap<String, String> = HashMap::new();
    let mut digest: u64 = 0;
    for idx in args.indices() {
        let mut rng = Rng::new(args.seed, 0xc19, idx);
        // one case = a base name plus a cluster of neighbours
        let base = gen_name(&mut rng);
        let mut names = vec![base.clone()];
        for _ in 0..(4 + rng.below(8)) {
            let b = rng.pick(&names).clone();
            names.push(neighbour(&mut rng, &b));
        }
        rep.begin_case(idx, names.join("\n--\n").as_bytes());
        rep.count("cases", 1);
        for name in names {
            rep.count("names", 1);
            let nm = name.clone();
            let r = catch(move || {
                let m = mangle_name(&nm);
                let c = mangle_name_with_max_len(&nm, MAX_LEN);
                let c2 = mangle_name_with_max_len(&nm, MAX_LEN);
                let d = demangle_name(&m);
                (m, c, c2, d)
            });
            let (m, c, c2, d) = match r {
                Ok(v) => v,
                Err(p) => {
                    rep.bad(idx, &format!("panic@{}:{}", p.loc, msg_class(&p.msg)), &format!("panic {}: {}", p.loc, p.msg), &name, "names");
                    continue;
                }
            };
            digest = vhc::fnv(format!("{:016x}{}{}", digest, m, c).as_bytes());
            if !valid_symbol(&m) {
                rep.bad(idx, "c19:alphabet", &format!("mangle_name({:?}) = {:?} has a character outside [A-Za-z0-9_] or lacks the prefix", name, m), &name, "names");
            }
            if !valid_symbol(&c) {
                rep.bad(idx, "c19:alphabet-capped", &format!("capped symbol {:?} invalid", c), &name, "names");
            }
            if c.len() > MAX_LEN {
                rep.bad(idx, "c19:length", &format!("capped symbol has length {} > {}", c.len(), MAX_LEN), &name, "names");
            }
            if c != c2 {
                rep.bad(idx, "c19:nondeterministic", "two calls gave different symbols", &name, "names");
            }
            if d.as_deref() != Some(name.as_str()) {
                rep.bad(idx, "c19:demangle", &format!("demangle(mangle({:?})) = {:?}", name, d), &name, "names");
            }
            if m.len() <= MAX_LEN {
                rep.count("unshortened", 1);
                if c != m {
                    rep.bad(idx, "c19:short-changed", "a symbol within the cap was altered by the capped variant", &name, "names");
                }
            } else {
                rep.count("shortened", 1);
                if !c.starts_with(&m[..MAX_LEN - 34]) {
                    rep.bad(idx, "c19:short-prefix", "shortened symbol does not keep the prefix of the full symbol", &name, "names");
                }
            }
            if let Some(prev) = full.get(&m) {
                if prev != &name {
                    rep.bad(idx, "c19:collision", &format!("mangle_name collision: {:?} and {:?} -> {}", prev, name, m), &name, "names");
                }
            } else {
                full.insert(m.clone(), name.clone());
            }
            if let Some(prev) = capped.get(&c) {
                if prev != &name {
                    rep.bad(idx, "c19:collision-capped", &format!("capped collision: {:?} and {:?} -> {}", prev, name, c), &name, "names");
                }
            } else {
                capped.insert(c.clone(), name.clone());
            }
        }
    }
    rep.count("distinct_symbols", full.len() as u64);
    rep.stats.insert("digest".into(), vhc::json!(format!("{:016x}", digest)));
    rep.finish();
}
