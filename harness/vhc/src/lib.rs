//! Common pieces of the in-process harness binaries: seeded RNG, corpus listing, panic capture,
//! text case generation (families (a)-(e) of DESIGN.md 2.4), JSON-lines reporting.
use std::cell::RefCell;
use std::io::Write;
use std::panic::{self, AssertUnwindSafe};
use std::path::{Path, PathBuf};

pub use serde_json::{Value, json};

pub mod textgen;

// ---------------------------------------------------------------------------------------------
// RNG (splitmix64 seeded; xorshift64* stream). No dependency on `rand`.
#[derive(Clone)]
pub struct Rng(u64);

impl Rng {
    pub fn new(seed: u64, stream: u64, index: u64) -> Rng {
        let mut z = seed
            .wrapping_mul(0x9E3779B97F4A7C15)
            .wrapping_add(stream.wrapping_mul(0xBF58476D1CE4E5B9))
            .wrapping_add(index.wrapping_mul(0x94D049BB133111EB))
            .wrapping_add(0x2545F4914F6CDD1D);
        z = (z ^ (z >> 30)).wrapping_mul(0xBF58476D1CE4E5B9);
        z = (z ^ (z >> 27)).wrapping_mul(0x94D049BB133111EB);
        z ^= z >> 31;
        if z == 0 {
            z = 0x1234_5678_9ABC_DEF1;
        }
        Rng(z)
    }
    pub fn next(&mut self) -> u64 {
        let mut x = self.0;
        x ^= x >> 12;
        x ^= x << 25;
        x ^= x >> 27;
        self.0 = x;
        x.wrapping_mul(0x2545F4914F6CDD1D)
    }
    pub fn below(&mut self, n: usize) -> usize {
        if n == 0 { 0 } else { (self.next() % n as u64) as usize }
    }
    pub fn range(&mut self, lo: i64, hi: i64) -> i64 {
        lo + (self.next() % ((hi - lo + 1) as u64)) as i64
    }
    pub fn chance(&mut self, num: u64, den: u64) -> bool {
        self.next() % den < num
    }
    pub fn pick<'a, T>(&mut self, v: &'a [T]) -> &'a T {
        &v[self.below(v.len())]
    }
    pub fn pick_string<'a>(&mut self, v: &'a [String]) -> &'a str {
        v[self.below(v.len())].as_str()
    }
    pub fn pick_str<'a>(&mut self, v: &[&'a str]) -> &'a str {
        v[self.below(v.len())]
    }
}

// ---------------------------------------------------------------------------------------------
// Corpus: every .dora file in the repository working tree.
pub fn repo_root() -> PathBuf {
    PathBuf::from(std::env::var("VERIF_REPO").unwrap_or_else(|_| "/repo".into()))
}

pub fn corpus_files() -> Vec<PathBuf> {
    fn rec(p: &Path, out: &mut Vec<PathBuf>) {
        let Ok(rd) = std::fs::read_dir(p) else { return };
        for e in rd.flatten() {
            let e = e.path();
            if e.is_dir() {
                rec(&e, out);
            } else if e.extension().map(|x| x == "dora").unwrap_or(false) {
                out.push(e);
            }
        }
    }
    let mut files = vec![];
    let root = repo_root();
    for d in ["pkgs", "test", "bench"] {
        rec(&root.join(d), &mut files);
    }
    files.sort();
    files
}

pub fn extra_files(dir: &str) -> Vec<PathBuf> {
    let mut v: Vec<PathBuf> = std::fs::read_dir(dir)
        .map(|rd| rd.flatten().map(|e| e.path()).filter(|p| p.is_file()).collect())
        .unwrap_or_default();
    v.sort();
    v
}

// ---------------------------------------------------------------------------------------------
// Panic capture: key = panic@<file>:<line> of the panic location (inside /repo for all real cases).
thread_local! {
    static LAST_PANIC: RefCell<Option<(String, String)>> = const { RefCell::new(None) };
}

pub fn install_panic_hook() {
    panic::set_hook(Box::new(|info| {
        let loc = info
            .location()
            .map(|l| {
                let root = format!("{}/", repo_root().display());
                format!("{}:{}", l.file().trim_start_matches(root.as_str()).trim_start_matches("/repo/"), l.line())
            })
            .unwrap_or_else(|| "?".into());
        let msg = if let Some(s) = info.payload().downcast_ref::<&str>() {
            s.to_string()
        } else if let Some(s) = info.payload().downcast_ref::<String>() {
            s.clone()
        } else {
            "<non-string panic>".into()
        };
        LAST_PANIC.with(|p| *p.borrow_mut() = Some((loc, msg)));
    }));
}

pub struct Panicked {
    pub loc: String,
    pub msg: String,
}

pub fn catch<T>(f: impl FnOnce() -> T) -> Result<T, Panicked> {
    LAST_PANIC.with(|p| *p.borrow_mut() = None);
    match panic::catch_unwind(AssertUnwindSafe(f)) {
        Ok(v) => Ok(v),
        Err(_) => {
            let (loc, msg) = LAST_PANIC
                .with(|p| p.borrow_mut().take())
                .unwrap_or_else(|| ("?".into(), "?".into()));
            Err(Panicked { loc, msg })
        }
    }
}

/// Message class: the panic message with digits and quoted/backticked payloads abstracted, so that
/// the same defect on different inputs has the same key.
pub fn msg_class(msg: &str) -> String {
    let mut out = String::new();
    let mut in_tick = false;
    let mut last_digit = false;
    for c in msg.chars().take(160) {
        if c == '`' || c == '"' || c == '\'' {
            in_tick = !in_tick;
            out.push(c);
            continue;
        }
        if in_tick {
            continue;
        }
        if c.is_ascii_digit() {
            if !last_digit {
                out.push('N');
            }
            last_digit = true;
        } else {
            last_digit = false;
            out.push(if c == '\n' { ' ' } else { c });
        }
    }
    out
}

// ---------------------------------------------------------------------------------------------
// Command line: --seed N --shard I --nshards N --count N --out DIR [--only IDX] [--extra DIR] [k=v ...]
pub struct Args {
    pub mode: String,
    pub seed: u64,
    pub shard: u64,
    pub nshards: u64,
    pub count: u64,
    pub out: PathBuf,
    pub only: Option<u64>,
    pub extra: Option<String>,
    pub kv: Vec<(String, String)>,
}

impl Args {
    pub fn parse() -> Args {
        let mut a = Args {
            mode: String::new(),
            seed: 1,
            shard: 0,
            nshards: 1,
            count: 100,
            out: PathBuf::from("."),
            only: None,
            extra: None,
            kv: vec![],
        };
        let v: Vec<String> = std::env::args().skip(1).collect();
        let mut i = 0;
        while i < v.len() {
            let s = &v[i];
            let mut val = || {
                i += 1;
                v[i].clone()
            };
            match s.as_str() {
                "--seed" => a.seed = val().parse().unwrap(),
                "--shard" => a.shard = val().parse().unwrap(),
                "--nshards" => a.nshards = val().parse().unwrap(),
                "--count" => a.count = val().parse().unwrap(),
                "--out" => a.out = PathBuf::from(val()),
                "--only" => a.only = Some(val().parse().unwrap()),
                "--extra" => a.extra = Some(val()),
                _ => {
                    if let Some((k, w)) = s.split_once('=') {
                        a.kv.push((k.to_string(), w.to_string()));
                    } else if a.mode.is_empty() {
                        a.mode = s.clone();
                    } else {
                        panic!("unknown argument {}", s);
                    }
                }
            }
            i += 1;
        }
        a
    }
    pub fn get(&self, k: &str) -> Option<&str> {
        self.kv.iter().find(|(a, _)| a == k).map(|(_, v)| v.as_str())
    }
    /// Global case indices owned by this shard: shard, shard+nshards, ...
    pub fn indices(&self) -> Vec<u64> {
        if let Some(o) = self.only {
            return vec![o];
        }
        // skip_upto=<idx>: resume after a case that killed the previous child of this shard
        let skip: Option<u64> = self.get("skip_upto").map(|s| s.parse().unwrap());
        (0..self.count)
            .filter(|i| i % self.nshards == self.shard)
            .filter(|i| skip.map(|s| *i > s).unwrap_or(true))
            .collect()
    }
}

// ---------------------------------------------------------------------------------------------
// Reporter: one JSON object per line to <out>/shard_<i>.jsonl; current case text to cur_<i>.txt so
// that the parent can attribute a child death (abort, stack overflow) to an input.
pub struct Reporter {
    f: std::io::BufWriter<std::fs::File>,
    cur: PathBuf,
    curidx: PathBuf,
    pub stats: serde_json::Map<String, Value>,
    pub bad: u64,
    write_cur: bool,
}

impl Reporter {
    pub fn new(args: &Args) -> Reporter {
        std::fs::create_dir_all(&args.out).unwrap();
        let f = std::fs::File::create(args.out.join(format!("shard_{}.jsonl", args.shard))).unwrap();
        Reporter {
            f: std::io::BufWriter::new(f),
            cur: args.out.join(format!("cur_{}.txt", args.shard)),
            curidx: args.out.join(format!("cur_{}.idx", args.shard)),
            stats: serde_json::Map::new(),
            bad: 0,
            write_cur: true,
        }
    }
    pub fn begin_case(&mut self, idx: u64, text: &[u8]) {
        if self.write_cur {
            let _ = std::fs::write(&self.cur, text);
            let _ = std::fs::write(&self.curidx, idx.to_string());
        }
    }
    pub fn count(&mut self, k: &str, n: u64) {
        let e = self.stats.entry(k.to_string()).or_insert(json!(0));
        *e = json!(e.as_u64().unwrap_or(0) + n);
    }
    pub fn line(&mut self, v: Value) {
        writeln!(self.f, "{}", v).unwrap();
    }
    /// A violation candidate: key = exact signature, what = human text, input = witness.
    pub fn bad(&mut self, idx: u64, key: &str, what: &str, input: &str, family: &str) {
        self.bad += 1;
        self.line(json!({"t": "bad", "idx": idx, "key": key, "what": what, "family": family,
            "input": if self.bad <= 200 { input } else { "" }}));
        let _ = self.f.flush();
    }
    pub fn finish(mut self) {
        let stats = Value::Object(std::mem::take(&mut self.stats));
        self.line(json!({"t": "stats", "stats": stats}));
        self.line(json!({"t": "done"}));
        self.f.flush().unwrap();
        let _ = std::fs::remove_file(&self.cur);
        let _ = std::fs::remove_file(&self.curidx);
    }
}

pub fn fnv(s: &[u8]) -> u64 {
    let mut h = 0xcbf29ce484222325u64;
    for b in s {
        h ^= *b as u64;
        h = h.wrapping_mul(0x100000001b3);
    }
    h
}

/// Run `f` on a thread with a large stack (nesting depth <= 200 must not be a stack matter).
pub fn with_big_stack<T: Send + 'static>(f: impl FnOnce() -> T + Send + 'static) -> T {
    std::thread::Builder::new()
        .stack_size(256 << 20)
        .spawn(f)
        .unwrap()
        .join()
        .unwrap()
}
