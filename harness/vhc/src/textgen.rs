//! Text input families (DESIGN.md 2.4):
//! (a) corpus files as they are, (b) extra generated programs (from the Python generator, via --extra),
//! (c) token soups, (d) token-level mutants, (e) byte-level variants.
use crate::Rng;
use dora_parser::{TokenKind, lex};
use std::path::PathBuf;

pub const MAX_INPUT: usize = 64 * 1024;
pub const MAX_NEST: usize = 200;

pub struct Corpus {
    pub files: Vec<PathBuf>,
    pub small: Vec<usize>, // indices of files <= MAX_INPUT/2 that are valid UTF-8
    pub vocab: Vec<String>,
}

const STATIC_VOCAB: &[&str] = &[
    "fn", "let", "mut", "class", "struct", "enum", "trait", "impl", "mod", "use", "pub", "static", "const",
    "return", "if", "else", "while", "for", "in", "break", "continue", "match", "self", "Self", "super",
    "package", "extern", "as", "is", "true", "false", "mutating", "type", "where", "ref", "_", "+", "-", "*",
    "/", "%", "!", "|", "&", "^", "&&", "||", "==", "!=", "===", "!==", "<", "<=", ">", ">=", "+=", "-=",
    "*=", "/=", "%=", "|=", "&=", "^=", ">>=", ">>>=", "<<=", ">>", ">>>", "<<", "=", ",", ";", ".", "..",
    "...", ":", "::", "@", "->", "=>", "(", ")", "[", "]", "{", "}", "\"", "'", "${", "\"a${", "}\"", "//",
    "/*", "*/", "0", "1", "1i32", "1i64", "0u8", "1.0", "2.5f32", "0x", "0xFF", "0b", "0b101", "1_000",
    "1e", "1.", ".5", "'a'", "'\\n'", "'\\u{1F600}'", "''", "\"s\"", "\"\\\"\"", "\"a${b}c\"", "x", "y",
    "foo", "Bar", "Int32", "Int64", "String", "Bool", "Array", "Vec", "Option", "Some", "None", "main",
    "\n", " ", "\t", "\r\n", "\r", "ä", "€", "😀", "\u{feff}", "\u{0}", "\u{7f}", "\u{2028}", "#", "$", "?",
    "`", "\\", "~",
];

impl Corpus {
    pub fn load(extra: Option<&str>) -> Corpus {
        let mut files = crate::corpus_files();
        if let Some(d) = extra {
            files.extend(crate::extra_files(d));
        }
        let mut small = vec![];
        for (i, f) in files.iter().enumerate() {
            if let Ok(m) = std::fs::metadata(f) {
                if (m.len() as usize) <= MAX_INPUT / 2 {
                    small.push(i);
                }
            }
        }
        // vocabulary: static table + token texts harvested from a deterministic slice of the corpus
        let mut vocab: Vec<String> = STATIC_VOCAB.iter().map(|s| s.to_string()).collect();
        let mut seen = std::collections::HashSet::new();
        for s in &vocab {
            seen.insert(s.clone());
        }
        for k in 0..files.len().min(4000) {
            if k % 23 != 0 {
                continue;
            }
            if let Ok(t) = std::fs::read_to_string(&files[k]) {
                if t.len() > MAX_INPUT {
                    continue;
                }
                for (_, s) in tokens(&t) {
                    if s.len() <= 24 && !s.trim().is_empty() && seen.insert(s.to_string()) {
                        vocab.push(s.to_string());
                    }
                }
            }
            if vocab.len() > 3000 {
                break;
            }
        }
        Corpus { files, small, vocab }
    }

    pub fn read(&self, i: usize) -> Option<String> {
        std::fs::read_to_string(&self.files[i]).ok()
    }

    pub fn random_small(&self, rng: &mut Rng) -> (usize, String) {
        for _ in 0..20 {
            let i = *rng.pick(&self.small);
            if let Some(t) = self.read(i) {
                return (i, t);
            }
        }
        (0, "fn main() {}\n".to_string())
    }
}

/// Token texts of `text` according to the real lexer (kinds + slices). Falls back to chars on panic.
pub fn tokens(text: &str) -> Vec<(TokenKind, &str)> {
    let r = std::panic::catch_unwind(|| lex(text));
    match r {
        Ok(r) => {
            let mut out = Vec::with_capacity(r.starts.len());
            for (i, &s) in r.starts.iter().enumerate() {
                let e = if i + 1 < r.starts.len() { r.starts[i + 1] as usize } else { text.len() };
                out.push((r.tokens[i], &text[s as usize..e]));
            }
            out
        }
        Err(_) => text.char_indices().map(|(i, c)| (TokenKind::UNKNOWN, &text[i..i + c.len_utf8()])).collect(),
    }
}

pub struct Case {
    pub family: String,
    pub text: String,
    pub base: Option<usize>,
}

fn clamp(mut s: String) -> String {
    if s.len() > MAX_INPUT {
        let mut c = MAX_INPUT;
        while !s.is_char_boundary(c) {
            c -= 1;
        }
        s.truncate(c);
    }
    s
}

fn join(toks: &[&str]) -> String {
    let mut s = String::new();
    for t in toks {
        s.push_str(t);
    }
    s
}

const OPEN: &[&str] = &["(", "[", "{"];
const CLOSE: &[&str] = &[")", "]", "}"];

/// Families, by index modulo, so that each family gets a fixed share of every run.
pub const FAMILIES: &[&str] = &[
    "corpus", "soup", "tok-delete", "tok-dup", "tok-swap", "tok-replace", "truncate", "splice", "delim-flip",
    "nest", "line-endings", "multibyte", "utf8-random", "tok-insert", "chunk-delete", "corpus-crlf",
];

pub fn gen_case(c: &Corpus, seed: u64, idx: u64) -> Case {
    let mut rng = Rng::new(seed, 0x7e47, idx);
    let fam = FAMILIES[(idx as usize) % FAMILIES.len()];
    gen_family(c, &mut rng, fam, idx)
}

pub fn gen_family(c: &Corpus, rng: &mut Rng, fam: &str, idx: u64) -> Case {
    let mk = |family: &str, text: String, base: Option<usize>| Case { family: family.to_string(), text: clamp(text), base };
    match fam {
        "corpus" => {
            // walk the corpus in order so that a run of N*16 cases covers N distinct files
            let i = ((idx as usize) / FAMILIES.len()) % c.files.len();
            match c.read(i) {
                Some(t) => Case { family: fam.into(), text: t, base: Some(i) }, // real files are not clamped
                None => mk(fam, String::new(), Some(i)),
            }
        }
        "corpus-crlf" => {
            let (i, t) = c.random_small(rng);
            let t = match rng.below(3) {
                0 => t.replace('\n', "\r\n"),
                1 => t.replace('\n', "\r"),
                _ => format!("\u{feff}{}", t),
            };
            mk(fam, t, Some(i))
        }
        "soup" => {
            let big = rng.chance(1, 8);
            let n = 1 + rng.below(if big { 400 } else { 60 });
            let mut s = String::new();
            for _ in 0..n {
                s.push_str(rng.pick_string(&c.vocab));
                match rng.below(6) {
                    0 => {}
                    1 => s.push('\n'),
                    _ => s.push(' '),
                }
            }
            mk(fam, s, None)
        }
        "utf8-random" => {
            let n = 1 + rng.below(200);
            let mut s = String::new();
            for _ in 0..n {
                let ch = match rng.below(10) {
                    0..=3 => (0x20 + rng.below(0x5f)) as u32,
                    4 => *rng.pick(&[0x0au32, 0x0d, 0x09, 0x00, 0x7f, 0x0b, 0x0c]),
                    5 => 0x80 + rng.below(0x780) as u32,
                    6 => 0x800 + rng.below(0xF800) as u32,
                    7 => 0x10000 + rng.below(0x100000) as u32,
                    8 => *rng.pick(&[0x22u32, 0x27, 0x24, 0x7b, 0x7d, 0x5c, 0x2f, 0x2a]),
                    _ => *rng.pick(&[0xfeffu32, 0x2028, 0x2029, 0x85, 0xd7ff, 0xe000, 0xfffd, 0x10ffff]),
                };
                if let Some(ch) = char::from_u32(ch) {
                    s.push(ch);
                }
            }
            mk(fam, s, None)
        }
        _ => {
            let (bi, base) = c.random_small(rng);
            let toks: Vec<&str> = tokens(&base).into_iter().map(|(_, s)| s).collect();
            if toks.is_empty() {
                return mk(fam, base.clone(), Some(bi));
            }
            let n = toks.len();
            let text = match fam {
                "tok-delete" => {
                    let k = 1 + rng.below(3);
                    let mut v = toks.clone();
                    for _ in 0..k {
                        if !v.is_empty() {
                            let i = rng.below(v.len());
                            v.remove(i);
                        }
                    }
                    join(&v)
                }
                "chunk-delete" => {
                    let a = rng.below(n);
                    let b = (a + 1 + rng.below(30)).min(n);
                    let mut v = toks[..a].to_vec();
                    v.extend_from_slice(&toks[b..]);
                    join(&v)
                }
                "tok-dup" => {
                    let i = rng.below(n);
                    let reps = 1 + rng.below(3);
                    let mut v = toks[..=i].to_vec();
                    for _ in 0..reps {
                        v.push(toks[i]);
                    }
                    v.extend_from_slice(&toks[i + 1..]);
                    join(&v)
                }
                "tok-swap" => {
                    let mut v = toks.clone();
                    let i = rng.below(n);
                    let j = if rng.chance(1, 2) { (i + 1 + rng.below(4)).min(n - 1) } else { rng.below(n) };
                    v.swap(i, j);
                    join(&v)
                }
                "tok-replace" => {
                    let mut v: Vec<&str> = toks.clone();
                    let k = 1 + rng.below(3);
                    for _ in 0..k {
                        let i = rng.below(n);
                        v[i] = rng.pick_string(&c.vocab);
                    }
                    join(&v)
                }
                "tok-insert" => {
                    let i = rng.below(n + 1);
                    let mut v = toks[..i].to_vec();
                    let k = 1 + rng.below(3);
                    for _ in 0..k {
                        v.push(rng.pick_string(&c.vocab));
                    }
                    v.extend_from_slice(&toks[i..]);
                    join(&v)
                }
                "truncate" => {
                    if rng.chance(1, 2) {
                        join(&toks[..rng.below(n + 1)])
                    } else {
                        // byte-level cut on a char boundary (may cut inside a token)
                        let mut cut = rng.below(base.len() + 1);
                        while !base.is_char_boundary(cut) {
                            cut -= 1;
                        }
                        base[..cut].to_string()
                    }
                }
                "splice" => {
                    let (_, other) = c.random_small(rng);
                    let ot: Vec<&str> = tokens(&other).into_iter().map(|(_, s)| s).collect();
                    let a = rng.below(n + 1);
                    let b = rng.below(ot.len() + 1);
                    let mut s = join(&toks[..a]);
                    s.push_str(&join(&ot[b..]));
                    s
                }
                "delim-flip" => {
                    let mut v = toks.clone();
                    let idxs: Vec<usize> =
                        (0..n).filter(|&i| OPEN.contains(&v[i]) || CLOSE.contains(&v[i])).collect();
                    if !idxs.is_empty() {
                        let k = 1 + rng.below(3);
                        for _ in 0..k {
                            let i = *rng.pick(&idxs);
                            v[i] = match rng.below(3) {
                                0 => *rng.pick(OPEN),
                                1 => *rng.pick(CLOSE),
                                _ => "",
                            };
                        }
                    }
                    join(&v)
                }
                "nest" => {
                    let depth = 1 + rng.below(MAX_NEST);
                    let i = rng.below(n + 1);
                    let (o, cl): (&str, &str) = match rng.below(6) {
                        0 => ("(", ")"),
                        1 => ("[", "]"),
                        2 => ("{", "}"),
                        3 => ("if true {", "}"),
                        4 => ("-", ""),
                        _ => ("(|x: Int32|: Int32 {", "})"),
                    };
                    let mut s = join(&toks[..i]);
                    for _ in 0..depth {
                        s.push_str(o);
                    }
                    if rng.chance(1, 2) {
                        s.push('1');
                    }
                    let closes = if rng.chance(3, 4) { depth } else { rng.below(depth + 1) };
                    for _ in 0..closes {
                        s.push_str(cl);
                    }
                    s.push_str(&join(&toks[i..]));
                    s
                }
                "line-endings" => {
                    let mut s = String::new();
                    for t in &toks {
                        if *t == "\n" || *t == "\r\n" || *t == "\r" {
                            s.push_str(rng.pick_str(&["\n", "\r\n", "\r", "\n\r", "\r\r\n"]));
                        } else {
                            s.push_str(t);
                        }
                    }
                    if rng.chance(1, 3) {
                        while s.ends_with('\n') || s.ends_with('\r') {
                            s.pop();
                        }
                    }
                    s
                }
                "multibyte" => {
                    // insert multi-byte / astral characters into identifiers, strings and comments
                    let mut s = String::new();
                    let inserts = ["ä", "€", "😀", "𝒳", "\u{0301}", "ß", "中", "\u{feff}", "\u{200b}"];
                    for (k, t) in tokens(&base) {
                        if rng.chance(1, 12)
                            && matches!(
                                k,
                                TokenKind::IDENTIFIER
                                    | TokenKind::STRING_LITERAL
                                    | TokenKind::LINE_COMMENT
                                    | TokenKind::MULTILINE_COMMENT
                                    | TokenKind::CHAR_LITERAL
                                    | TokenKind::WHITESPACE
                            )
                        {
                            let mut cut = if t.len() > 1 { 1 + rng.below(t.len() - 1) } else { t.len() };
                            while !t.is_char_boundary(cut) {
                                cut -= 1;
                            }
                            s.push_str(&t[..cut]);
                            s.push_str(rng.pick_str(&inserts));
                            s.push_str(&t[cut..]);
                        } else {
                            s.push_str(t);
                        }
                    }
                    s
                }
                _ => base.clone(),
            };
            mk(fam, text, Some(bi))
        }
    }
}
