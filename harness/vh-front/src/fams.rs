//! Family selection for C06 and the families that exist only here (they keep the text syntactically
//! plausible so that the semantic phases are reached; the parser-oriented families come from vhc::textgen).
use dora_parser::TokenKind;
use vhc::Rng;
use vhc::textgen::{Case, Corpus, FAMILIES, gen_family, tokens};

/// Families of this crate (grammar-directed programs = family (b) of DESIGN.md 2.4, and token-level
/// mutants that stay inside the grammar).
pub const LOCAL: &[&str] = &["gen-prog", "gen-prog-mutant", "ident-swap", "lit-swap", "op-swap", "kw-swap", "item-splice", "list-start"];

/// The default set (narrowing, DESIGN.md 4.3; the full reasoning with the measured numbers is in
/// vlib/props/c06.py, section NARROWING): repository files as they are and their *valid* variants (line endings,
/// BOM, multi-byte characters), plus the families that produce garbage or abruptly ending text (token soup,
/// random UTF-8, truncation, unbalanced nesting). On the pinned tree these reach a bounded set of panic sites.
pub const DEFAULT: &[&str] = &["corpus", "corpus-crlf", "line-endings", "multibyte", "soup", "utf8-random", "truncate", "nest"];
/// Token-level mutants of repository files ("almost valid" programs). They keep reaching new panic sites deep in
/// the semantic phases of the pinned tree (about one new site per 2 000 - 3 000 inputs even after the 19 proposed
/// repairs), so they are exploration families: `families=mutants` or `families=all`.
pub const MUTANTS: &[&str] = &[
    "tok-delete", "tok-dup", "tok-swap", "tok-replace", "tok-insert", "chunk-delete", "splice", "delim-flip", "ident-swap", "lit-swap", "op-swap",
    "kw-swap", "list-start",
];
/// Grammar-directed random programs, their mutants and concatenated files: same remark, higher yield still.
pub const WIDE: &[&str] = &["gen-prog", "gen-prog-mutant", "item-splice"];

pub fn select_families(spec: &str) -> Vec<String> {
    let own = |v: &[&str]| v.iter().map(|s| s.to_string()).collect::<Vec<String>>();
    let all: Vec<String> = DEFAULT.iter().chain(MUTANTS.iter()).chain(WIDE.iter()).map(|s| s.to_string()).collect();
    for f in FAMILIES.iter().chain(LOCAL.iter()) {
        assert!(all.iter().any(|a| a == f), "family {} not classified", f);
    }
    match spec {
        "all" => all,
        "default" => own(DEFAULT),
        "mutants" => own(MUTANTS),
        "wide" => own(WIDE),
        s => {
            let v: Vec<String> = s.split(',').filter(|x| !x.is_empty()).map(|x| x.to_string()).collect();
            for f in &v {
                assert!(all.contains(f), "unknown family {}", f);
            }
            v
        }
    }
}

/// Base files. `full` = every .dora file of the repository (walked by the `corpus` family, which uses the
/// files as they are); `mutation` = the files the mutating families start from. With `bases=run` (default) the
/// latter excludes test/sema/**: those 1 027 files are the checker's own (mostly negative or check-only)
/// tests of generic traits / associated types, and their mutants keep reaching new panic sites deep in the
/// semantic phases of the pinned tree (narrowing, see vlib/props/c06.py). `bases=all` uses every file.
pub struct Bases {
    pub full: Corpus,
    pub mutation: Corpus,
}

impl Bases {
    pub fn load(extra: Option<&str>, spec: &str) -> Bases {
        let full = Corpus::load(extra);
        let keep = |p: &std::path::Path| match spec {
            "all" => true,
            "run" => !p.to_string_lossy().contains("/test/sema/"),
            s => panic!("unknown bases={}", s),
        };
        let files: Vec<std::path::PathBuf> = full.files.iter().filter(|p| keep(p)).cloned().collect();
        let small_full: std::collections::HashSet<&std::path::PathBuf> = full.small.iter().map(|&i| &full.files[i]).collect();
        let small: Vec<usize> = (0..files.len()).filter(|&i| small_full.contains(&files[i])).collect();
        let mutation = Corpus { files, small, vocab: full.vocab.clone() };
        Bases { full, mutation }
    }
}

/// Returns the case and the path of its base file (if it has one).
pub fn gen_case(b: &Bases, fams: &[String], seed: u64, idx: u64) -> (Case, String) {
    let mut rng = Rng::new(seed, 0x7e47, idx);
    let fam = fams[(idx as usize) % fams.len()].as_str();
    let c = if fam == "corpus" { &b.full } else { &b.mutation };
    let case = if fam == "corpus" {
        // dense walk over all repository files, starting at a seed-dependent file, so that different seeds
        // cover different files and count >= families x files covers every file
        let k = (idx as usize) / fams.len();
        let i = ((seed as usize).wrapping_mul(7919).wrapping_add(k)) % c.files.len().max(1);
        Case { family: fam.to_string(), text: c.read(i).unwrap_or_default(), base: Some(i) }
    } else if LOCAL.contains(&fam) {
        gen_local(c, &mut rng, fam)
    } else {
        gen_family(c, &mut rng, fam, idx)
    };
    let base = case.base.and_then(|i| c.files.get(i)).map(|p| p.to_string_lossy().to_string()).unwrap_or_default();
    (case, base)
}

fn is_ident(k: TokenKind) -> bool {
    k == TokenKind::IDENTIFIER
}
fn is_lit(k: TokenKind) -> bool {
    matches!(
        k,
        TokenKind::INT_LITERAL | TokenKind::FLOAT_LITERAL | TokenKind::STRING_LITERAL | TokenKind::CHAR_LITERAL | TokenKind::TRUE | TokenKind::FALSE
    )
}
const BINOPS: &[&str] = &[
    "+", "-", "*", "/", "%", "|", "&", "^", "&&", "||", "==", "!=", "===", "!==", "<", "<=", ">", ">=", "<<", ">>", ">>>", "=", "+=", "-=", "*=",
    "/=", "%=", "|=", "&=", "^=", "<<=", ">>=", ">>>=", "as", "is", ".", "::",
];
fn is_binop(k: TokenKind) -> bool {
    use TokenKind::*;
    matches!(
        k,
        ADD | SUB | MUL | DIV | MODULO | OR | AND | CARET | AND_AND | OR_OR | EQ_EQ | NOT_EQ | EQ_EQ_EQ | NOT_EQ_EQ | LT | LE | GT | GE | ADD_EQ | SUB_EQ
            | MUL_EQ | DIV_EQ | MOD_EQ | OR_EQ | AND_EQ | CARET_EQ | GT_GT_EQ | GT_GT_GT_EQ | LT_LT_EQ | GT_GT | GT_GT_GT | LT_LT | EQ
    )
}
const KWS: &[&str] = &[
    "class", "struct", "enum", "trait", "impl", "mod", "use", "fn", "let", "mut", "const", "return", "if", "else", "while", "for", "in", "break",
    "continue", "match", "self", "Self", "super", "package", "pub", "static", "mutating", "as", "is", "type", "where", "ref", "_", "extern", "true",
    "false",
];
fn is_kw(k: TokenKind) -> bool {
    use TokenKind::*;
    matches!(
        k,
        CLASS_KW | ENUM_KW | STRUCT_KW | TRAIT_KW | IMPL_KW | MOD_KW | USE_KW | PACKAGE_KW | EXTERN_KW | FN_KW | LET_KW | MUT_KW | CONST_KW | RETURN_KW
            | IF_KW | ELSE_KW | WHILE_KW | FOR_KW | IN_KW | BREAK_KW | CONTINUE_KW | MATCH_KW | SELF_KW | SUPER_KW | PUB_KW | STATIC_KW | MUTATING_KW
            | AS_KW | IS_KW | TYPE_KW | WHERE_KW | UPCASE_SELF_KW | UNDERSCORE | REF_KW
    )
}
const LITS: &[&str] = &[
    "0", "1", "1i32", "1i64", "255u8", "256u8", "1f32", "1.5", "2.5f32", "0x7FFFFFFFi32", "0x80000000i32", "9223372036854775807", "9223372036854775808",
    "99999999999999999999", "0b101", "1_000", "1i8", "1u64", "1.0f64", "'a'", "'\\n'", "'😀'", "\"\"", "\"s\"", "\"a${1}b\"", "\"${x}\"", "true",
    "false", "()", "(1, 2)", "-1", "0.0", "1e5", "1.f32", "0xg", "1i128",
];

/// Replace up to `k` tokens satisfying `pred` by texts from `f`.
fn replace_tokens(base: &str, rng: &mut Rng, pred: fn(TokenKind) -> bool, mut f: impl FnMut(&mut Rng, &[&str]) -> String) -> String {
    let toks = tokens(base);
    let idxs: Vec<usize> = (0..toks.len()).filter(|&i| pred(toks[i].0)).collect();
    if idxs.is_empty() {
        return base.to_string();
    }
    let pool: Vec<&str> = idxs.iter().map(|&i| toks[i].1).collect();
    let k = 1 + rng.below(3);
    let mut repl: Vec<(usize, String)> = vec![];
    for _ in 0..k {
        let i = *rng.pick(&idxs);
        let s = f(rng, &pool);
        repl.push((i, s));
    }
    let mut out = String::new();
    for (i, (_, s)) in toks.iter().enumerate() {
        match repl.iter().rev().find(|(j, _)| *j == i) {
            Some((_, r)) => out.push_str(r),
            None => out.push_str(s),
        }
    }
    out
}

fn clamp(mut s: String) -> String {
    let max = vhc::textgen::MAX_INPUT;
    if s.len() > max {
        let mut c = max;
        while !s.is_char_boundary(c) {
            c -= 1;
        }
        s.truncate(c);
    }
    s
}

fn gen_local(c: &Corpus, rng: &mut Rng, fam: &str) -> Case {
    let mk = |text: String, base: Option<usize>| Case { family: fam.to_string(), text: clamp(text), base };
    match fam {
        "gen-prog" => mk(ProgGen::new(rng).program(), None),
        "gen-prog-mutant" => {
            let p = ProgGen::new(rng).program();
            let t = match rng.below(4) {
                0 => replace_tokens(&p, rng, is_ident, |r, pool| r.pick(pool).to_string()),
                1 => replace_tokens(&p, rng, is_lit, |r, _| r.pick_str(LITS).to_string()),
                2 => replace_tokens(&p, rng, is_binop, |r, _| r.pick_str(BINOPS).to_string()),
                _ => {
                    // drop a random token (usually a parse error close to valid code)
                    let toks = tokens(&p);
                    let d = rng.below(toks.len().max(1));
                    toks.iter().enumerate().filter(|(i, _)| *i != d).map(|(_, (_, s))| *s).collect()
                }
            };
            mk(t, None)
        }
        "item-splice" => {
            // whole files one after the other: duplicate definitions, clashing impls, several `main`s
            let (i, a) = c.random_small(rng);
            let (_, b) = c.random_small(rng);
            let mut s = a;
            s.push('\n');
            s.push_str(&b);
            if rng.chance(1, 3) {
                s.push('\n');
                s.push_str(&ProgGen::new(rng).program());
            }
            mk(s, Some(i))
        }
        _ => {
            let (i, base) = c.random_small(rng);
            let t = match fam {
                "ident-swap" => replace_tokens(&base, rng, is_ident, |r, pool| {
                    if r.chance(3, 4) { r.pick(pool).to_string() } else { r.pick_str(NAMES_ANY).to_string() }
                }),
                "lit-swap" => replace_tokens(&base, rng, is_lit, |r, _| r.pick_str(LITS).to_string()),
                "op-swap" => replace_tokens(&base, rng, is_binop, |r, _| r.pick_str(BINOPS).to_string()),
                "kw-swap" => replace_tokens(&base, rng, is_kw, |r, _| r.pick_str(KWS).to_string()),
                "list-start" => list_start(&base, rng),
                _ => base,
            };
            mk(t, Some(i))
        }
    }
}

/// Every punctuation token of the language (incl. the ones that end or separate constructs).
const PUNCT: &[&str] = &[
    "=>", "->", "::", ":", ";", ",", ".", "..", "...", "..=", "=", "==", "!", "!=", "@", "#", "$", "?", "~", "|", "||", "&", "&&", "<", ">", "<=", ">=", "+", "-",
    "*", "/", "%", "^", "(", ")", "[", "]", "{", "}", "_", "'", "\"",
];

/// A token that cannot (or can) start a list element, put exactly where a list element has to start: behind an
/// opening delimiter, a separator or a lambda bar. Element parsers that consume nothing there must not break their
/// caller's progress assumptions (seeded change C06). The inserted token cycles through all punctuation and keywords.
fn list_start(base: &str, rng: &mut Rng) -> String {
    let toks = tokens(base);
    let sites: Vec<usize> = toks.iter().enumerate().filter(|(_, (_, s))| matches!(*s, "(" | "[" | "{" | "," | "|" | "||" | ";" | "=>")).map(|(i, _)| i).collect();
    if sites.is_empty() {
        return base.to_string();
    }
    let k = 1 + rng.below(2);
    let mut at: Vec<usize> = (0..k).map(|_| *rng.pick(&sites)).collect();
    at.sort();
    at.dedup();
    let mut out = String::with_capacity(base.len() + 16);
    for (i, (_, s)) in toks.iter().enumerate() {
        out.push_str(s);
        if at.contains(&i) {
            let t = if rng.chance(2, 3) { rng.pick_str(PUNCT) } else { rng.pick_str(KWS) };
            out.push(' ');
            out.push_str(t);
            if rng.chance(1, 2) {
                out.push(' ');
            }
        }
    }
    out
}

const NAMES_ANY: &[&str] = &[
    "Int32", "Int64", "Bool", "String", "Float64", "Float32", "UInt8", "Char", "Array", "Vec", "Option", "Some", "None", "Result", "Ok", "Err", "Self",
    "self", "std", "main", "x", "Foo", "T", "print", "println", "assert", "unreachable", "size", "get", "set", "new", "iter", "next", "to_string",
    "equals", "hash", "clone", "HashMap", "Iterator", "Equals", "Hash", "Default", "Zero", "Stringable", "Comparable", "Add", "Sub", "Not", "Neg",
    "IndexGet", "IndexSet", "IntoIterator", "Item", "Ordering", "cmp", "Thread", "Mutex", "thread", "spawn", "collections", "traits", "primitives",
];

// ------------------------------------------------------------------------------------------------
// Grammar-directed random programs. Syntactically valid by construction (modulo rare deliberate
// oddities); names come from small pools so that references often resolve, types are only loosely
// respected so that every kind of type error is produced as well as accepted programs.

pub struct ProgGen<'a> {
    r: &'a mut Rng,
    out: String,
    depth: usize,
    tparams: Vec<&'static str>,
}

const TYPES: &[&str] = &["Int32", "Int64", "Bool", "String", "Float64", "UInt8", "Char", "Foo", "Bar", "Baz", "Qux", "Tr", "Ts", "()", "Self"];
const STRUCTY: &[&str] = &["Foo", "Bar", "Baz", "Qux"];
const TRAITS: &[&str] = &["Tr", "Ts", "std::Equals", "std::Hash", "std::Stringable", "std::traits::Default", "std::traits::Add", "std::traits::Iterator"];
const VARS: &[&str] = &["a", "b", "c", "x", "y", "z", "self", "g1", "K1"];
const FNS: &[&str] = &["f", "g", "h", "m", "n", "mk", "get", "main", "print", "println", "assert", "std::exit"];
const FIELDS: &[&str] = &["x", "y", "z", "0", "1"];
const VARIANTS: &[&str] = &["A", "B", "C"];
const ANNOTS: &[&str] = &["@Test", "@pub", "@static", "@internal", "@Optimize", "@ForceInline", "@NeverInline", "@TrivialCopy", "@Foo"];

impl<'a> ProgGen<'a> {
    pub fn new(r: &'a mut Rng) -> ProgGen<'a> {
        ProgGen { r, out: String::new(), depth: 0, tparams: vec![] }
    }
    fn p(&mut self, s: &str) {
        self.out.push_str(s);
    }
    fn pick(&mut self, v: &[&'static str]) -> &'static str {
        v[self.r.below(v.len())]
    }
    fn ch(&mut self, n: u64, d: u64) -> bool {
        self.r.chance(n, d)
    }

    pub fn program(mut self) -> String {
        let n = 1 + self.r.below(8);
        for _ in 0..n {
            self.item(true);
            self.p("\n");
        }
        if self.ch(2, 3) {
            self.p("fn main() ");
            self.block(true);
            self.p("\n");
        }
        self.out
    }

    fn ty(&mut self) {
        self.depth += 1;
        let lim = self.depth > 4;
        match self.r.below(if lim { 3 } else { 14 }) {
            0..=2 => {
                if !self.tparams.is_empty() && self.ch(1, 3) {
                    let t = *self.r.pick(&self.tparams);
                    self.p(t);
                } else {
                    let t = self.pick(TYPES);
                    self.p(t);
                }
            }
            3 => {
                let t = self.pick(&["Array", "Vec", "Option", "std::collections::Vec", "Foo", "Bar"]);
                self.p(t);
                self.p("[");
                self.ty();
                if self.ch(1, 8) {
                    self.p(", ");
                    self.ty();
                }
                self.p("]");
            }
            4 => {
                self.p("(");
                let n = self.r.below(4);
                for i in 0..n {
                    if i > 0 {
                        self.p(", ");
                    }
                    self.ty();
                }
                self.p(")");
            }
            5 => {
                self.p("(");
                let n = self.r.below(3);
                for i in 0..n {
                    if i > 0 {
                        self.p(", ");
                    }
                    self.ty();
                }
                self.p("): ");
                self.ty();
            }
            6 => {
                self.p("std::HashMap[");
                self.ty();
                self.p(", ");
                self.ty();
                self.p("]");
            }
            7 => {
                // associated / qualified types
                match self.r.below(4) {
                    0 => self.p("Self::Item"),
                    1 => {
                        self.p("[");
                        self.ty();
                        self.p(" as ");
                        let t = self.pick(TRAITS);
                        self.p(t);
                        self.p("]::Item");
                    }
                    2 => self.p("T::Item"),
                    _ => self.p("Tr[Item = Int32]"),
                }
            }
            8 => self.p("ref Foo"),
            9 => self.p("_"),
            _ => {
                let t = self.pick(TYPES);
                self.p(t);
            }
        }
        self.depth -= 1;
    }

    fn type_params(&mut self) {
        if self.ch(1, 3) {
            self.p("[");
            let n = 1 + self.r.below(2);
            for i in 0..n {
                if i > 0 {
                    self.p(", ");
                }
                let t = ["T", "U", "V"][self.r.below(3)];
                self.p(t);
                self.tparams.push(t);
                if self.ch(1, 2) {
                    self.p(": ");
                    let b = self.pick(TRAITS);
                    self.p(b);
                    if self.ch(1, 4) {
                        self.p(" + ");
                        let b = self.pick(TRAITS);
                        self.p(b);
                    }
                }
            }
            self.p("]");
        }
    }

    fn where_clause(&mut self) {
        if self.ch(1, 10) {
            self.p(" where ");
            self.ty();
            self.p(": ");
            let b = self.pick(TRAITS);
            self.p(b);
        }
    }

    fn annots(&mut self) {
        if self.ch(1, 8) {
            let a = self.pick(ANNOTS);
            self.p(a);
            self.p(" ");
        }
        if self.ch(1, 4) {
            self.p("pub ");
        }
    }

    fn fn_item(&mut self, method: bool, body: Option<bool>) {
        let saved = self.tparams.len();
        self.annots();
        if method && self.ch(1, 5) {
            self.p("static ");
        }
        if method && self.ch(1, 6) {
            self.p("mutating ");
        }
        self.p("fn ");
        let n = self.pick(FNS);
        self.p(n.rsplit("::").next().unwrap());
        self.type_params();
        self.p("(");
        let k = self.r.below(4);
        for i in 0..k {
            if i > 0 {
                self.p(", ");
            }
            if self.ch(1, 10) {
                self.pattern();
            } else {
                let v = self.pick(&["a", "b", "c", "x", "y"]);
                self.p(v);
            }
            self.p(": ");
            self.ty();
            if i + 1 == k && self.ch(1, 10) {
                self.p("...");
            }
        }
        self.p(")");
        if self.ch(1, 2) {
            self.p(": ");
            self.ty();
        }
        self.where_clause();
        let with_body = body.unwrap_or_else(|| self.r.chance(9, 10));
        if with_body {
            self.p(" ");
            self.block(true);
        } else {
            self.p(";");
        }
        self.p("\n");
        self.tparams.truncate(saved);
    }

    fn fields(&mut self) {
        if self.ch(1, 8) {
            // positional
            self.p("(");
            let k = self.r.below(3);
            for i in 0..k {
                if i > 0 {
                    self.p(", ");
                }
                self.ty();
            }
            self.p(")");
            return;
        }
        if self.ch(1, 12) {
            return; // unit
        }
        self.p(" { ");
        let k = self.r.below(4);
        for i in 0..k {
            if i > 0 {
                self.p(", ");
            }
            if self.ch(1, 5) {
                self.p("pub ");
            }
            let f = self.pick(&["x", "y", "z"]);
            self.p(f);
            self.p(": ");
            self.ty();
        }
        self.p(" }");
    }

    fn item(&mut self, top: bool) {
        let saved = self.tparams.len();
        match self.r.below(16) {
            0..=3 => self.fn_item(false, None),
            4 => {
                self.annots();
                self.p("struct ");
                let n = self.pick(STRUCTY);
                self.p(n);
                self.type_params();
                self.fields();
            }
            5 => {
                self.annots();
                self.p("class ");
                let n = self.pick(STRUCTY);
                self.p(n);
                self.type_params();
                self.fields();
            }
            6 => {
                self.annots();
                self.p("enum ");
                let n = self.pick(STRUCTY);
                self.p(n);
                self.type_params();
                self.p(" { ");
                let k = self.r.below(4);
                for i in 0..k {
                    if i > 0 {
                        self.p(", ");
                    }
                    let v = self.pick(VARIANTS);
                    self.p(v);
                    if self.ch(1, 3) {
                        self.p("(");
                        let m = 1 + self.r.below(2);
                        for j in 0..m {
                            if j > 0 {
                                self.p(", ");
                            }
                            self.ty();
                        }
                        self.p(")");
                    } else if self.ch(1, 6) {
                        self.p(" { x: ");
                        self.ty();
                        self.p(" }");
                    }
                }
                self.p(" }");
            }
            7 => {
                self.annots();
                self.p("trait ");
                let n = self.pick(&["Tr", "Ts"]);
                self.p(n);
                self.type_params();
                if self.ch(1, 5) {
                    self.p(": ");
                    let b = self.pick(TRAITS);
                    self.p(b);
                }
                self.p(" {\n");
                let k = self.r.below(4);
                for _ in 0..k {
                    if self.ch(1, 4) {
                        self.p("type Item");
                        if self.ch(1, 3) {
                            self.p(": ");
                            let b = self.pick(TRAITS);
                            self.p(b);
                        }
                        self.p(";\n");
                    } else {
                        let b = self.ch(1, 3);
                        self.fn_item(true, Some(b));
                    }
                }
                self.p("}");
            }
            8 | 9 => {
                self.p("impl");
                self.type_params();
                self.p(" ");
                if self.ch(1, 2) {
                    let t = self.pick(TRAITS);
                    self.p(t);
                    if self.ch(1, 6) {
                        self.p("[");
                        self.ty();
                        self.p("]");
                    }
                    self.p(" for ");
                }
                self.ty();
                self.where_clause();
                self.p(" {\n");
                let k = self.r.below(4);
                for _ in 0..k {
                    if self.ch(1, 6) {
                        self.p("type Item = ");
                        self.ty();
                        self.p(";\n");
                    } else {
                        self.fn_item(true, None);
                    }
                }
                self.p("}");
            }
            10 => {
                self.annots();
                self.p("const K1: ");
                self.ty();
                self.p(" = ");
                self.expr();
                self.p(";");
            }
            11 => {
                self.annots();
                self.p("let ");
                if self.ch(1, 2) {
                    self.p("mut ");
                }
                self.p("g1: ");
                self.ty();
                self.p(" = ");
                self.expr();
                self.p(";");
            }
            12 if top || self.depth < 2 => {
                self.annots();
                self.p("mod ");
                let n = self.pick(&["m1", "m2"]);
                self.p(n);
                if self.ch(1, 10) {
                    self.p(";");
                } else {
                    self.p(" {\n");
                    self.depth += 1;
                    let k = self.r.below(3);
                    for _ in 0..k {
                        self.item(false);
                        self.p("\n");
                    }
                    self.depth -= 1;
                    self.p("}");
                }
            }
            13 => {
                self.p("use ");
                let u = self.pick(&[
                    "std::HashMap", "std::collections::{Vec, HashMap}", "std::traits::*", "m1::f", "m1::Foo as Bar", "package::Foo", "super::f",
                    "self::m1::g", "std::string::Stringable", "Foo::A", "Foo::{A, B}", "std::unknown", "m1", "std", "package", "Foo::*", "std::{self, Vec}",
                ]);
                self.p(u);
                self.p(";");
            }
            14 => {
                self.annots();
                self.p("type ");
                let n = self.pick(&["Qux", "Baz", "Al"]);
                self.p(n);
                self.type_params();
                self.p(" = ");
                self.ty();
                self.p(";");
            }
            _ => {
                self.p("extern fn ");
                let n = self.pick(FNS);
                self.p(n.rsplit("::").next().unwrap());
                self.p("(a: Int32): Int32;");
            }
        }
        self.tparams.truncate(saved);
    }

    fn pattern(&mut self) {
        self.depth += 1;
        match self.r.below(if self.depth > 5 { 4 } else { 12 }) {
            0 | 1 => {
                if self.ch(1, 4) {
                    self.p("mut ");
                }
                let v = self.pick(&["a", "b", "c", "x", "y"]);
                self.p(v);
            }
            2 => self.p("_"),
            3 => {
                let l = self.pick(LITS);
                self.p(l);
            }
            4 | 5 => {
                self.p("(");
                let k = self.r.below(4);
                for i in 0..k {
                    if i > 0 {
                        self.p(", ");
                    }
                    if self.ch(1, 8) {
                        self.p("..");
                    } else {
                        self.pattern();
                    }
                }
                self.p(")");
            }
            6 | 7 => {
                let e = self.pick(&["Foo", "Bar", "Option", "Some", "None", "Foo::A", "Bar::B", "Option::Some", "Self::A", "m1::Foo::A", "A"]);
                self.p(e);
                if self.ch(2, 3) {
                    self.p("(");
                    let k = self.r.below(3);
                    for i in 0..k {
                        if i > 0 {
                            self.p(", ");
                        }
                        if self.ch(1, 5) {
                            let f = self.pick(&["x", "y"]);
                            self.p(f);
                            self.p(" = ");
                        }
                        if self.ch(1, 8) {
                            self.p("..");
                        } else {
                            self.pattern();
                        }
                    }
                    self.p(")");
                }
            }
            8 => {
                self.pattern();
                self.p(" | ");
                self.pattern();
            }
            9 => {
                let e = self.pick(&["Foo", "Bar"]);
                self.p(e);
                self.p("[Int32]::A");
            }
            _ => {
                let v = self.pick(VARS);
                self.p(v);
            }
        }
        self.depth -= 1;
    }

    fn args(&mut self) {
        self.p("(");
        let k = self.r.below(4);
        for i in 0..k {
            if i > 0 {
                self.p(", ");
            }
            if self.ch(1, 8) {
                let f = self.pick(&["x", "y", "z"]);
                self.p(f);
                self.p(" = ");
            }
            self.expr();
        }
        self.p(")");
    }

    fn block(&mut self, allow_tail: bool) {
        self.depth += 1;
        self.p("{ ");
        let k = if self.depth > 5 { self.r.below(2) } else { self.r.below(5) };
        for _ in 0..k {
            self.stmt();
            self.p(" ");
        }
        if allow_tail && self.ch(1, 2) {
            self.expr();
            self.p(" ");
        }
        self.p("}");
        self.depth -= 1;
    }

    fn stmt(&mut self) {
        match self.r.below(12) {
            0..=2 => {
                self.p("let ");
                self.pattern();
                if self.ch(1, 3) {
                    self.p(": ");
                    self.ty();
                }
                if self.ch(9, 10) {
                    self.p(" = ");
                    self.expr();
                }
                self.p(";");
            }
            3 => {
                self.p("while ");
                self.expr();
                self.p(" ");
                self.block(false);
            }
            4 => {
                self.p("for ");
                self.pattern();
                self.p(" in ");
                self.expr();
                self.p(" ");
                self.block(false);
            }
            5 => {
                self.p("return");
                if self.ch(2, 3) {
                    self.p(" ");
                    self.expr();
                }
                self.p(";");
            }
            6 => {
                let s = self.pick(&["break;", "continue;"]);
                self.p(s);
            }
            7 => {
                // assignment
                self.postfix_target();
                let op = self.pick(&["=", "+=", "-=", "*=", "/=", "%=", "|=", "&=", "^=", "<<=", ">>=", ">>>="]);
                self.p(" ");
                self.p(op);
                self.p(" ");
                self.expr();
                self.p(";");
            }
            8 if self.depth < 3 && self.ch(1, 4) => self.item(false),
            _ => {
                self.expr();
                self.p(";");
            }
        }
    }

    fn postfix_target(&mut self) {
        let v = self.pick(VARS);
        self.p(v);
        let k = self.r.below(3);
        for _ in 0..k {
            if self.ch(1, 2) {
                self.p(".");
                let f = self.pick(FIELDS);
                self.p(f);
            } else {
                self.p("(");
                self.expr();
                self.p(")");
            }
        }
    }

    fn expr(&mut self) {
        self.depth += 1;
        let lim = self.depth > 6;
        match self.r.below(if lim { 6 } else { 34 }) {
            0 | 1 => {
                let l = self.pick(LITS);
                self.p(l);
            }
            2..=4 => {
                let v = self.pick(VARS);
                self.p(v);
            }
            5 => {
                let s = self.pick(&["Foo::A", "Bar::B", "None", "Foo", "std::argc", "K1", "g1", "Self::mk", "m1::f", "T::mk", "Int32::max_value"]);
                self.p(s);
            }
            6..=8 => {
                // call
                let f = self.pick(FNS);
                self.p(f);
                if self.ch(1, 6) {
                    self.p("[");
                    self.ty();
                    self.p("]");
                }
                self.args();
            }
            9 | 10 => {
                // constructor / static call / enum variant
                let t = self.pick(&["Foo", "Bar", "Baz", "Some", "Foo::A", "Bar::B", "Array[Int64]::new", "Vec[Foo]::new", "Foo::mk", "Option[Int32]::Some", "std::HashMap[Int32, String]::new", "Foo[Int32]", "Self"]);
                self.p(t);
                self.args();
            }
            11..=13 => {
                // method call / field
                self.expr();
                self.p(".");
                if self.ch(1, 2) {
                    let m = self.pick(&["m", "n", "get", "size", "to_string", "push", "equals", "hash", "clone", "next", "iter", "unwrap", "is_some", "get_or_panic", "x"]);
                    self.p(m);
                    if self.ch(1, 8) {
                        self.p("[");
                        self.ty();
                        self.p("]");
                    }
                    self.args();
                } else {
                    let f = self.pick(FIELDS);
                    self.p(f);
                }
            }
            14..=16 => {
                self.expr();
                let op = self.pick(&["+", "-", "*", "/", "%", "|", "&", "^", "&&", "||", "==", "!=", "===", "!==", "<", "<=", ">", ">=", "<<", ">>", ">>>"]);
                self.p(" ");
                self.p(op);
                self.p(" ");
                self.expr();
            }
            17 => {
                let op = self.pick(&["-", "!"]);
                self.p(op);
                self.expr();
            }
            18 | 19 => {
                self.p("if ");
                self.expr();
                if self.ch(1, 5) {
                    self.p(" is ");
                    self.pattern();
                }
                self.p(" ");
                self.block(true);
                if self.ch(2, 3) {
                    self.p(" else ");
                    if self.ch(1, 4) {
                        self.p("if ");
                        self.expr();
                        self.p(" ");
                        self.block(true);
                    } else {
                        self.block(true);
                    }
                }
            }
            20 | 21 => {
                self.p("match ");
                self.expr();
                self.p(" { ");
                let k = self.r.below(4);
                for _ in 0..k {
                    self.pattern();
                    if self.ch(1, 5) {
                        self.p(" if ");
                        self.expr();
                    }
                    self.p(" => ");
                    if self.ch(1, 3) {
                        self.block(true);
                    } else {
                        self.expr();
                    }
                    self.p(", ");
                }
                self.p("}");
            }
            22 | 23 => {
                // lambda
                self.p("|");
                let k = self.r.below(3);
                for i in 0..k {
                    if i > 0 {
                        self.p(", ");
                    }
                    let v = self.pick(&["a", "b", "x"]);
                    self.p(v);
                    if self.ch(5, 6) {
                        self.p(": ");
                        self.ty();
                    }
                }
                self.p("|");
                if self.ch(1, 2) {
                    self.p(": ");
                    self.ty();
                }
                self.p(" ");
                self.block(true);
            }
            24 => {
                self.p("(");
                let k = self.r.below(4);
                for i in 0..k {
                    if i > 0 {
                        self.p(", ");
                    }
                    self.expr();
                }
                if k == 1 && self.ch(1, 2) {
                    self.p(",");
                }
                self.p(")");
            }
            25 => {
                self.expr();
                self.p(" as ");
                self.ty();
            }
            26 => {
                self.expr();
                self.p(" is ");
                self.pattern();
            }
            27 => {
                self.p("\"v=${");
                self.expr();
                self.p("} w=${");
                self.expr();
                self.p("}\"");
            }
            28 => self.block(true),
            29 => {
                // index
                self.expr();
                self.p("(");
                self.expr();
                self.p(")");
            }
            30 => {
                self.p("[");
                self.ty();
                self.p(" as ");
                let t = self.pick(TRAITS);
                self.p(t);
                self.p("]::");
                let m = self.pick(&["mk", "f", "Item", "get"]);
                self.p(m);
                self.args();
            }
            31 => {
                self.p("(");
                self.expr();
                self.p(")");
            }
            32 => {
                self.p("return ");
                self.expr();
            }
            _ => {
                self.p("self.");
                let f = self.pick(FIELDS);
                self.p(f);
            }
        }
        self.depth -= 1;
    }
}
