//! vh-front: C06 -- the front end never crashes, whatever text it is given.
//!
//! For every generated text the *real* pipeline of `dora compile` is run in-process:
//!   Sema::new(program content) -> check_program (lex, parse, all semantic phases, error tolerant)
//!   -> rendering of all diagnostics (Diagnostic::dump_to_string, the text the CLI prints)
//!   -> emit_program when check_program returned true.
//! Oracle: no panic in any stage (caught with location), check_program's result agrees with the
//! diagnostics list, every located diagnostic's span lies inside the file it names (0 <= start <= end <=
//! len, both ends on char boundaries), and no stage runs longer than a CPU-time bound (a watchdog thread
//! ends the child with exit status 97 after writing a `SLOW` line; the Python side re-runs such a case
//! alone with 10x the bound). Aborts / stack overflows kill the child and are attributed by vlib/inproc.py.
//!
//! Modes:
//!   front  --seed S --shard I --nshards N --count C --out DIR [families=default|all|a,b,..] [cpu_limit_ms=N]
//!          [cli_every=K clidir=DIR]           sharded campaign
//!   file   path=FILE [cpu_limit_ms=N]         one file, JSON result on stdout (replay / minimisation)
//!   families                                  print the family lists
use std::collections::BTreeMap;
use std::io::Write;
use std::path::PathBuf;
use std::sync::Arc;
use std::sync::atomic::{AtomicU64, Ordering};

use dora_frontend::sema::{Sema, SemaCreationParams};
use dora_frontend::{ErrorDescriptor, check_program, emit_program};
use vhc::textgen::Case;
use vhc::{Args, Rng, Value, catch, json, msg_class};

mod fams;

// ------------------------------------------------------------------------------------------------
// CPU-time watchdog. Only one thread of the child does real work, so process CPU time is the work
// thread's CPU time.

static CASE_START_NS: AtomicU64 = AtomicU64::new(0); // 0 = no case running
static CASE_IDX: AtomicU64 = AtomicU64::new(0);
static LIMIT_NS: AtomicU64 = AtomicU64::new(0);
pub const EXIT_SLOW: i32 = 97;

// Stage of the pipeline the work thread is in: part of the SLOW line and written to <out>/cur_<shard>.stage, so
// that a non-terminating input is keyed by the stage that does not terminate (a parser loop and a loop in
// the semantic phases are different defects).
const STAGES: &[&str] = &["idle", "parse", "check_program", "diagnostics", "render", "emit_program"];
static STAGE: AtomicU64 = AtomicU64::new(0);
static STAGE_FILE: std::sync::OnceLock<PathBuf> = std::sync::OnceLock::new();

fn set_stage(i: usize) {
    STAGE.store(i as u64, Ordering::SeqCst);
    if let Some(p) = STAGE_FILE.get() {
        let _ = std::fs::write(p, STAGES[i]);
    }
}

fn cpu_ns() -> u64 {
    let mut ts = libc::timespec { tv_sec: 0, tv_nsec: 0 };
    unsafe { libc::clock_gettime(libc::CLOCK_PROCESS_CPUTIME_ID, &mut ts) };
    ts.tv_sec as u64 * 1_000_000_000 + ts.tv_nsec as u64
}

fn start_watchdog() {
    std::thread::spawn(|| {
        loop {
            std::thread::sleep(std::time::Duration::from_millis(100));
            let start = CASE_START_NS.load(Ordering::SeqCst);
            let limit = LIMIT_NS.load(Ordering::SeqCst);
            if start == 0 || limit == 0 {
                continue;
            }
            let used = cpu_ns().saturating_sub(start);
            if used > limit {
                // the same case must still be running
                if CASE_START_NS.load(Ordering::SeqCst) != start {
                    continue;
                }
                println!(
                    "SLOW idx={} limit_ms={} used_ms={} stage={}",
                    CASE_IDX.load(Ordering::SeqCst),
                    limit / 1_000_000,
                    used / 1_000_000,
                    STAGES[STAGE.load(Ordering::SeqCst) as usize]
                );
                let _ = std::io::stdout().flush();
                unsafe { libc::_exit(EXIT_SLOW) };
            }
        }
    });
}

fn limit_address_space() {
    // A non-terminating parser loop usually also allocates without bound (every iteration records events and
    // errors); turn that into an allocation failure of this child (abort -> child death, attributed to the input
    // and reported as non-termination by the Python side) instead of exhausting the machine. A normal input
    // needs 100-200 MiB (standard library trees) plus the 256 MiB stack reservation.
    let lim = libc::rlimit { rlim_cur: 3 << 30, rlim_max: 3 << 30 };
    unsafe { libc::setrlimit(libc::RLIMIT_AS, &lim) };
}

// ------------------------------------------------------------------------------------------------
// The pipeline and its oracle.

#[derive(Default)]
pub struct CaseResult {
    pub bad: Vec<(String, String)>, // (key, what)
    pub parse_clean: bool,          // no parser diagnostic in the program file
    pub check_ok: bool,             // check_program returned true
    pub emitted: bool,              // emit_program ran to completion
    pub nerrors: u64,
    pub nwarnings: u64,
    pub diag_kinds: Vec<String>,  // distinct message templates (semantic diagnostics)
    pub parse_kinds: Vec<String>, // distinct parser error kinds
    pub rendered_bytes: u64,
    pub functions: u64,
    pub cpu_ms: f64,
}

fn parse_kind(msg: &str) -> String {
    // "expected `)`." keeps its token: the set of expected tokens is small and each is a distinct recovery path
    if msg.starts_with("unknown character") {
        return "unknown character".into();
    }
    msg.to_string()
}

fn inspect_diag(sa: &Sema, e: &ErrorDescriptor, res: &mut CaseResult, program_file: &PathBuf, parse_errors_in_program: &mut u64) {
    let is_parse = e.desc.message == "{0}";
    let kind = if is_parse {
        let k = parse_kind(&e.message(sa));
        if !res.parse_kinds.contains(&k) {
            res.parse_kinds.push(k.clone());
        }
        format!("parse:{}", msg_class(&k))
    } else {
        let k = e.desc.message.to_string();
        if !res.diag_kinds.contains(&k) {
            res.diag_kinds.push(k.clone());
        }
        k
    };
    match (e.file_id, e.span) {
        (Some(fid), Some(span)) => {
            let file = sa.file(fid);
            if is_parse && &file.path == program_file {
                *parse_errors_in_program += 1;
            }
            let text: &str = file.content.as_str();
            let (s, l) = (span.start() as u64, span.len() as u64);
            let end = s + l;
            let name = file.path.file_name().map(|s| s.to_string_lossy().to_string()).unwrap_or_default();
            if end > text.len() as u64 {
                res.bad.push((
                    format!("c06:span-outside-file:{}", kind),
                    format!("diagnostic `{}` has span {}..{} but file {} has {} bytes", e.message(sa), s, end, name, text.len()),
                ));
            } else if !text.is_char_boundary(s as usize) || !text.is_char_boundary(end as usize) {
                res.bad.push((
                    format!("c06:span-not-on-char-boundary:{}", kind),
                    format!("diagnostic `{}` has span {}..{} not on character boundaries of {}", e.message(sa), s, end, name),
                ));
            }
        }
        (None, None) => {}
        _ => res.bad.push((format!("c06:half-located-diagnostic:{}", kind), "diagnostic with file but no span or vice versa".into())),
    }
}

/// Message class of a panic: vhc::msg_class, with the payload of messages that embed types or function
/// names of the input removed (the location already identifies the site).
fn panic_class(msg: &str) -> String {
    let first = msg.lines().next().unwrap_or("");
    if first.starts_with("register type ") {
        return "register type does not match expected type".into();
    }
    if first.starts_with("SourceType ") && first.contains(" cannot be converted") {
        return "SourceType cannot be converted to BytecodeType".into();
    }
    let mut c = msg_class(first);
    for cut in [" in function ", " for function "] {
        if let Some(p) = c.find(cut) {
            if p >= 12 {
                c.truncate(p);
            }
        }
    }
    c
}

fn panic_bad(stage: &str, p: vhc::Panicked) -> (String, String) {
    (format!("panic@{}:{}", p.loc, panic_class(&p.msg)), format!("{} panicked at {}: {}", stage, p.loc, p.msg))
}

/// Runs the pipeline on `text` (the program file is <cwd>/main.dora, held in memory only).
pub static PARSER_ONLY: std::sync::atomic::AtomicBool = std::sync::atomic::AtomicBool::new(false);

pub fn run_pipeline(text: Arc<String>) -> CaseResult {
    let mut res = CaseResult::default();
    let t0 = cpu_ns();
    let program_file = std::env::current_dir().unwrap().join("main.dora");

    // stage 0: the parser alone on the program text (check_program does the same again; this only separates
    // "the parser does not terminate / panics" from the semantic phases)
    set_stage(1);
    {
        let t = text.clone();
        match catch(move || {
            let (file, errors) = dora_parser::Parser::from_shared_string(t).parse();
            (file.root().green().text_length(), errors.len())
        }) {
            Err(p) => {
                res.bad.push(panic_bad("the parser", p));
                res.cpu_ms = (cpu_ns() - t0) as f64 / 1e6;
                set_stage(0);
                return res;
            }
            Ok((_, nerr)) => {
                if PARSER_ONLY.load(Ordering::SeqCst) {
                    res.nerrors = nerr as u64;
                    res.parse_clean = nerr == 0;
                }
            }
        }
    }

    if PARSER_ONLY.load(Ordering::SeqCst) {
        // phase=parser: token-level mutants are evaluated by the parser alone (the semantic phases of the pinned tree do
        // not reach a bounded set of panic sites for them, the parser does)
        res.cpu_ms = (cpu_ns() - t0) as f64 / 1e6;
        set_stage(0);
        return res;
    }

    // stage 1: Sema::new + check_program, exactly as dora/src/driver/start.rs::compile_program
    set_stage(2);
    let r = catch(move || {
        let params = SemaCreationParams::new().set_program_content(text);
        let mut sa = Sema::new(params);
        let ok = check_program(&mut sa);
        (sa, ok)
    });
    let (sa, ok) = match r {
        Ok(v) => v,
        Err(p) => {
            res.bad.push(panic_bad("check_program", p));
            res.cpu_ms = (cpu_ns() - t0) as f64 / 1e6;
            set_stage(0);
            return res;
        }
    };
    res.check_ok = ok;

    // stage 2: the diagnostics themselves
    set_stage(3);
    let r = catch(|| {
        let mut local = CaseResult::default();
        let mut pe = 0u64;
        let d = sa.diag.borrow();
        for e in d.errors().iter().chain(d.warnings().iter()) {
            inspect_diag(&sa, e, &mut local, &program_file, &mut pe);
        }
        local.nerrors = d.errors().len() as u64;
        local.nwarnings = d.warnings().len() as u64;
        if ok == d.has_errors() {
            local.bad.push((
                "c06:check-result-disagrees-with-diagnostics".into(),
                format!("check_program returned {} with {} errors", ok, d.errors().len()),
            ));
        }
        (local, pe)
    });
    match r {
        Ok((local, pe)) => {
            res.bad.extend(local.bad);
            res.diag_kinds = local.diag_kinds;
            res.parse_kinds = local.parse_kinds;
            res.nerrors = local.nerrors;
            res.nwarnings = local.nwarnings;
            res.parse_clean = pe == 0;
        }
        Err(p) => res.bad.push(panic_bad("formatting a diagnostic message", p)),
    }

    // stage 3: the text the CLI prints (line/column computation, source excerpt, underline)
    set_stage(4);
    let r = catch(|| sa.diag.borrow_mut().dump_to_string(&sa, true));
    match r {
        Ok(s) => res.rendered_bytes = s.len() as u64,
        Err(p) => res.bad.push(panic_bad("rendering the diagnostics", p)),
    }

    // stage 4: bytecode emission for accepted programs
    if ok && res.bad.is_empty() {
        set_stage(5);
        match catch(move || emit_program(sa)) {
            Ok(prog) => {
                res.emitted = true;
                res.functions = prog.functions.len() as u64;
            }
            Err(p) => res.bad.push(panic_bad("emit_program (after check_program returned true)", p)),
        }
    } else {
        // dropping a Sema must not panic either
        if let Err(p) = catch(move || drop(sa)) {
            res.bad.push(panic_bad("dropping the analysis state", p));
        }
    }
    res.cpu_ms = (cpu_ns() - t0) as f64 / 1e6;
    set_stage(0);
    res
}

// ------------------------------------------------------------------------------------------------
// Reporter (same file protocol as vhc::Reporter, but every line is flushed: children of this check may be
// ended by the watchdog at any time and their earlier results must survive).

struct Rep {
    f: std::fs::File,
    cur: PathBuf,
    curidx: PathBuf,
    stats: BTreeMap<String, u64>,
    kinds: BTreeMap<String, u64>,
    pkinds: BTreeMap<String, u64>,
    bad: u64,
    per_key: BTreeMap<String, (u64, usize)>, // occurrences, smallest input written so far
}

impl Rep {
    fn new(args: &Args) -> Rep {
        std::fs::create_dir_all(&args.out).unwrap();
        Rep {
            f: std::fs::File::create(args.out.join(format!("shard_{}.jsonl", args.shard))).unwrap(),
            cur: args.out.join(format!("cur_{}.txt", args.shard)),
            curidx: args.out.join(format!("cur_{}.idx", args.shard)),
            stats: BTreeMap::new(),
            kinds: BTreeMap::new(),
            pkinds: BTreeMap::new(),
            bad: 0,
            per_key: BTreeMap::new(),
        }
    }
    fn begin_case(&mut self, idx: u64, text: &[u8]) {
        let _ = std::fs::write(&self.cur, text);
        let _ = std::fs::write(&self.curidx, idx.to_string());
    }
    fn count(&mut self, k: &str, n: u64) {
        *self.stats.entry(k.to_string()).or_insert(0) += n;
    }
    fn line(&mut self, v: Value) {
        let mut s = v.to_string();
        s.push('\n');
        self.f.write_all(s.as_bytes()).unwrap();
    }
    fn flush_stats(&mut self) {
        let stats: serde_json::Map<String, Value> = std::mem::take(&mut self.stats).into_iter().map(|(k, v)| (k, json!(v))).collect();
        let kinds = std::mem::take(&mut self.kinds);
        let pkinds = std::mem::take(&mut self.pkinds);
        let mut m = stats;
        m.insert("diag_kinds".into(), json!(kinds));
        m.insert("parse_kinds".into(), json!(pkinds));
        self.line(json!({"t": "stats", "stats": Value::Object(m)}));
    }
    fn finish(mut self) {
        self.flush_stats();
        self.line(json!({"t": "done"}));
        let _ = std::fs::remove_file(&self.cur);
        let _ = std::fs::remove_file(&self.curidx);
    }
}

// ------------------------------------------------------------------------------------------------

fn calibrate() -> f64 {
    // median CPU time of the pipeline on a trivial program = cost of loading the standard library
    let mut v = vec![];
    for _ in 0..3 {
        let r = run_pipeline(Arc::new("fn main() {}\n".to_string()));
        v.push(r.cpu_ms);
    }
    v.sort_by(|a, b| a.partial_cmp(b).unwrap());
    v[1]
}

fn set_limit(args: &Args) -> (f64, f64) {
    let base = calibrate();
    let limit_ms = match args.get("cpu_limit_ms") {
        Some(s) => s.parse::<f64>().unwrap(),
        None => (200.0 * base).max(10_000.0),
    };
    LIMIT_NS.store((limit_ms * 1e6) as u64, Ordering::SeqCst);
    (base, limit_ms)
}

fn guarded(idx: u64, text: Arc<String>) -> CaseResult {
    CASE_IDX.store(idx, Ordering::SeqCst);
    CASE_START_NS.store(cpu_ns().max(1), Ordering::SeqCst);
    let r = run_pipeline(text);
    CASE_START_NS.store(0, Ordering::SeqCst);
    r
}

fn run_front(args: &Args) {
    let corpus = fams::Bases::load(args.extra.as_deref(), args.get("bases").unwrap_or("all"));
    let fams = fams::select_families(args.get("families").unwrap_or("default"));
    PARSER_ONLY.store(args.get("phase") == Some("parser"), Ordering::SeqCst);
    let cli_every: u64 = args.get("cli_every").map(|s| s.parse().unwrap()).unwrap_or(0);
    let clidir = args.get("clidir").map(PathBuf::from);
    let mut rep = Rep::new(args);
    // the program file lives in memory only; `mod x;` items are looked up next to it, i.e. in this directory
    let cwd = args.out.join(format!("cwd_{}", args.shard));
    std::fs::create_dir_all(&cwd).unwrap();
    std::env::set_current_dir(&cwd).unwrap();
    let (base, limit_ms) = set_limit(args);
    let _ = STAGE_FILE.set(args.out.join(format!("cur_{}.stage", args.shard)));
    rep.line(json!({"t": "calib", "base_ms": base, "limit_ms": limit_ms}));
    let mut n = 0u64;
    for idx in args.indices() {
        let (case, base): (Case, String) = fams::gen_case(&corpus, &fams, args.seed, idx);
        rep.begin_case(idx, case.text.as_bytes());
        let h = vhc::fnv(case.text.as_bytes());
        let to_cli = cli_every > 0 && Rng::new(args.seed, 0xc11, idx).below(cli_every as usize) == 0;
        if to_cli {
            if let Some(d) = &clidir {
                let dd = d.join(idx.to_string());
                let _ = std::fs::create_dir_all(&dd);
                let _ = std::fs::write(dd.join("main.dora"), case.text.as_bytes());
            }
        }
        let text = Arc::new(case.text);
        let res = guarded(idx, text.clone());
        rep.count("cases", 1);
        rep.count(&format!("family:{}", case.family), 1);
        rep.count("input_bytes", text.len() as u64);
        if res.parse_clean {
            rep.count("parse_clean", 1);
            rep.count(&format!("parse_clean:{}", case.family), 1);
        }
        if res.check_ok {
            rep.count("check_ok", 1);
        }
        if res.emitted {
            rep.count("emitted", 1);
            rep.count("emitted_functions", res.functions);
        }
        rep.count("diagnostics_errors", res.nerrors);
        rep.count("diagnostics_warnings", res.nwarnings);
        rep.count("rendered_bytes", res.rendered_bytes);
        for k in &res.diag_kinds {
            *rep.kinds.entry(k.clone()).or_insert(0) += 1;
        }
        for k in &res.parse_kinds {
            *rep.pkinds.entry(k.clone()).or_insert(0) += 1;
        }
        let panicked = res.bad.iter().any(|(k, _)| k.starts_with("panic@"));
        if panicked {
            rep.count("panicked", 1);
        }
        if to_cli {
            if let Some(d) = &clidir {
                let keys: Vec<&String> = res.bad.iter().map(|(k, _)| k).collect();
                let _ = std::fs::write(
                    d.join(idx.to_string()).join("inproc.json"),
                    json!({"idx": idx, "ok": res.check_ok, "emitted": res.emitted, "errors": res.nerrors, "bad": keys, "family": case.family}).to_string(),
                );
            }
        }
        let snip: String = if idx < 64 { text.chars().take(160).collect() } else { String::new() };
        rep.line(json!({"t": "ok", "idx": idx, "h": h, "fam": case.family, "clean": res.parse_clean, "ok": res.check_ok,
            "ms": (res.cpu_ms * 10.0).round() / 10.0, "len": text.len(), "cli": to_cli, "p": panicked, "snip": snip}));
        for (key, what) in &res.bad {
            rep.bad += 1;
            // witness text: the first occurrences of a key, and later ones only when they are smaller
            let e = rep.per_key.entry(key.clone()).or_insert((0, usize::MAX));
            e.0 += 1;
            let with_input = e.0 <= 2 || text.len() < e.1;
            if with_input {
                e.1 = e.1.min(text.len());
            }
            let input: &str = if with_input { text.as_str() } else { "" };
            rep.line(json!({"t": "bad", "idx": idx, "key": key, "what": what, "family": case.family, "base": base, "input": input}));
        }
        n += 1;
        if n % 64 == 0 {
            rep.flush_stats();
        }
    }
    rep.finish();
}

fn run_file(args: &Args) {
    let path = args.get("path").expect("path=FILE");
    let text = std::fs::read_to_string(path).expect("readable UTF-8 file");
    let cwd = std::env::temp_dir().join(format!("vh-front-file-{}", std::process::id()));
    std::fs::create_dir_all(&cwd).unwrap();
    std::env::set_current_dir(&cwd).unwrap();
    let (base, limit_ms) = set_limit(args);
    let res = guarded(0, Arc::new(text));
    let bad: Vec<Value> = res.bad.iter().map(|(k, w)| json!({"key": k, "what": w})).collect();
    println!(
        "{}",
        json!({"bad": bad, "parse_clean": res.parse_clean, "check_ok": res.check_ok, "emitted": res.emitted, "errors": res.nerrors,
            "warnings": res.nwarnings, "diag_kinds": res.diag_kinds, "parse_kinds": res.parse_kinds, "cpu_ms": res.cpu_ms,
            "base_ms": base, "limit_ms": limit_ms})
    );
    let _ = std::env::set_current_dir("/");
    let _ = std::fs::remove_dir(&cwd);
}

fn main() {
    let args = Args::parse();
    vhc::install_panic_hook();
    limit_address_space();
    start_watchdog();
    let mode = args.mode.clone();
    vhc::with_big_stack(move || match mode.as_str() {
        "front" => run_front(&args),
        "file" => run_file(&args),
        "show" => {
            let corpus = fams::Bases::load(args.extra.as_deref(), args.get("bases").unwrap_or("all"));
            let fams = fams::select_families(args.get("families").unwrap_or("default"));
            for idx in args.indices() {
                let (case, base) = fams::gen_case(&corpus, &fams, args.seed, idx);
                println!("// ---- idx {} family {} base {}\n{}", idx, case.family, base, case.text);
            }
        }
        "families" => {
            println!("{}", json!({"default": fams::select_families("default"), "all": fams::select_families("all")}));
        }
        m => panic!("unknown mode {}", m),
    });
}
