//! Random bytecode functions through `BytecodeWriter`'s public emit methods, read back with the real
//! `BytecodeReader` iterator and `read()` + `BytecodeVisitor`, compared with the trace recorded while emitting.
//!
//! The operand encoding on the pinned tree is LEB128 (7 bits per byte, no wide prefix): the narrow/wide
//! boundaries are 127/128, 16 383/16 384, 2 097 151/2 097 152 and 2^28-1/2^28; forward jump distances are 4
//! fixed bytes, backward distances LEB128. The value set below has both sides of each boundary plus the
//! 255/256 and 65 535/65 536 boundaries of byte-oriented encodings.
use dora_bytecode::{
    BytecodeBody, BytecodeOpcode, BytecodeReader, BytecodeType, BytecodeTypeArray, BytecodeWriter, ClassId, ConstId,
    ConstPoolEntry, ConstPoolIdx, EnumId, FunctionId, GlobalId, Label, Location, Register, StructId,
};
use vhc::Rng;

use crate::recorder::Recorder;

pub const BOUNDARY: &[u32] = &[
    0, 1, 2, 126, 127, 128, 129, 255, 256, 16_383, 16_384, 65_535, 65_536, 70_000, 2_097_151, 2_097_152, 268_435_455,
    268_435_456, u32::MAX - 1, u32::MAX,
];

fn leb(v: u32) -> u32 {
    let mut n = 1;
    let mut v = v >> 7;
    while v != 0 {
        n += 1;
        v >>= 7;
    }
    n
}

fn val(rng: &mut Rng) -> u32 {
    match rng.below(10) {
        0..=4 => *rng.pick(BOUNDARY),
        5..=7 => rng.below(300) as u32,
        8 => rng.below(70_000) as u32,
        _ => rng.next() as u32,
    }
}

fn reg(rng: &mut Rng) -> Register {
    Register(val(rng) as usize)
}

pub struct Entry {
    pub name: &'static str,
    pub ops: Vec<u64>,
    pub start: u32,
    /// forward jump: label index whose bound offset defines the distance operand (last operand)
    pub fwd: Option<usize>,
}

#[derive(Clone)]
enum Expect {
    Debug(String),
    /// labels of the targets and of the default target
    Table(Vec<usize>, usize),
}

pub struct Built {
    pub trace: Vec<Entry>,
    pub body: BytecodeBody,
    pub label_offsets: Vec<Option<u32>>,
    consts: Vec<(u32, Expect)>,
    pub locations: Vec<(u32, Location)>,
    pub registers: Vec<BytecodeType>,
    pub model_len: u32,
    pub fwd_max_distance: u32,
    pub back_max_distance: u32,
}

const REG3: &[&str] = &[
    "add", "sub", "mul", "div", "mod", "checked_add", "checked_sub", "checked_mul", "checked_div", "checked_mod", "and", "or",
    "xor", "shl", "shr", "sar", "test_identity", "test_eq", "test_ne", "test_gt", "test_ge", "test_lt", "test_le",
    "load_array", "store_array", "get_array_ref",
];
const REG2: &[&str] = &["neg", "checked_neg", "not", "mov", "array_length", "store_ref", "load_ref", "get_register_ref"];
const REG1: &[&str] = &["const_true", "const_false", "ret"];
const REG2IDX: &[&str] =
    &["load_enum_element", "load_enum_variant", "load_field", "store_field", "get_field_ref", "new_array", "new_trait_object"];
const REGGLOBAL: &[&str] = &["load_global", "store_global", "get_global_ref"];
const CONSTS: &[&str] = &["const_char", "const_int32", "const_int64", "const_float32", "const_float64", "const_string"];
const WITHARGS: &[&str] = &[
    "invoke_direct", "invoke_virtual", "invoke_static", "invoke_generic_static", "invoke_generic_direct", "new_object",
    "new_tuple", "new_enum", "new_struct",
];

/// Every plain (non control-flow) instruction family name; control flow is driven separately.
fn plain_names() -> Vec<&'static str> {
    let mut v: Vec<&'static str> = vec![];
    for l in [REG3, REG2, REG1, REG2IDX, REGGLOBAL, CONSTS, WITHARGS] {
        v.extend_from_slice(l);
    }
    v.extend_from_slice(&["load_const", "const_uint8", "loop_start"]);
    v
}

/// Opcode names in numbering order, from the repository's source of truth tools/bytecode.toml
/// (`BytecodeOpcode` implements neither Debug nor a name function on the Rust side).
pub fn opcode_names() -> &'static Vec<String> {
    static NAMES: std::sync::OnceLock<Vec<String>> = std::sync::OnceLock::new();
    NAMES.get_or_init(|| {
        let path = vhc::repo_root().join("tools/bytecode.toml");
        let text = std::fs::read_to_string(&path).expect("tools/bytecode.toml");
        let sec = text.split("[BytecodeOpcode]").nth(1).expect("[BytecodeOpcode] section");
        let list = sec.split("variants = [").nth(1).expect("variants").split(']').next().unwrap();
        let names: Vec<String> = list.split('"').skip(1).step_by(2).map(|s| s.to_string()).collect();
        // the table and the Rust enum must describe the same numbering
        for i in 0..names.len() {
            assert!(BytecodeOpcode::try_from(i as u8).is_ok(), "opcode {} of bytecode.toml unknown to BytecodeOpcode", i);
        }
        assert!(BytecodeOpcode::try_from(names.len() as u8).is_err(), "BytecodeOpcode has more opcodes than bytecode.toml");
        names
    })
}

pub fn opcode_name(op: BytecodeOpcode) -> &'static str {
    let b: u8 = op.into();
    opcode_names()[b as usize].as_str()
}

pub fn opcode_of(name: &str) -> Option<BytecodeOpcode> {
    let want: String = name.chars().filter(|c| *c != '_').collect();
    opcode_names().iter().position(|n| n.to_lowercase() == want).and_then(|i| BytecodeOpcode::try_from(i as u8).ok())
}

pub fn all_opcodes() -> Vec<BytecodeOpcode> {
    (0..opcode_names().len()).filter_map(|b| BytecodeOpcode::try_from(b as u8).ok()).collect()
}

struct Gen<'a> {
    w: BytecodeWriter,
    rng: &'a mut Rng,
    trace: Vec<Entry>,
    pos: u32,
    npool: u32,
    labels: Vec<Label>,
    label_offsets: Vec<Option<u32>>,
    open: Vec<usize>,
    defined: Vec<usize>,
    consts: Vec<(u32, Expect)>,
    locations: Vec<(u32, Location)>,
    cur_loc: Location,
    fwd_max: u32,
    back_max: u32,
}

impl<'a> Gen<'a> {
    fn begin(&mut self, name: &'static str) {
        // a location is mandatory for the opcodes that can trap; set one before every instruction
        if self.rng.chance(1, 3) {
            self.cur_loc = Location::new(val(self.rng), val(self.rng));
        }
        self.w.set_location(self.cur_loc);
        let op = opcode_of(name).unwrap_or_else(|| panic!("no opcode named {}", name));
        if op.needs_location() && self.locations.last().map(|(_, l)| *l) != Some(self.cur_loc) {
            self.locations.push((self.pos, self.cur_loc));
        }
    }

    fn done(&mut self, name: &'static str, ops: Vec<u64>, len: u32, fwd: Option<usize>) {
        self.trace.push(Entry { name, ops, start: self.pos, fwd });
        self.pos += len;
    }

    fn pool_idx(&mut self) -> ConstPoolIdx {
        ConstPoolIdx(val(self.rng))
    }

    fn plain(&mut self, name: &'static str) {
        self.begin(name);
        let w = &mut self.w;
        if REG3.contains(&name) {
            let (a, b, c) = (reg(self.rng), reg(self.rng), reg(self.rng));
            match name {
                "add" => w.emit_add(a, b, c),
                "sub" => w.emit_sub(a, b, c),
                "mul" => w.emit_mul(a, b, c),
                "div" => w.emit_div(a, b, c),
                "mod" => w.emit_mod(a, b, c),
                "checked_add" => w.emit_checked_add(a, b, c),
                "checked_sub" => w.emit_checked_sub(a, b, c),
                "checked_mul" => w.emit_checked_mul(a, b, c),
                "checked_div" => w.emit_checked_div(a, b, c),
                "checked_mod" => w.emit_checked_mod(a, b, c),
                "and" => w.emit_and(a, b, c),
                "or" => w.emit_or(a, b, c),
                "xor" => w.emit_xor(a, b, c),
                "shl" => w.emit_shl(a, b, c),
                "shr" => w.emit_shr(a, b, c),
                "sar" => w.emit_sar(a, b, c),
                "test_identity" => w.emit_test_identity(a, b, c),
                "test_eq" => w.emit_test_eq(a, b, c),
                "test_ne" => w.emit_test_ne(a, b, c),
                "test_gt" => w.emit_test_gt(a, b, c),
                "test_ge" => w.emit_test_ge(a, b, c),
                "test_lt" => w.emit_test_lt(a, b, c),
                "test_le" => w.emit_test_le(a, b, c),
                "load_array" => w.emit_load_array(a, b, c),
                "store_array" => w.emit_store_array(a, b, c),
                "get_array_ref" => w.emit_get_array_ref(a, b, c),
                _ => unreachable!(),
            }
            let (a, b, c) = (a.0 as u32, b.0 as u32, c.0 as u32);
            self.done(name, vec![a as u64, b as u64, c as u64], 1 + leb(a) + leb(b) + leb(c), None);
        } else if REG2.contains(&name) {
            let (a, b) = (reg(self.rng), reg(self.rng));
            match name {
                "neg" => w.emit_neg(a, b),
                "checked_neg" => w.emit_checked_neg(a, b),
                "not" => w.emit_not(a, b),
                "mov" => w.emit_mov(a, b),
                "array_length" => w.emit_array_length(a, b),
                "store_ref" => w.emit_store_ref(a, b),
                "load_ref" => w.emit_load_ref(a, b),
                "get_register_ref" => w.emit_get_register_ref(a, b),
                _ => unreachable!(),
            }
            let (a, b) = (a.0 as u32, b.0 as u32);
            self.done(name, vec![a as u64, b as u64], 1 + leb(a) + leb(b), None);
        } else if REG1.contains(&name) {
            let a = reg(self.rng);
            match name {
                "const_true" => w.emit_const_true(a),
                "const_false" => w.emit_const_false(a),
                "ret" => w.emit_ret(a),
                _ => unreachable!(),
            }
            self.done(name, vec![a.0 as u64], 1 + leb(a.0 as u32), None);
        } else if REG2IDX.contains(&name) {
            let (a, b) = (reg(self.rng), reg(self.rng));
            let i = ConstPoolIdx(val(self.rng));
            match name {
                "load_enum_element" => w.emit_load_enum_element(a, b, i),
                "load_enum_variant" => w.emit_load_enum_variant(a, b, i),
                "load_field" => w.emit_load_field(a, b, i),
                "store_field" => w.emit_store_field(a, b, i),
                "get_field_ref" => w.emit_get_field_ref(a, b, i),
                "new_array" => w.emit_new_array(a, b, i),
                "new_trait_object" => w.emit_new_trait_object(a, i, b),
                _ => unreachable!(),
            }
            let (a, b) = (a.0 as u32, b.0 as u32);
            self.done(name, vec![a as u64, b as u64, i.0 as u64], 1 + leb(a) + leb(b) + leb(i.0), None);
        } else if REGGLOBAL.contains(&name) {
            let a = reg(self.rng);
            let g = val(self.rng);
            let gid = GlobalId::from(g as usize);
            match name {
                "load_global" => w.emit_load_global(a, gid),
                "store_global" => w.emit_store_global(a, gid),
                "get_global_ref" => w.emit_get_global_ref(a, gid),
                _ => unreachable!(),
            }
            self.done(name, vec![a.0 as u64, g as u64], 1 + leb(a.0 as u32) + leb(g), None);
        } else if CONSTS.contains(&name) {
            let a = reg(self.rng);
            let idx = self.npool;
            let bits = self.rng.next();
            let expect = match name {
                "const_char" => {
                    let c = char::from_u32(*self.rng.pick(&[0u32, 0x41, 0x7f, 0x80, 0x7ff, 0x800, 0xd7ff, 0xe000, 0xffff, 0x10000, 0x10ffff]))
                        .unwrap();
                    w.emit_const_char(a, c);
                    format!("{:?}", ConstPoolEntry::Char(c))
                }
                "const_int32" => {
                    let v = *self.rng.pick(&[0i32, 1, -1, 127, 128, 250, 251, 65535, 65536, i32::MIN, i32::MAX, bits as i32]);
                    w.emit_const_int32(a, v);
                    format!("{:?}", ConstPoolEntry::Int32(v))
                }
                "const_int64" => {
                    let v = *self.rng.pick(&[0i64, 1, -1, 250, 251, 1 << 32, i64::MIN, i64::MAX, bits as i64]);
                    w.emit_const_int64(a, v);
                    format!("{:?}", ConstPoolEntry::Int64(v))
                }
                "const_float32" => {
                    let v = *self.rng.pick(&[0.0f32, -0.0, 1.5, f32::INFINITY, f32::MIN_POSITIVE, f32::from_bits(bits as u32 & 0x7f7f_ffff)]);
                    w.emit_const_float32(a, v);
                    format!("{:?}#{:08x}", ConstPoolEntry::Float32(v), v.to_bits())
                }
                "const_float64" => {
                    let v = *self.rng.pick(&[0.0f64, -0.0, 1.5, f64::NEG_INFINITY, f64::MAX, f64::from_bits(bits & 0x7fef_ffff_ffff_ffff)]);
                    w.emit_const_float64(a, v);
                    format!("{:?}#{:016x}", ConstPoolEntry::Float64(v), v.to_bits())
                }
                "const_string" => {
                    let v: String = self.rng.pick_str(&["", "a", "ä€😀", "\0", "line\nbreak", "0123456789012345678901234567890123456789"]).repeat(1 + self.rng.below(8));
                    w.emit_const_string(a, v.clone());
                    format!("{:?}", ConstPoolEntry::String(v))
                }
                _ => unreachable!(),
            };
            self.consts.push((idx, Expect::Debug(expect)));
            self.npool += 1;
            self.done(name, vec![a.0 as u64, idx as u64], 1 + leb(a.0 as u32) + leb(idx), None);
        } else if WITHARGS.contains(&name) {
            let a = reg(self.rng);
            let i = self.pool_idx();
            let w = &mut self.w;
            let n = *self.rng.pick(&[0usize, 0, 1, 1, 2, 3, 5, 127, 128, 300]);
            let args: Vec<Register> = (0..n).map(|_| reg(self.rng)).collect();
            match name {
                "invoke_direct" => w.emit_invoke_direct(a, i, &args),
                "invoke_virtual" => w.emit_invoke_virtual(a, i, &args),
                "invoke_static" => w.emit_invoke_static(a, i, &args),
                "invoke_generic_static" => w.emit_invoke_generic_static(a, i, &args),
                "invoke_generic_direct" => w.emit_invoke_generic_direct(a, i, &args),
                "new_object" => w.emit_new_object(a, i, &args),
                "new_tuple" => w.emit_new_tuple(a, i, &args),
                "new_enum" => w.emit_new_enum(a, i, &args),
                "new_struct" => w.emit_new_struct(a, i, &args),
                _ => unreachable!(),
            }
            let mut ops = vec![a.0 as u64, i.0 as u64, n as u64];
            let mut len = 1 + leb(a.0 as u32) + leb(i.0) + leb(n as u32);
            for r in &args {
                ops.push(r.0 as u64);
                len += leb(r.0 as u32);
            }
            self.done(name, ops, len, None);
        } else {
            match name {
                "load_const" => {
                    let a = reg(self.rng);
                    let c = val(self.rng);
                    w.emit_load_const(a, ConstId::from(c as usize));
                    self.done(name, vec![a.0 as u64, c as u64], 1 + leb(a.0 as u32) + leb(c), None);
                }
                "const_uint8" => {
                    let a = reg(self.rng);
                    let v = *self.rng.pick(&[0u8, 1, 127, 128, 255, self.rng.clone().next() as u8]);
                    w.emit_const_uint8(a, v);
                    self.done(name, vec![a.0 as u64, v as u64], 1 + leb(a.0 as u32) + 1, None);
                }
                "loop_start" => {
                    w.emit_loop_start();
                    self.done(name, vec![], 1, None);
                }
                _ => unreachable!("{}", name),
            }
        }
    }

    fn pad(&mut self, n: u32) {
        for _ in 0..n {
            self.w.set_location(self.cur_loc);
            self.w.emit_loop_start();
            self.trace.push(Entry { name: "loop_start", ops: vec![], start: self.pos, fwd: None });
            self.pos += 1;
        }
    }

    fn new_label(&mut self) -> usize {
        let l = self.w.create_label();
        self.labels.push(l);
        self.label_offsets.push(None);
        self.labels.len() - 1
    }

    fn forward_jump(&mut self) {
        let li = if !self.open.is_empty() && self.rng.chance(1, 3) { *self.rng.pick(&self.open) } else { self.new_label() };
        if !self.open.contains(&li) {
            self.open.push(li);
        }
        let lbl = self.labels[li];
        match self.rng.below(3) {
            0 => {
                self.begin("jump");
                self.w.emit_jump(lbl);
                self.done("jump", vec![0], 5, Some(li));
            }
            k => {
                let name = if k == 1 { "jump_if_false" } else { "jump_if_true" };
                self.begin(name);
                let r = reg(self.rng);
                if k == 1 {
                    self.w.emit_jump_if_false(r, lbl);
                } else {
                    self.w.emit_jump_if_true(r, lbl);
                }
                self.done(name, vec![r.0 as u64, 0], 1 + leb(r.0 as u32) + 4, Some(li));
            }
        }
    }

    fn bind(&mut self, li: usize) {
        self.w.bind_label(self.labels[li]);
        self.label_offsets[li] = Some(self.pos);
        self.open.retain(|x| *x != li);
    }

    fn define(&mut self) {
        let l = self.w.define_label();
        self.labels.push(l);
        self.label_offsets.push(Some(self.pos));
        self.defined.push(self.labels.len() - 1);
    }

    fn jump_loop(&mut self) {
        if self.defined.is_empty() {
            self.define();
        }
        let li = *self.rng.pick(&self.defined);
        let target = self.label_offsets[li].unwrap();
        // pad so that the distance sits on a LEB128 boundary
        if self.rng.chance(1, 2) {
            let b = if self.rng.chance(1, 12) { *self.rng.pick(&[16_383u32, 16_384]) } else { *self.rng.pick(&[127u32, 128, 255, 256]) };
            let d = self.pos - target;
            if d < b {
                self.pad(b - d);
            }
        }
        let d = self.pos - target;
        self.begin("jump_loop");
        self.w.emit_jump_loop(self.labels[li]);
        self.back_max = self.back_max.max(d);
        self.done("jump_loop", vec![d as u64], 1 + leb(d), None);
    }

    fn switch(&mut self) {
        let n = *self.rng.pick(&[0usize, 1, 2, 3, 8, 130]);
        let mut targets = vec![];
        for _ in 0..n + 1 {
            let li = match self.rng.below(3) {
                0 if !self.defined.is_empty() => *self.rng.pick(&self.defined),
                1 if !self.open.is_empty() => *self.rng.pick(&self.open),
                _ => {
                    let li = self.new_label();
                    self.open.push(li);
                    li
                }
            };
            targets.push(li);
        }
        let default = targets.pop().unwrap();
        let idx = self.w.add_const_jump_table(targets.iter().map(|l| self.labels[*l]).collect(), self.labels[default]);
        assert_eq!(idx.0, self.npool, "const pool index model out of step");
        self.consts.push((idx.0, Expect::Table(targets, default)));
        self.npool += 1;
        self.begin("switch");
        let r = reg(self.rng);
        self.w.emit_switch(r, idx);
        self.done("switch", vec![r.0 as u64, idx.0 as u64], 1 + leb(r.0 as u32) + leb(idx.0), None);
    }

    fn fill_pool(&mut self) {
        let goal = if self.rng.chance(1, 10) { *self.rng.pick(&[16_382u32, 16_383, 16_384]) } else { *self.rng.pick(&[126u32, 127, 128, 255, 256]) };
        while self.npool < goal {
            let v = self.npool as i32;
            let idx = self.w.add_const(ConstPoolEntry::Int32(v));
            assert_eq!(idx.0, self.npool);
            if self.npool % 97 == 0 {
                self.consts.push((idx.0, Expect::Debug(format!("{:?}", ConstPoolEntry::Int32(v)))));
            }
            self.npool += 1;
        }
    }
}

pub fn build(rng: &mut Rng, idx: u64) -> Built {
    let names = plain_names();
    let mut g = Gen {
        w: BytecodeWriter::new(),
        rng,
        trace: vec![],
        pos: 0,
        npool: 0,
        labels: vec![],
        label_offsets: vec![],
        open: vec![],
        defined: vec![],
        consts: vec![],
        locations: vec![],
        cur_loc: Location::new(1, 1),
        fwd_max: 0,
        back_max: 0,
    };
    // registers
    let nregs = *g.rng.pick(&[0usize, 1, 2, 127, 128, 255, 256, 300]);
    let mut registers = vec![];
    for k in 0..nregs {
        let ty = match k % 9 {
            0 => BytecodeType::Int32,
            1 => BytecodeType::Bool,
            2 => BytecodeType::Float64,
            3 => BytecodeType::Tuple(BytecodeTypeArray::new(vec![BytecodeType::Char, BytecodeType::UInt8])),
            4 => BytecodeType::Class(ClassId::from(k), BytecodeTypeArray::one(BytecodeType::TypeParam(k as u32))),
            5 => BytecodeType::Enum(EnumId::from(65_536usize), BytecodeTypeArray::empty()),
            6 => BytecodeType::Struct(StructId::from(255usize), BytecodeTypeArray::empty()),
            7 => BytecodeType::Ref(Box::new(BytecodeType::Int64)),
            _ => BytecodeType::Address,
        };
        g.w.add_register(ty.clone());
        registers.push(ty);
    }
    // the first cases walk the instruction families once each so that even tiny runs cover every opcode
    if idx < 4 {
        for n in &names {
            g.plain(n);
        }
        g.define();
        g.forward_jump();
        g.forward_jump();
        g.forward_jump();
        g.jump_loop();
        g.switch();
    }
    let big = g.rng.chance(1, 40);
    let mut far = false;
    let steps = if big { 200 + g.rng.below(3000) } else { 1 + g.rng.below(120) };
    if g.rng.chance(1, 6) {
        g.fill_pool();
    }
    // a few extra pool entries of the other kinds (they travel through bincode with the function)
    if g.rng.chance(1, 4) {
        for e in [
            ConstPoolEntry::Fct(FunctionId::from(70_000usize), BytecodeTypeArray::one(BytecodeType::Float32)),
            ConstPoolEntry::EnumElement(EnumId::from(1usize), BytecodeTypeArray::empty(), 255, 256),
            ConstPoolEntry::TupleElement(BytecodeType::Unit, u32::MAX),
        ] {
            let s = format!("{:?}", e);
            let i = g.w.add_const(e);
            assert_eq!(i.0, g.npool);
            g.consts.push((i.0, Expect::Debug(s)));
            g.npool += 1;
        }
    }
    for _ in 0..steps {
        match g.rng.below(100) {
            0..=69 => {
                let n = *g.rng.pick(&names);
                g.plain(n);
            }
            70..=76 => g.forward_jump(),
            77..=83 => {
                if !g.open.is_empty() {
                    let li = *g.rng.pick(&g.open);
                    g.bind(li);
                }
            }
            84..=87 => g.define(),
            88..=92 => g.jump_loop(),
            93..=95 => {
                let n = if big && !far && g.rng.chance(1, 6) {
                    far = true;
                    70_000
                } else {
                    *g.rng.pick(&[1u32, 2, 126, 127, 128, 255, 256])
                };
                g.pad(n);
            }
            96..=97 => g.switch(),
            _ => {
                if g.npool < 200 {
                    g.fill_pool()
                }
            }
        }
    }
    // every label must be bound before generate()
    while let Some(&li) = g.open.first() {
        if g.rng.chance(1, 2) {
            g.plain("ret");
        }
        g.bind(li);
    }
    let Gen { w, mut trace, pos, label_offsets, consts, locations, mut fwd_max, back_max, .. } = g;
    for e in trace.iter_mut() {
        if let Some(li) = e.fwd {
            let d = label_offsets[li].expect("label bound") - e.start;
            *e.ops.last_mut().unwrap() = d as u64;
            fwd_max = fwd_max.max(d);
        }
    }
    let body = w.generate();
    Built { trace, body, label_offsets, consts, locations, registers, model_len: pos, fwd_max_distance: fwd_max, back_max_distance: back_max }
}

fn show(e: &Entry) -> String {
    format!("@{} {} {:?}", e.start, e.name, e.ops)
}

/// Compares what the real reader sees with what was emitted. Returns (rule, text) pairs.
pub fn check(b: &Built) -> Vec<(String, String)> {
    let mut bad: Vec<(String, String)> = vec![];
    let code = b.body.code();
    if code.len() as u32 != b.model_len {
        bad.push(("c18:bytecode:code-length".into(), format!("writer produced {} bytes, the encoding model says {}", code.len(), b.model_len)));
    }
    // 1. iterator: start offsets and opcodes
    let mut k = 0usize;
    for (start, opcode, _inst) in BytecodeReader::new(code) {
        if k >= b.trace.len() {
            bad.push(("c18:bytecode:extra-instruction".into(), format!("reader yields an instruction at {} after the {} emitted ones", start, b.trace.len())));
            break;
        }
        let e = &b.trace[k];
        let want: String = e.name.chars().filter(|c| *c != '_').collect();
        if opcode_name(opcode).to_lowercase() != want || start as u32 != e.start {
            bad.push((format!("c18:bytecode:iterator-mismatch:{}", e.name), format!("instruction #{}: emitted {} but the reader iterator yields {} at {}", k, show(e), opcode_name(opcode), start)));
            break;
        }
        k += 1;
    }
    if bad.is_empty() && k != b.trace.len() {
        bad.push(("c18:bytecode:missing-instruction".into(), format!("reader iterator yields {} instructions, {} were emitted", k, b.trace.len())));
    }
    // 2. visitor: operands
    let mut rec = Recorder::default();
    dora_bytecode::read(code, &mut rec);
    if rec.insts.len() != b.trace.len() && bad.is_empty() {
        bad.push(("c18:bytecode:visitor-count".into(), format!("visitor saw {} instructions, {} were emitted", rec.insts.len(), b.trace.len())));
    }
    for (i, (e, (name, ops))) in b.trace.iter().zip(rec.insts.iter()).enumerate() {
        if e.name != *name || e.ops != *ops || rec.starts.get(i).copied() != Some(e.start) {
            let what = if e.name != *name { "opcode" } else if e.ops != *ops { "operand" } else { "offset" };
            bad.push((
                format!("c18:bytecode:{}-mismatch:{}", what, e.name),
                format!("instruction #{}: emitted {} but the visitor saw @{} {} {:?}{}", i, show(e), rec.starts.get(i).copied().unwrap_or(u32::MAX), name, ops,
                    if i > 0 { format!(" (previous: {})", show(&b.trace[i - 1])) } else { String::new() }),
            ));
            break;
        }
    }
    // 3. resolved jump targets land on the labels
    for e in &b.trace {
        if let Some(li) = e.fwd {
            let t = e.start as u64 + *e.ops.last().unwrap();
            if Some(t as u32) != b.label_offsets[li] {
                bad.push(("c18:bytecode:jump-target".into(), format!("{} does not reach its label at {:?}", show(e), b.label_offsets[li])));
            }
        }
    }
    // 4. constant pool
    let pool = b.body.const_pool_entries();
    for (idx, ex) in &b.consts {
        let got = pool.get(*idx as usize);
        let (want, gots) = match ex {
            Expect::Debug(s) => {
                let g = got.map(|e| match e {
                    ConstPoolEntry::Float32(v) => format!("{:?}#{:08x}", e, v.to_bits()),
                    ConstPoolEntry::Float64(v) => format!("{:?}#{:016x}", e, v.to_bits()),
                    _ => format!("{:?}", e),
                });
                (s.clone(), g)
            }
            Expect::Table(t, d) => {
                let e = ConstPoolEntry::JumpTable {
                    targets: t.iter().map(|l| b.label_offsets[*l].unwrap()).collect(),
                    default_target: b.label_offsets[*d].unwrap(),
                };
                (format!("{:?}", e), got.map(|e| format!("{:?}", e)))
            }
        };
        if gots.as_deref() != Some(want.as_str()) {
            bad.push(("c18:bytecode:const-pool".into(), format!("constant pool entry {}: expected {} got {:?}", idx, &want[..want.len().min(200)], gots.map(|s| s.chars().take(200).collect::<String>()))));
            break;
        }
    }
    // 5. locations and registers
    let locs: Vec<(u32, Location)> = b.body.locations().iter().map(|(o, l)| (o.to_u32(), *l)).collect();
    if locs != b.locations {
        bad.push(("c18:bytecode:locations".into(), format!("location table differs: {} entries, model {}", locs.len(), b.locations.len())));
    }
    if b.body.registers() != b.registers.as_slice() {
        bad.push(("c18:bytecode:registers".into(), "register types differ".into()));
    }
    // 6. the function body through the package encoding
    let cfg = bincode::config::standard();
    match bincode::encode_to_vec(&b.body, cfg) {
        Ok(bytes) => match bincode::decode_from_slice::<BytecodeBody, _>(&bytes, cfg) {
            Ok((back, n)) => {
                if n != bytes.len() {
                    bad.push(("c18:bytecode:body-decode-length".into(), format!("decoded {} of {} bytes", n, bytes.len())));
                }
                if back.code() != code || format!("{:?}", back) != format!("{:?}", b.body) {
                    bad.push(("c18:bytecode:body-roundtrip".into(), "decode(encode(body)) differs from body".into()));
                }
                match bincode::encode_to_vec(&back, cfg) {
                    Ok(again) if again == bytes => {}
                    _ => bad.push(("c18:bytecode:body-reencode".into(), "encode(decode(bytes)) differs from bytes".into())),
                }
            }
            Err(e) => bad.push(("c18:bytecode:body-decode-error".into(), format!("decoding an encoded function body failed: {}", e))),
        },
        Err(e) => bad.push(("c18:bytecode:body-encode-error".into(), format!("encoding a function body failed: {}", e))),
    }
    bad
}

pub fn dump(b: &Built, around: usize) -> String {
    let lo = around.saturating_sub(40);
    let hi = (around + 40).min(b.trace.len());
    let mut s = format!("{} instructions, {} code bytes; showing #{}..#{}\n", b.trace.len(), b.body.code().len(), lo, hi);
    for (i, e) in b.trace[lo..hi].iter().enumerate() {
        s.push_str(&format!("#{} {}\n", lo + i, show(e)));
    }
    s
}
