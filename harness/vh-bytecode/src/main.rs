//! vh-bytecode: C18 in-process oracles.
//!   prog     -> front end in-process on corpus programs: decode(encode(p)) == p, encode(decode(b)) == b
//!   pkgfile  -> package files written by the real CLI: encode(decode(b)) == b
//!   bc       -> random instruction sequences through BytecodeWriter, read back with reader + visitor
//!   damage   -> strict prefixes and single-bit flips of a real package file through the real decoder
use std::alloc::{GlobalAlloc, Layout, System};
use std::path::{Path, PathBuf};
use std::sync::atomic::{AtomicUsize, Ordering};

use dora_bytecode::{Program, decode_program_from_bytes};
use dora_frontend::sema::{Sema, SemaCreationParams};
use vhc::{Args, Reporter, Rng, catch, msg_class};

mod bc;
mod recorder;

// Largest single allocation request, so that "corrupted length field -> huge allocation" is observable even when
// the allocation happens to succeed.
struct Track;
static MAXREQ: AtomicUsize = AtomicUsize::new(0);

unsafe impl GlobalAlloc for Track {
    unsafe fn alloc(&self, l: Layout) -> *mut u8 {
        MAXREQ.fetch_max(l.size(), Ordering::Relaxed);
        unsafe { System.alloc(l) }
    }
    unsafe fn alloc_zeroed(&self, l: Layout) -> *mut u8 {
        MAXREQ.fetch_max(l.size(), Ordering::Relaxed);
        unsafe { System.alloc_zeroed(l) }
    }
    unsafe fn realloc(&self, p: *mut u8, l: Layout, n: usize) -> *mut u8 {
        MAXREQ.fetch_max(n, Ordering::Relaxed);
        unsafe { System.realloc(p, l, n) }
    }
    unsafe fn dealloc(&self, p: *mut u8, l: Layout) {
        unsafe { System.dealloc(p, l) }
    }
}

#[global_allocator]
static ALLOC: Track = Track;

fn main() {
    let args = Args::parse();
    vhc::install_panic_hook();
    let mode = args.mode.clone();
    vhc::with_big_stack(move || match mode.as_str() {
        "prog" => run_prog(&args),
        "pkgfile" => run_pkgfile(&args),
        "bc" => run_bc(&args),
        "damage" => run_damage(&args),
        m => panic!("unknown mode {}", m),
    });
}

/// What the real package writer writes for `p` (see build.rs).
#[cfg(not(has_pkg_encoder))]
fn encode(p: &Program) -> Vec<u8> {
    bincode::encode_to_vec(p, bincode::config::standard()).expect("program serialization failed")
}

#[cfg(has_pkg_encoder)]
fn encode(p: &Program) -> Vec<u8> {
    dora_bytecode::encode_program_to_bytes(p)
}

/// The byte-level round trip shared by prog and pkgfile.
fn roundtrip(bytes: &[u8], original_debug: Option<&str>, bad: &mut Vec<(String, String)>) {
    match decode_program_from_bytes(bytes) {
        Err(e) => bad.push(("c18:package:decode-refused".into(), format!("the decoder refuses an undamaged package: {}", e))),
        Ok(back) => {
            if let Some(d) = original_debug {
                let bd = format!("{:?}", back);
                if bd != d {
                    let p = bd.bytes().zip(d.bytes()).position(|(a, b)| a != b).unwrap_or(bd.len().min(d.len()));
                    let lo = p.saturating_sub(120);
                    bad.push((
                        "c18:package:decode-differs".into(),
                        format!("decode(encode(p)) != p; first difference at Debug offset {}: ...{}... vs ...{}...", p,
                            &d[lo..(p + 120).min(d.len())].escape_debug(), &bd[lo..(p + 120).min(bd.len())].escape_debug()),
                    ));
                }
            }
            let again = encode(&back);
            if again != bytes {
                let p = again.iter().zip(bytes.iter()).position(|(a, b)| a != b).unwrap_or(again.len().min(bytes.len()));
                bad.push(("c18:package:reencode-differs".into(), format!("encode(decode(b)) != b: lengths {} vs {}, first difference at byte {}", again.len(), bytes.len(), p)));
            }
        }
    }
}

fn program_files(args: &Args) -> Vec<PathBuf> {
    // programs: test/rt (they are meant to compile) + bench, in a fixed order; the list is rotated by the seed so
    // that different seeds cover different slices
    let root = vhc::repo_root();
    let mut v: Vec<PathBuf> = vhc::corpus_files()
        .into_iter()
        .filter(|p| p.starts_with(root.join("test/rt")) || p.starts_with(root.join("bench")))
        .collect();
    let n = v.len().max(1);
    v.rotate_left((args.seed as usize * 7919) % n);
    v
}

fn compile(path: &Path) -> Result<Program, String> {
    let params = SemaCreationParams::new().set_program_path(path.to_path_buf());
    let mut sa = Sema::new(params);
    let ok = dora_frontend::check_program(&mut sa);
    if !ok || sa.diag.borrow().has_errors() {
        return Err("rejected by the front end".into());
    }
    Ok(dora_frontend::emit_program(sa))
}

fn run_prog(args: &Args) {
    let files = program_files(args);
    let mut rep = Reporter::new(args);
    for idx in args.indices() {
        let path = &files[(idx as usize) % files.len()];
        rep.begin_case(idx, path.display().to_string().as_bytes());
        let p2 = path.clone();
        let r = catch(move || compile(&p2));
        let prog = match r {
            Ok(Ok(p)) => p,
            Ok(Err(_)) => {
                rep.count("programs_rejected_by_front_end", 1);
                continue;
            }
            Err(p) => {
                // a front-end panic is C06's business; here the program simply is not available
                rep.count("programs_front_end_panicked", 1);
                rep.line(vhc::json!({"t": "note", "idx": idx, "what": format!("front end panicked at {}: {}", p.loc, p.msg), "file": path.display().to_string()}));
                continue;
            }
        };
        let mut bad = vec![];
        let r = catch(|| {
            let d = format!("{:?}", prog);
            let bytes = encode(&prog);
            let mut bad = vec![];
            roundtrip(&bytes, Some(&d), &mut bad);
            // a second encoding of the same value gives the same bytes
            if encode(&prog) != bytes {
                bad.push(("c18:package:encode-unstable".to_string(), "two encodings of one program differ".to_string()));
            }
            (bad, bytes.len(), prog.functions.len())
        });
        match r {
            Ok((b, n, f)) => {
                bad = b;
                rep.count("programs_roundtripped", 1);
                rep.count("package_bytes", n as u64);
                rep.count("functions_in_programs", f as u64);
                rep.line(vhc::json!({"t": "ok", "idx": idx, "h": vhc::fnv(path.display().to_string().as_bytes()), "file": path.display().to_string(), "bytes": n}));
            }
            Err(p) => bad.push((format!("panic@{}:{}", p.loc, msg_class(&p.msg)), format!("encode/decode panicked: {}", p.msg))),
        }
        for (k, w) in bad {
            rep.bad(idx, &k, &format!("{} [{}]", w, path.display()), &path.display().to_string(), "prog");
        }
    }
    rep.finish();
}

fn run_pkgfile(args: &Args) {
    let files: Vec<PathBuf> = vhc::extra_files(args.extra.as_deref().expect("--extra DIR with package files"))
        .into_iter()
        .filter(|p| p.extension().map(|e| e == "dora-package").unwrap_or(false))
        .collect();
    let mut rep = Reporter::new(args);
    for idx in args.indices() {
        if idx as usize >= files.len() {
            break;
        }
        let path = &files[idx as usize];
        rep.begin_case(idx, path.display().to_string().as_bytes());
        let bytes = std::fs::read(path).unwrap();
        let b2 = bytes.clone();
        let src = path.with_extension("dora");
        let r = catch(move || {
            let mut bad = vec![];
            roundtrip(&b2, None, &mut bad);
            // the file the CLI wrote is what this harness calls encode(compile(source))
            if src.exists() {
                if let Ok(p) = compile(&src) {
                    if encode(&p) != b2 {
                        bad.push(("c18:package:cli-vs-inprocess".to_string(), "the package written by the CLI differs from the in-process encoding of the same source".to_string()));
                    }
                }
            }
            bad
        });
        let bad = match r {
            Ok(b) => b,
            Err(p) => vec![(format!("panic@{}:{}", p.loc, msg_class(&p.msg)), format!("decode/encode panicked: {}", p.msg))],
        };
        rep.count("cli_packages_roundtripped", 1);
        rep.line(vhc::json!({"t": "ok", "idx": idx, "h": vhc::fnv(&bytes), "file": path.display().to_string(), "bytes": bytes.len()}));
        for (k, w) in bad {
            rep.bad(idx, &k, &format!("{} [{}]", w, path.display()), &path.display().to_string(), "pkgfile");
        }
    }
    rep.finish();
}

fn run_bc(args: &Args) {
    let mut rep = Reporter::new(args);
    for op in bc::all_opcodes() {
        rep.count(&format!("op:{}", bc::opcode_name(op)), 0);
    }
    for idx in args.indices() {
        rep.begin_case(idx, format!("bytecode case {} seed {}", idx, args.seed).as_bytes());
        let seed = args.seed;
        let r = catch(move || {
            let mut rng = Rng::new(seed, 0x18bc, idx);
            let b = bc::build(&mut rng, idx);
            let bad = bc::check(&b);
            (b, bad)
        });
        match r {
            Ok((b, bad)) => {
                rep.count("bytecode_functions", 1);
                rep.count("bytecode_instructions", b.trace.len() as u64);
                rep.count("bytecode_bytes", b.body.code().len() as u64);
                if b.fwd_max_distance >= 65_536 {
                    rep.count("functions_with_forward_jump_over_64k", 1);
                }
                if b.back_max_distance >= 16_384 {
                    rep.count("functions_with_backward_jump_over_16k", 1);
                }
                if b.body.const_pool_entries().len() > 16_384 {
                    rep.count("functions_with_const_pool_over_16k", 1);
                }
                if bad.is_empty() {
                    let mut per: std::collections::HashMap<&str, u64> = std::collections::HashMap::new();
                    for e in &b.trace {
                        *per.entry(e.name).or_default() += 1;
                    }
                    for (n, c) in per {
                        let op = bc::opcode_of(n).unwrap();
                        rep.count(&format!("op:{}", bc::opcode_name(op)), c);
                    }
                }
                let snip = if idx < 3 { bc::dump(&b, 20) } else { String::new() };
                rep.line(vhc::json!({"t": "ok", "idx": idx, "h": vhc::fnv(b.body.code()), "n": b.trace.len(), "snip": snip}));
                for (k, w) in bad {
                    let at = w.split('#').nth(1).and_then(|s| s.split(|c: char| !c.is_ascii_digit()).next()).and_then(|s| s.parse().ok()).unwrap_or(0);
                    rep.bad(idx, &k, &w, &bc::dump(&b, at), "bc");
                }
            }
            Err(p) => {
                let key = format!("panic@{}:{}", p.loc, msg_class(&p.msg));
                rep.bad(idx, &key, &format!("writer/reader panicked: {}", p.msg), &format!("bytecode case {} seed {}", idx, args.seed), "bc");
            }
        }
    }
    rep.finish();
}

/// damage: index space = [0, nprefix) prefixes ++ [nprefix, nprefix + ntrail) trailing bytes ++ [.., count) bit flips.
///   pkg=<file> step=<prefix length step> nprefix=<number of prefix cases> ntrail=<number of trailing-byte cases>
fn run_damage(args: &Args) {
    let pkg = PathBuf::from(args.get("pkg").expect("pkg=<file>"));
    let step: usize = args.get("step").map(|s| s.parse().unwrap()).unwrap_or(1);
    let nprefix: u64 = args.get("nprefix").map(|s| s.parse().unwrap()).unwrap_or(0);
    let ntrail: u64 = args.get("ntrail").map(|s| s.parse().unwrap()).unwrap_or(0);
    let orig = std::fs::read(&pkg).unwrap();
    let mut rep = Reporter::new(args);
    let limit = (1usize << 30).max(orig.len() * 256);
    let mut shown = 0;
    // dumpdir=<dir> dumpevery=<k>: also write every k-th damaged input to a file (for the code-generator binaries)
    let dumpdir = args.get("dumpdir").map(PathBuf::from);
    let dumpevery: u64 = args.get("dumpevery").map(|s| s.parse().unwrap()).unwrap_or(0);
    let tag = args.get("tag").unwrap_or("pkg").to_string();
    for idx in args.indices() {
        let (class, desc, data): (&str, String, Vec<u8>) = if idx < nprefix {
            let n = ((idx as usize) * step).min(orig.len() - 1);
            ("truncation", format!("prefix of {} bytes of {} ({} bytes)", n, pkg.display(), orig.len()), orig[..n].to_vec())
        } else if idx < nprefix + ntrail {
            // the undamaged file followed by extra bytes
            let k = idx - nprefix;
            let mut rng = Rng::new(args.seed, 0x18db, idx);
            let mut d = orig.clone();
            let what = match k % 4 {
                0 => {
                    d.extend(std::iter::repeat(0u8).take(1 + (k as usize / 4) % 40));
                    "zero bytes"
                }
                1 => {
                    d.extend(std::iter::repeat(0xffu8).take(1 + (k as usize / 4) % 40));
                    "0xff bytes"
                }
                2 => {
                    let n = 1 + rng.below(64);
                    d.extend((0..n).map(|_| rng.next() as u8));
                    "random bytes"
                }
                _ => {
                    let n = 1 + rng.below(orig.len());
                    d.extend_from_slice(&orig[..n]);
                    "bytes of itself"
                }
            };
            ("trailing", format!("{} ({} bytes) followed by {} {}", pkg.display(), orig.len(), d.len() - orig.len(), what), d)
        } else {
            let mut rng = Rng::new(args.seed, 0x18da, idx);
            let pos = rng.below(orig.len());
            let bit = rng.below(8);
            let mut d = orig.clone();
            d[pos] ^= 1 << bit;
            ("bitflip", format!("bit {} of byte {} flipped in {} ({} bytes)", bit, pos, pkg.display(), orig.len()), d)
        };
        rep.begin_case(idx, desc.as_bytes());
        MAXREQ.store(0, Ordering::Relaxed);
        let d2 = data.clone();
        let o2 = orig.clone();
        let r = catch(move || match decode_program_from_bytes(&d2) {
            Err(e) => (0u8, e),
            Ok(p) => {
                if encode(&p) == o2 { (1u8, String::new()) } else { (2u8, String::new()) }
            }
        });
        let maxreq = MAXREQ.load(Ordering::Relaxed);
        rep.count(&format!("damaged_inputs:{}", class), 1);
        if let (Some(dir), true) = (&dumpdir, dumpevery > 0 && idx % dumpevery.max(1) == 0) {
            let name = format!("{}_{}.dora-package", tag, idx);
            std::fs::write(dir.join(&name), &data).unwrap();
            let outcome = match &r {
                Ok((0, _)) => "refused",
                Ok((1, _)) => "accepted-equal-program",
                Ok(_) => "accepted-different-program",
                Err(_) => "panic",
            };
            rep.line(vhc::json!({"t": "ok", "idx": idx, "class": class, "outcome": outcome, "file": name, "desc": desc}));
        }
        match r {
            Ok((0, e)) => {
                rep.count(&format!("{}:refused", class), 1);
                if e.trim().is_empty() {
                    rep.bad(idx, "c18:decoder:refused-without-message", "refused with an empty error message", &desc, class);
                }
            }
            Ok((1, _)) => {
                // the file differs from the original, the program does not: the decoder ignores part of the file.
                // Every accepted file b must satisfy encode(decode(b)) == b, so this is a refusal that is missing.
                rep.count(&format!("{}:accepted-equal-program", class), 1);
                rep.bad(
                    idx,
                    &format!("c18:damaged-package-accepted-as-original:{}", class),
                    &format!("decode_program_from_bytes accepts a file that differs from the original package and returns the original program (encode(decode(b)) != b): {}", desc),
                    &desc,
                    class,
                );
            }
            Ok((_, _)) => {
                rep.count(&format!("{}:accepted-different-program", class), 1);
                if shown < 2 {
                    shown += 1;
                    rep.bad(
                        idx,
                        &format!("c18:damaged-package-accepted:{}", class),
                        &format!("decode_program_from_bytes accepts a damaged package and returns a program that differs from the original: {}", desc),
                        &desc,
                        class,
                    );
                }
            }
            Err(p) => {
                rep.count(&format!("{}:panic", class), 1);
                let key = format!("panic@{}:{}", p.loc, msg_class(&p.msg));
                rep.bad(idx, &key, &format!("the package decoder panicked ({}): {}", p.msg, desc), &desc, class);
            }
        }
        if maxreq > limit {
            rep.count(&format!("{}:huge-allocation", class), 1);
            rep.bad(idx, "c18:decoder:huge-allocation", &format!("decoding requested a single allocation of {} bytes for a {}-byte file: {}", maxreq, orig.len(), desc), &desc, class);
        }
    }
    rep.finish();
}
