// Generated from dora-bytecode/src/reader.rs (trait BytecodeVisitor) by the C18 author; records every visited
// instruction as (name, operands). If the trait changes in the working tree this file stops compiling, which
// the check reports as a harness error (inconclusive), not as a verdict.
use dora_bytecode::{BytecodeOffset, BytecodeVisitor, ConstId, ConstPoolIdx, GlobalId, Register};

#[derive(Default)]
pub struct Recorder {
    pub starts: Vec<u32>,
    pub insts: Vec<(&'static str, Vec<u64>)>,
}

impl BytecodeVisitor for Recorder {
    fn visit_instruction(&mut self, offset: BytecodeOffset) {
        self.starts.push(offset.to_u32());
    }
    fn visit_add(&mut self, dest: Register, lhs: Register, rhs: Register) {
        #[allow(unused_mut)]
        let mut v: Vec<u64> = Vec::new();
        v.push(dest.to_usize() as u64);
        v.push(lhs.to_usize() as u64);
        v.push(rhs.to_usize() as u64);
        self.insts.push(("add", v));
    }
    fn visit_sub(&mut self, dest: Register, lhs: Register, rhs: Register) {
        #[allow(unused_mut)]
        let mut v: Vec<u64> = Vec::new();
        v.push(dest.to_usize() as u64);
        v.push(lhs.to_usize() as u64);
        v.push(rhs.to_usize() as u64);
        self.insts.push(("sub", v));
    }
    fn visit_neg(&mut self, dest: Register, src: Register) {
        #[allow(unused_mut)]
        let mut v: Vec<u64> = Vec::new();
        v.push(dest.to_usize() as u64);
        v.push(src.to_usize() as u64);
        self.insts.push(("neg", v));
    }
    fn visit_mul(&mut self, dest: Register, lhs: Register, rhs: Register) {
        #[allow(unused_mut)]
        let mut v: Vec<u64> = Vec::new();
        v.push(dest.to_usize() as u64);
        v.push(lhs.to_usize() as u64);
        v.push(rhs.to_usize() as u64);
        self.insts.push(("mul", v));
    }
    fn visit_div(&mut self, dest: Register, lhs: Register, rhs: Register) {
        #[allow(unused_mut)]
        let mut v: Vec<u64> = Vec::new();
        v.push(dest.to_usize() as u64);
        v.push(lhs.to_usize() as u64);
        v.push(rhs.to_usize() as u64);
        self.insts.push(("div", v));
    }
    fn visit_mod(&mut self, dest: Register, lhs: Register, rhs: Register) {
        #[allow(unused_mut)]
        let mut v: Vec<u64> = Vec::new();
        v.push(dest.to_usize() as u64);
        v.push(lhs.to_usize() as u64);
        v.push(rhs.to_usize() as u64);
        self.insts.push(("mod", v));
    }
    fn visit_checked_add(&mut self, dest: Register, lhs: Register, rhs: Register) {
        #[allow(unused_mut)]
        let mut v: Vec<u64> = Vec::new();
        v.push(dest.to_usize() as u64);
        v.push(lhs.to_usize() as u64);
        v.push(rhs.to_usize() as u64);
        self.insts.push(("checked_add", v));
    }
    fn visit_checked_sub(&mut self, dest: Register, lhs: Register, rhs: Register) {
        #[allow(unused_mut)]
        let mut v: Vec<u64> = Vec::new();
        v.push(dest.to_usize() as u64);
        v.push(lhs.to_usize() as u64);
        v.push(rhs.to_usize() as u64);
        self.insts.push(("checked_sub", v));
    }
    fn visit_checked_neg(&mut self, dest: Register, src: Register) {
        #[allow(unused_mut)]
        let mut v: Vec<u64> = Vec::new();
        v.push(dest.to_usize() as u64);
        v.push(src.to_usize() as u64);
        self.insts.push(("checked_neg", v));
    }
    fn visit_checked_mul(&mut self, dest: Register, lhs: Register, rhs: Register) {
        #[allow(unused_mut)]
        let mut v: Vec<u64> = Vec::new();
        v.push(dest.to_usize() as u64);
        v.push(lhs.to_usize() as u64);
        v.push(rhs.to_usize() as u64);
        self.insts.push(("checked_mul", v));
    }
    fn visit_checked_div(&mut self, dest: Register, lhs: Register, rhs: Register) {
        #[allow(unused_mut)]
        let mut v: Vec<u64> = Vec::new();
        v.push(dest.to_usize() as u64);
        v.push(lhs.to_usize() as u64);
        v.push(rhs.to_usize() as u64);
        self.insts.push(("checked_div", v));
    }
    fn visit_checked_mod(&mut self, dest: Register, lhs: Register, rhs: Register) {
        #[allow(unused_mut)]
        let mut v: Vec<u64> = Vec::new();
        v.push(dest.to_usize() as u64);
        v.push(lhs.to_usize() as u64);
        v.push(rhs.to_usize() as u64);
        self.insts.push(("checked_mod", v));
    }
    fn visit_and(&mut self, dest: Register, lhs: Register, rhs: Register) {
        #[allow(unused_mut)]
        let mut v: Vec<u64> = Vec::new();
        v.push(dest.to_usize() as u64);
        v.push(lhs.to_usize() as u64);
        v.push(rhs.to_usize() as u64);
        self.insts.push(("and", v));
    }
    fn visit_or(&mut self, dest: Register, lhs: Register, rhs: Register) {
        #[allow(unused_mut)]
        let mut v: Vec<u64> = Vec::new();
        v.push(dest.to_usize() as u64);
        v.push(lhs.to_usize() as u64);
        v.push(rhs.to_usize() as u64);
        self.insts.push(("or", v));
    }
    fn visit_xor(&mut self, dest: Register, lhs: Register, rhs: Register) {
        #[allow(unused_mut)]
        let mut v: Vec<u64> = Vec::new();
        v.push(dest.to_usize() as u64);
        v.push(lhs.to_usize() as u64);
        v.push(rhs.to_usize() as u64);
        self.insts.push(("xor", v));
    }
    fn visit_not(&mut self, dest: Register, src: Register) {
        #[allow(unused_mut)]
        let mut v: Vec<u64> = Vec::new();
        v.push(dest.to_usize() as u64);
        v.push(src.to_usize() as u64);
        self.insts.push(("not", v));
    }
    fn visit_shl(&mut self, dest: Register, lhs: Register, rhs: Register) {
        #[allow(unused_mut)]
        let mut v: Vec<u64> = Vec::new();
        v.push(dest.to_usize() as u64);
        v.push(lhs.to_usize() as u64);
        v.push(rhs.to_usize() as u64);
        self.insts.push(("shl", v));
    }
    fn visit_shr(&mut self, dest: Register, lhs: Register, rhs: Register) {
        #[allow(unused_mut)]
        let mut v: Vec<u64> = Vec::new();
        v.push(dest.to_usize() as u64);
        v.push(lhs.to_usize() as u64);
        v.push(rhs.to_usize() as u64);
        self.insts.push(("shr", v));
    }
    fn visit_sar(&mut self, dest: Register, lhs: Register, rhs: Register) {
        #[allow(unused_mut)]
        let mut v: Vec<u64> = Vec::new();
        v.push(dest.to_usize() as u64);
        v.push(lhs.to_usize() as u64);
        v.push(rhs.to_usize() as u64);
        self.insts.push(("sar", v));
    }
    fn visit_mov(&mut self, dest: Register, src: Register) {
        #[allow(unused_mut)]
        let mut v: Vec<u64> = Vec::new();
        v.push(dest.to_usize() as u64);
        v.push(src.to_usize() as u64);
        self.insts.push(("mov", v));
    }
    fn visit_load_tuple_element(&mut self, dest: Register, src: Register, idx: ConstPoolIdx) {
        #[allow(unused_mut)]
        let mut v: Vec<u64> = Vec::new();
        v.push(dest.to_usize() as u64);
        v.push(src.to_usize() as u64);
        v.push(idx.0 as u64);
        self.insts.push(("load_tuple_element", v));
    }
    fn visit_load_enum_element(&mut self, dest: Register, src: Register, idx: ConstPoolIdx) {
        #[allow(unused_mut)]
        let mut v: Vec<u64> = Vec::new();
        v.push(dest.to_usize() as u64);
        v.push(src.to_usize() as u64);
        v.push(idx.0 as u64);
        self.insts.push(("load_enum_element", v));
    }
    fn visit_load_enum_variant(&mut self, dest: Register, src: Register, idx: ConstPoolIdx) {
        #[allow(unused_mut)]
        let mut v: Vec<u64> = Vec::new();
        v.push(dest.to_usize() as u64);
        v.push(src.to_usize() as u64);
        v.push(idx.0 as u64);
        self.insts.push(("load_enum_variant", v));
    }
    fn visit_load_field(&mut self, dest: Register, obj: Register, field: ConstPoolIdx) {
        #[allow(unused_mut)]
        let mut v: Vec<u64> = Vec::new();
        v.push(dest.to_usize() as u64);
        v.push(obj.to_usize() as u64);
        v.push(field.0 as u64);
        self.insts.push(("load_field", v));
    }
    fn visit_store_field(&mut self, src: Register, obj: Register, field: ConstPoolIdx) {
        #[allow(unused_mut)]
        let mut v: Vec<u64> = Vec::new();
        v.push(src.to_usize() as u64);
        v.push(obj.to_usize() as u64);
        v.push(field.0 as u64);
        self.insts.push(("store_field", v));
    }
    fn visit_load_global(&mut self, dest: Register, global_id: GlobalId) {
        #[allow(unused_mut)]
        let mut v: Vec<u64> = Vec::new();
        v.push(dest.to_usize() as u64);
        v.push(global_id.index_as_u32() as u64);
        self.insts.push(("load_global", v));
    }
    fn visit_store_global(&mut self, src: Register, global_id: GlobalId) {
        #[allow(unused_mut)]
        let mut v: Vec<u64> = Vec::new();
        v.push(src.to_usize() as u64);
        v.push(global_id.index_as_u32() as u64);
        self.insts.push(("store_global", v));
    }
    fn visit_get_global_ref(&mut self, dest: Register, global_id: GlobalId) {
        #[allow(unused_mut)]
        let mut v: Vec<u64> = Vec::new();
        v.push(dest.to_usize() as u64);
        v.push(global_id.index_as_u32() as u64);
        self.insts.push(("get_global_ref", v));
    }
    fn visit_load_const(&mut self, dest: Register, const_id: ConstId) {
        #[allow(unused_mut)]
        let mut v: Vec<u64> = Vec::new();
        v.push(dest.to_usize() as u64);
        v.push(const_id.index_as_u32() as u64);
        self.insts.push(("load_const", v));
    }
    fn visit_const_true(&mut self, dest: Register) {
        #[allow(unused_mut)]
        let mut v: Vec<u64> = Vec::new();
        v.push(dest.to_usize() as u64);
        self.insts.push(("const_true", v));
    }
    fn visit_const_false(&mut self, dest: Register) {
        #[allow(unused_mut)]
        let mut v: Vec<u64> = Vec::new();
        v.push(dest.to_usize() as u64);
        self.insts.push(("const_false", v));
    }
    fn visit_const_zero_uint8(&mut self, dest: Register) {
        #[allow(unused_mut)]
        let mut v: Vec<u64> = Vec::new();
        v.push(dest.to_usize() as u64);
        self.insts.push(("const_zero_uint8", v));
    }
    fn visit_const_zero_char(&mut self, dest: Register) {
        #[allow(unused_mut)]
        let mut v: Vec<u64> = Vec::new();
        v.push(dest.to_usize() as u64);
        self.insts.push(("const_zero_char", v));
    }
    fn visit_const_zero_int32(&mut self, dest: Register) {
        #[allow(unused_mut)]
        let mut v: Vec<u64> = Vec::new();
        v.push(dest.to_usize() as u64);
        self.insts.push(("const_zero_int32", v));
    }
    fn visit_const_zero_int64(&mut self, dest: Register) {
        #[allow(unused_mut)]
        let mut v: Vec<u64> = Vec::new();
        v.push(dest.to_usize() as u64);
        self.insts.push(("const_zero_int64", v));
    }
    fn visit_const_zero_float32(&mut self, dest: Register) {
        #[allow(unused_mut)]
        let mut v: Vec<u64> = Vec::new();
        v.push(dest.to_usize() as u64);
        self.insts.push(("const_zero_float32", v));
    }
    fn visit_const_zero_float64(&mut self, dest: Register) {
        #[allow(unused_mut)]
        let mut v: Vec<u64> = Vec::new();
        v.push(dest.to_usize() as u64);
        self.insts.push(("const_zero_float64", v));
    }
    fn visit_const_char(&mut self, dest: Register, value: ConstPoolIdx) {
        #[allow(unused_mut)]
        let mut v: Vec<u64> = Vec::new();
        v.push(dest.to_usize() as u64);
        v.push(value.0 as u64);
        self.insts.push(("const_char", v));
    }
    fn visit_const_uint8(&mut self, dest: Register, value: u8) {
        #[allow(unused_mut)]
        let mut v: Vec<u64> = Vec::new();
        v.push(dest.to_usize() as u64);
        v.push(value as u64);
        self.insts.push(("const_uint8", v));
    }
    fn visit_const_int32(&mut self, dest: Register, value: ConstPoolIdx) {
        #[allow(unused_mut)]
        let mut v: Vec<u64> = Vec::new();
        v.push(dest.to_usize() as u64);
        v.push(value.0 as u64);
        self.insts.push(("const_int32", v));
    }
    fn visit_const_int64(&mut self, dest: Register, value: ConstPoolIdx) {
        #[allow(unused_mut)]
        let mut v: Vec<u64> = Vec::new();
        v.push(dest.to_usize() as u64);
        v.push(value.0 as u64);
        self.insts.push(("const_int64", v));
    }
    fn visit_const_float32(&mut self, dest: Register, value: ConstPoolIdx) {
        #[allow(unused_mut)]
        let mut v: Vec<u64> = Vec::new();
        v.push(dest.to_usize() as u64);
        v.push(value.0 as u64);
        self.insts.push(("const_float32", v));
    }
    fn visit_const_float64(&mut self, dest: Register, value: ConstPoolIdx) {
        #[allow(unused_mut)]
        let mut v: Vec<u64> = Vec::new();
        v.push(dest.to_usize() as u64);
        v.push(value.0 as u64);
        self.insts.push(("const_float64", v));
    }
    fn visit_const_string(&mut self, dest: Register, value: ConstPoolIdx) {
        #[allow(unused_mut)]
        let mut v: Vec<u64> = Vec::new();
        v.push(dest.to_usize() as u64);
        v.push(value.0 as u64);
        self.insts.push(("const_string", v));
    }
    fn visit_test_identity(&mut self, dest: Register, lhs: Register, rhs: Register) {
        #[allow(unused_mut)]
        let mut v: Vec<u64> = Vec::new();
        v.push(dest.to_usize() as u64);
        v.push(lhs.to_usize() as u64);
        v.push(rhs.to_usize() as u64);
        self.insts.push(("test_identity", v));
    }
    fn visit_test_eq(&mut self, dest: Register, lhs: Register, rhs: Register) {
        #[allow(unused_mut)]
        let mut v: Vec<u64> = Vec::new();
        v.push(dest.to_usize() as u64);
        v.push(lhs.to_usize() as u64);
        v.push(rhs.to_usize() as u64);
        self.insts.push(("test_eq", v));
    }
    fn visit_test_ne(&mut self, dest: Register, lhs: Register, rhs: Register) {
        #[allow(unused_mut)]
        let mut v: Vec<u64> = Vec::new();
        v.push(dest.to_usize() as u64);
        v.push(lhs.to_usize() as u64);
        v.push(rhs.to_usize() as u64);
        self.insts.push(("test_ne", v));
    }
    fn visit_test_gt(&mut self, dest: Register, lhs: Register, rhs: Register) {
        #[allow(unused_mut)]
        let mut v: Vec<u64> = Vec::new();
        v.push(dest.to_usize() as u64);
        v.push(lhs.to_usize() as u64);
        v.push(rhs.to_usize() as u64);
        self.insts.push(("test_gt", v));
    }
    fn visit_test_ge(&mut self, dest: Register, lhs: Register, rhs: Register) {
        #[allow(unused_mut)]
        let mut v: Vec<u64> = Vec::new();
        v.push(dest.to_usize() as u64);
        v.push(lhs.to_usize() as u64);
        v.push(rhs.to_usize() as u64);
        self.insts.push(("test_ge", v));
    }
    fn visit_test_lt(&mut self, dest: Register, lhs: Register, rhs: Register) {
        #[allow(unused_mut)]
        let mut v: Vec<u64> = Vec::new();
        v.push(dest.to_usize() as u64);
        v.push(lhs.to_usize() as u64);
        v.push(rhs.to_usize() as u64);
        self.insts.push(("test_lt", v));
    }
    fn visit_test_le(&mut self, dest: Register, lhs: Register, rhs: Register) {
        #[allow(unused_mut)]
        let mut v: Vec<u64> = Vec::new();
        v.push(dest.to_usize() as u64);
        v.push(lhs.to_usize() as u64);
        v.push(rhs.to_usize() as u64);
        self.insts.push(("test_le", v));
    }
    fn visit_jump_if_false(&mut self, opnd: Register, offset: u32) {
        #[allow(unused_mut)]
        let mut v: Vec<u64> = Vec::new();
        v.push(opnd.to_usize() as u64);
        v.push(offset as u64);
        self.insts.push(("jump_if_false", v));
    }
    fn visit_jump_if_true(&mut self, opnd: Register, offset: u32) {
        #[allow(unused_mut)]
        let mut v: Vec<u64> = Vec::new();
        v.push(opnd.to_usize() as u64);
        v.push(offset as u64);
        self.insts.push(("jump_if_true", v));
    }
    fn visit_jump_loop(&mut self, offset: u32) {
        #[allow(unused_mut)]
        let mut v: Vec<u64> = Vec::new();
        v.push(offset as u64);
        self.insts.push(("jump_loop", v));
    }
    fn visit_loop_start(&mut self) {
        #[allow(unused_mut)]
        let mut v: Vec<u64> = Vec::new();
        self.insts.push(("loop_start", v));
    }
    fn visit_jump(&mut self, offset: u32) {
        #[allow(unused_mut)]
        let mut v: Vec<u64> = Vec::new();
        v.push(offset as u64);
        self.insts.push(("jump", v));
    }
    fn visit_switch(&mut self, opnd: Register, idx: ConstPoolIdx) {
        #[allow(unused_mut)]
        let mut v: Vec<u64> = Vec::new();
        v.push(opnd.to_usize() as u64);
        v.push(idx.0 as u64);
        self.insts.push(("switch", v));
    }
    fn visit_invoke_direct(&mut self, dest: Register, fct: ConstPoolIdx, arguments: Vec<Register>) {
        #[allow(unused_mut)]
        let mut v: Vec<u64> = Vec::new();
        v.push(dest.to_usize() as u64);
        v.push(fct.0 as u64);
        v.push(arguments.len() as u64);
        v.extend(arguments.iter().map(|r| r.to_usize() as u64));
        self.insts.push(("invoke_direct", v));
    }
    fn visit_invoke_virtual(&mut self, dest: Register, fct: ConstPoolIdx, arguments: Vec<Register>) {
        #[allow(unused_mut)]
        let mut v: Vec<u64> = Vec::new();
        v.push(dest.to_usize() as u64);
        v.push(fct.0 as u64);
        v.push(arguments.len() as u64);
        v.extend(arguments.iter().map(|r| r.to_usize() as u64));
        self.insts.push(("invoke_virtual", v));
    }
    fn visit_invoke_static(&mut self, dest: Register, fct: ConstPoolIdx, arguments: Vec<Register>) {
        #[allow(unused_mut)]
        let mut v: Vec<u64> = Vec::new();
        v.push(dest.to_usize() as u64);
        v.push(fct.0 as u64);
        v.push(arguments.len() as u64);
        v.extend(arguments.iter().map(|r| r.to_usize() as u64));
        self.insts.push(("invoke_static", v));
    }
    fn visit_invoke_generic_static(&mut self, dest: Register, fct: ConstPoolIdx, arguments: Vec<Register>) {
        #[allow(unused_mut)]
        let mut v: Vec<u64> = Vec::new();
        v.push(dest.to_usize() as u64);
        v.push(fct.0 as u64);
        v.push(arguments.len() as u64);
        v.extend(arguments.iter().map(|r| r.to_usize() as u64));
        self.insts.push(("invoke_generic_static", v));
    }
    fn visit_invoke_generic_direct(&mut self, dest: Register, fct: ConstPoolIdx, arguments: Vec<Register>) {
        #[allow(unused_mut)]
        let mut v: Vec<u64> = Vec::new();
        v.push(dest.to_usize() as u64);
        v.push(fct.0 as u64);
        v.push(arguments.len() as u64);
        v.extend(arguments.iter().map(|r| r.to_usize() as u64));
        self.insts.push(("invoke_generic_direct", v));
    }
    fn visit_new_object(&mut self, dest: Register, idx: ConstPoolIdx, arguments: Vec<Register>) {
        #[allow(unused_mut)]
        let mut v: Vec<u64> = Vec::new();
        v.push(dest.to_usize() as u64);
        v.push(idx.0 as u64);
        v.push(arguments.len() as u64);
        v.extend(arguments.iter().map(|r| r.to_usize() as u64));
        self.insts.push(("new_object", v));
    }
    fn visit_new_array(&mut self, dest: Register, length: Register, idx: ConstPoolIdx) {
        #[allow(unused_mut)]
        let mut v: Vec<u64> = Vec::new();
        v.push(dest.to_usize() as u64);
        v.push(length.to_usize() as u64);
        v.push(idx.0 as u64);
        self.insts.push(("new_array", v));
    }
    fn visit_new_tuple(&mut self, dest: Register, idx: ConstPoolIdx, arguments: Vec<Register>) {
        #[allow(unused_mut)]
        let mut v: Vec<u64> = Vec::new();
        v.push(dest.to_usize() as u64);
        v.push(idx.0 as u64);
        v.push(arguments.len() as u64);
        v.extend(arguments.iter().map(|r| r.to_usize() as u64));
        self.insts.push(("new_tuple", v));
    }
    fn visit_new_enum(&mut self, dest: Register, idx: ConstPoolIdx, arguments: Vec<Register>) {
        #[allow(unused_mut)]
        let mut v: Vec<u64> = Vec::new();
        v.push(dest.to_usize() as u64);
        v.push(idx.0 as u64);
        v.push(arguments.len() as u64);
        v.extend(arguments.iter().map(|r| r.to_usize() as u64));
        self.insts.push(("new_enum", v));
    }
    fn visit_new_struct(&mut self, dest: Register, idx: ConstPoolIdx, arguments: Vec<Register>) {
        #[allow(unused_mut)]
        let mut v: Vec<u64> = Vec::new();
        v.push(dest.to_usize() as u64);
        v.push(idx.0 as u64);
        v.push(arguments.len() as u64);
        v.extend(arguments.iter().map(|r| r.to_usize() as u64));
        self.insts.push(("new_struct", v));
    }
    fn visit_new_trait_object(&mut self, dest: Register, src: Register, idx: ConstPoolIdx) {
        #[allow(unused_mut)]
        let mut v: Vec<u64> = Vec::new();
        v.push(dest.to_usize() as u64);
        v.push(src.to_usize() as u64);
        v.push(idx.0 as u64);
        self.insts.push(("new_trait_object", v));
    }
    fn visit_array_length(&mut self, dest: Register, arr: Register) {
        #[allow(unused_mut)]
        let mut v: Vec<u64> = Vec::new();
        v.push(dest.to_usize() as u64);
        v.push(arr.to_usize() as u64);
        self.insts.push(("array_length", v));
    }
    fn visit_load_array(&mut self, dest: Register, arr: Register, idx: Register) {
        #[allow(unused_mut)]
        let mut v: Vec<u64> = Vec::new();
        v.push(dest.to_usize() as u64);
        v.push(arr.to_usize() as u64);
        v.push(idx.to_usize() as u64);
        self.insts.push(("load_array", v));
    }
    fn visit_store_array(&mut self, src: Register, arr: Register, idx: Register) {
        #[allow(unused_mut)]
        let mut v: Vec<u64> = Vec::new();
        v.push(src.to_usize() as u64);
        v.push(arr.to_usize() as u64);
        v.push(idx.to_usize() as u64);
        self.insts.push(("store_array", v));
    }
    fn visit_get_array_ref(&mut self, dest: Register, arr: Register, idx: Register) {
        #[allow(unused_mut)]
        let mut v: Vec<u64> = Vec::new();
        v.push(dest.to_usize() as u64);
        v.push(arr.to_usize() as u64);
        v.push(idx.to_usize() as u64);
        self.insts.push(("get_array_ref", v));
    }
    fn visit_get_field_ref(&mut self, dest: Register, obj: Register, field: ConstPoolIdx) {
        #[allow(unused_mut)]
        let mut v: Vec<u64> = Vec::new();
        v.push(dest.to_usize() as u64);
        v.push(obj.to_usize() as u64);
        v.push(field.0 as u64);
        self.insts.push(("get_field_ref", v));
    }
    fn visit_store_ref(&mut self, src: Register, reference: Register) {
        #[allow(unused_mut)]
        let mut v: Vec<u64> = Vec::new();
        v.push(src.to_usize() as u64);
        v.push(reference.to_usize() as u64);
        self.insts.push(("store_ref", v));
    }
    fn visit_load_ref(&mut self, dest: Register, reference: Register) {
        #[allow(unused_mut)]
        let mut v: Vec<u64> = Vec::new();
        v.push(dest.to_usize() as u64);
        v.push(reference.to_usize() as u64);
        self.insts.push(("load_ref", v));
    }
    fn visit_get_register_ref(&mut self, dest: Register, src: Register) {
        #[allow(unused_mut)]
        let mut v: Vec<u64> = Vec::new();
        v.push(dest.to_usize() as u64);
        v.push(src.to_usize() as u64);
        self.insts.push(("get_register_ref", v));
    }
    fn visit_ret(&mut self, opnd: Register) {
        #[allow(unused_mut)]
        let mut v: Vec<u64> = Vec::new();
        v.push(opnd.to_usize() as u64);
        self.insts.push(("ret", v));
    }
}
