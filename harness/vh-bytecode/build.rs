// The package writer lives in the `dora` binary crate (driver/compile.rs::compile_to_package), which cannot be
// linked. On the pinned tree it is `bincode::encode_to_vec(prog, standard())`; if the working tree has moved the
// encoding into dora-bytecode (`encode_program_to_bytes`, e.g. with an integrity trailer) the harness must use
// that function so that "encode" keeps meaning "what the real writer writes".
fn main() {
    let path = "/repo/dora-bytecode/src/serializer.rs";
    println!("cargo:rerun-if-changed={}", path);
    println!("cargo:rustc-check-cfg=cfg(has_pkg_encoder)");
    let src = std::fs::read_to_string(path).unwrap_or_default();
    if src.contains("pub fn encode_program_to_bytes") {
        println!("cargo:rustc-cfg=has_pkg_encoder");
    }
}
