//! vh-lsp: C20 in-process part. Compiles the language server's *real* position code from the working tree
//! (`dora-language-server` is a bin-only crate, so the file is included by path) and checks it against an
//! independent re-implementation of the LSP line / UTF-16 column arithmetic.
//!
//!   pos   -> every char-boundary offset round-trips, offset->position equals the reference, a grid of
//!            (line, column) positions (also out of range / inside surrogate pairs) is clamped into the document
//!            on a char boundary, inside the addressed line, monotone; no panic.
//!   dump  -> writes generated document texts to files for the stdio driver of the real server (vlib/lspdrive.py).
use std::cell::Cell;

use lsp_types::{Position, Range};
use vhc::textgen::{Case, Corpus, gen_family};
use vhc::{Args, Reporter, Rng, catch, msg_class};

#[allow(dead_code)]
#[path = "/repo/dora-language-server/src/position.rs"]
mod position;

use position::{range_to_span, span_to_range, utf8_offset_to_utf16_position, utf16_position_to_utf8_offset};

fn main() {
    let args = Args::parse();
    vhc::install_panic_hook();
    match args.mode.as_str() {
        "pos" => run_pos(&args),
        "dump" => run_dump(&args),
        m => panic!("unknown mode {}", m),
    }
}

// ------------------------------------------------------------------------------------------------
// Input families

const HOSTILE: &[&str] = &[
    "",
    "\r",
    "\n",
    "\r\n",
    "\n\r",
    "\r\r",
    "\r\r\n",
    "\r\n\r",
    "\r\n\r\n",
    "\n\n",
    "a",
    "a\r",
    "a\n",
    "a\r\n",
    "a\r\nb",
    "a\rb",
    "a\nb",
    "😀",
    "😀\r\n",
    "😀\r",
    "😀\n😀",
    "\r\n😀",
    "a😀\r\n😀b\r😀\n",
    "😀😀😀",
    "𝒳𝒳\r\n𝒳",
    "\u{10FFFF}\r\n\u{10000}",
    "\u{FFFF}\u{10000}\u{FFFF}",
    "\u{feff}",
    "\u{feff}\r\n",
    "\u{feff}fn main() {}\r\n",
    "\u{feff}😀\r\n\u{feff}",
    "fn main() {}",
    "fn main() {}\n",
    "fn main() {}\r\n",
    "fn main() {}\r",
    "fn f😀() {}\r\nenum E { A { x: Int32 } }",
    "e\u{0301}\r\ne\u{0301}",
    "\u{2028}\u{2029}\u{85}\u{0b}\u{0c}",
    "a\u{2028}b\r\nc\u{85}d",
    "\0\r\n\0",
    "ä€中😀\rä€中😀\nä€中😀\r\nä€中😀",
    "\r\n\r\n\r\n",
    "\r\r\r",
    "\n\r\n\r",
    "x\r\n",
    "\t😀\t\r\n\t",
];

const PIECES: &[&str] = &[
    "a", "b", " ", "\t", "\r", "\n", "\r\n", "\r", "\n", "\r\n", "😀", "𝒳", "\u{10FFFF}", "\u{10000}", "€", "ä", "中",
    "\u{feff}", "\u{0301}", "\u{2028}", "\u{85}", "\0", "\u{FFFF}", "\u{D7FF}", "\u{E000}", "fn", "{", "}", "\"", "//",
];

fn poshostile(rng: &mut Rng) -> String {
    let big = rng.chance(1, 6);
    let n = rng.below(if big { 300 } else { 40 });
    let mut s = String::new();
    for _ in 0..n {
        s.push_str(rng.pick_str(PIECES));
    }
    s
}

fn longline(rng: &mut Rng) -> String {
    let n = 5_000 + rng.below(35_000);
    let mut s = String::with_capacity(n * 2);
    let brk = if rng.chance(1, 2) { 0 } else { 1 + rng.below(4) };
    for i in 0..n {
        match rng.below(40) {
            0 => s.push('😀'),
            1 => s.push('€'),
            2 => s.push('ä'),
            3 => s.push('\u{10FFFF}'),
            _ => s.push((b'a' + (i % 26) as u8) as char),
        }
        if brk > 0 && rng.below(n / brk + 1) == 0 {
            s.push_str(rng.pick_str(&["\n", "\r\n", "\r"]));
        }
    }
    match rng.below(4) {
        0 => s.push('\n'),
        1 => s.push_str("\r\n"),
        2 => s.push('\r'),
        _ => {}
    }
    s
}

const IDENTS: &[&str] = &["Foo", "bar", "x", "Bäz", "名前", "q😀", "𝒳y", "e\u{0301}", "A1", "ß", "Z_z", "k\u{200b}"];
const TYPES: &[&str] = &["Int32", "Int64", "String", "Bool", "Foo", "Array[Int32]", "(Int32, Bool)", "Option[名前]"];

/// Declaration-rich documents: every element kind the symbol extraction knows, with multi-byte / astral
/// identifiers, comments that shift columns, and mixed line endings.
fn symgen(rng: &mut Rng) -> String {
    fn nl(rng: &mut Rng, style: usize) -> &'static str {
        match style {
            0 => "\n",
            1 => "\r\n",
            2 => "\r",
            _ => *rng.pick(&["\n", "\r\n", "\r", " ", "\n\n", "\r\n\r\n"]),
        }
    }
    fn ident(rng: &mut Rng) -> String {
        rng.pick_str(IDENTS).to_string()
    }
    fn pad(rng: &mut Rng) -> &'static str {
        *rng.pick(&["", "", " ", "/* 😀 */ ", "/* ä€ */", "\t", "  "])
    }
    fn fields(rng: &mut Rng, style: usize, named: bool) -> String {
        let n = rng.below(4);
        let mut s = String::new();
        for i in 0..n {
            if i > 0 {
                s.push_str(",");
                s.push_str(nl(rng, style));
            }
            s.push_str(pad(rng));
            if named {
                s.push_str(&format!("{}{}: {}", if rng.chance(1, 4) { "pub " } else { "" }, ident(rng), rng.pick_str(TYPES)));
            } else {
                s.push_str(rng.pick_str(TYPES));
            }
        }
        if n > 0 && rng.chance(1, 3) {
            s.push(',');
        }
        s
    }
    fn item(rng: &mut Rng, style: usize, depth: usize, out: &mut String) {
        out.push_str(pad(rng));
        if rng.chance(1, 6) {
            out.push_str("// cömment 😀");
            out.push_str(if style == 2 { "\r" } else if style == 1 { "\r\n" } else { "\n" });
        }
        if rng.chance(1, 5) {
            out.push_str("pub ");
        }
        match rng.below(13) {
            0 => out.push_str(&format!("fn {}({}) {{{}}}", ident(rng), fields(rng, style, true), nl(rng, style))),
            1 => out.push_str(&format!("struct {} {{{}{}{}}}", ident(rng), nl(rng, style), fields(rng, style, true), nl(rng, style))),
            2 => out.push_str(&format!("class {} {{{}{}{}}}", ident(rng), nl(rng, style), fields(rng, style, true), nl(rng, style))),
            3 => out.push_str(&format!("struct {}({})", ident(rng), fields(rng, style, false))),
            4 => {
                out.push_str(&format!("enum {} {{{}", ident(rng), nl(rng, style)));
                let n = rng.below(5);
                for _ in 0..n {
                    out.push_str(pad(rng));
                    out.push_str(&ident(rng));
                    match rng.below(3) {
                        0 => {}
                        1 => out.push_str(&format!("({})", fields(rng, style, false))),
                        _ => out.push_str(&format!(" {{{}{}{}}}", nl(rng, style), fields(rng, style, true), nl(rng, style))),
                    }
                    out.push(',');
                    out.push_str(nl(rng, style));
                }
                out.push('}');
            }
            5 | 6 if depth < 3 => {
                let head = match rng.below(4) {
                    0 => format!("trait {} {{", ident(rng)),
                    1 => format!("impl {} for {} {{", ident(rng), rng.pick_str(TYPES)),
                    2 => format!("impl[T] {} {{", rng.pick_str(TYPES)),
                    _ => format!("mod {} {{", ident(rng)),
                };
                out.push_str(&head);
                out.push_str(nl(rng, style));
                let n = rng.below(4);
                for _ in 0..n {
                    item(rng, style, depth + 1, out);
                }
                out.push('}');
            }
            7 => out.push_str(&format!("const {}: Int32 = 1;", ident(rng))),
            8 => out.push_str(&format!("let mut {}: {} = \"ä😀\";", ident(rng), rng.pick_str(TYPES))),
            9 => out.push_str(&format!("type {} = {};", ident(rng), rng.pick_str(TYPES))),
            10 => out.push_str(&format!("mod {};", ident(rng))),
            11 => out.push_str(&format!("use {}::{};", ident(rng), ident(rng))),
            _ => out.push_str(&format!("fn {}();", ident(rng))),
        }
        out.push_str(nl(rng, style));
    }
    let style = rng.below(4);
    let mut s = String::new();
    if rng.chance(1, 10) {
        s.push('\u{feff}');
    }
    let n = 1 + rng.below(8);
    for _ in 0..n {
        item(rng, style, 0, &mut s);
    }
    if rng.chance(1, 3) {
        while s.ends_with('\n') || s.ends_with('\r') {
            s.pop();
        }
    }
    s
}

/// Families of the in-process part (round-robin by case index).
const POS_FAMILIES: &[&str] = &[
    "hostile", "poshostile", "line-endings", "multibyte", "utf8-random", "corpus-crlf", "corpus", "symgen", "poshostile",
    "line-endings", "multibyte", "utf8-random", "corpus-crlf", "tok-replace", "truncate", "soup",
];

/// Families sent through the real server.
const SRV_FAMILIES: &[&str] = &[
    "corpus", "corpus-crlf", "symgen", "line-endings", "multibyte", "tok-delete", "corpus", "symgen", "tok-replace",
    "tok-insert", "chunk-delete", "truncate", "splice", "hostile", "poshostile", "delim-flip",
];

fn make_case(c: &Corpus, seed: u64, idx: u64, fams: &[&str], stream: u64) -> Case {
    let mut rng = Rng::new(seed, stream, idx);
    let round = idx / fams.len() as u64;
    let mut fam = fams[(idx as usize) % fams.len()];
    if fam == "soup" && round % 4 == 0 {
        fam = "longline";
    }
    let own = |family: &str, text: String| Case { family: family.to_string(), text, base: None };
    match fam {
        "hostile" => {
            if (round as usize) < HOSTILE.len() {
                own(fam, HOSTILE[round as usize].to_string())
            } else {
                own("poshostile", poshostile(&mut rng))
            }
        }
        "poshostile" => own(fam, poshostile(&mut rng)),
        "longline" => own(fam, longline(&mut rng)),
        "symgen" => own(fam, symgen(&mut rng)),
        // textgen walks the corpus by idx / 16
        "corpus" => {
            let slot = (idx as usize) % fams.len();
            let per_round = fams.iter().filter(|f| **f == "corpus").count() as u64;
            let ordinal = fams[..slot].iter().filter(|f| **f == "corpus").count() as u64;
            gen_family(c, &mut rng, fam, (round * per_round + ordinal) * 16)
        }
        _ => gen_family(c, &mut rng, fam, idx),
    }
}

// ------------------------------------------------------------------------------------------------
// Reference model (independent of compute_line_starts / encode_utf16): one pass over the characters.
// Line breaks are \n, \r\n and a lone \r (LSP 3.17 "Text Documents": EOL = '\n' | '\r\n' | '\r').

#[derive(Clone, Copy, Debug)]
struct RefLine {
    start: usize,
    content_end: usize, // before the terminator
    next_start: usize,  // after the terminator (== len for the last line)
}

struct RefModel {
    /// (line, utf16 column) for every byte offset on a char boundary, None elsewhere; len + 1 entries
    pos: Vec<Option<(u32, u32)>>,
    lines: Vec<RefLine>,
}

fn u16_units(c: char) -> u32 {
    if (c as u32) >= 0x1_0000 { 2 } else { 1 }
}

fn ref_model(text: &str) -> RefModel {
    let n = text.len();
    let mut pos = vec![None; n + 1];
    let mut lines = vec![];
    let (mut line, mut col, mut start) = (0u32, 0u32, 0usize);
    let cs: Vec<(usize, char)> = text.char_indices().collect();
    let mut k = 0;
    while k < cs.len() {
        let (i, c) = cs[k];
        pos[i] = Some((line, col));
        if c == '\n' {
            lines.push(RefLine { start, content_end: i, next_start: i + 1 });
            line += 1;
            col = 0;
            start = i + 1;
        } else if c == '\r' {
            if k + 1 < cs.len() && cs[k + 1].1 == '\n' {
                // the offset between \r and \n is still on the old line, one unit after the \r
                pos[i + 1] = Some((line, col + 1));
                lines.push(RefLine { start, content_end: i, next_start: i + 2 });
                k += 1;
                start = i + 2;
            } else {
                lines.push(RefLine { start, content_end: i, next_start: i + 1 });
                start = i + 1;
            }
            line += 1;
            col = 0;
        } else {
            col += u16_units(c);
        }
        k += 1;
    }
    pos[n] = Some((line, col));
    lines.push(RefLine { start, content_end: n, next_start: n });
    RefModel { pos, lines }
}

/// What a (line, column) position may map to according to the reference.
enum Expect {
    Exact(usize),
    /// column inside a surrogate pair: either side of that character
    Either(usize, usize),
    /// column past the end of the line: anywhere from the end of the content to the start of the next line
    Clamp(usize, usize),
}

fn ref_offset(text: &str, m: &RefModel, line: u32, col: u32) -> Expect {
    if line as usize >= m.lines.len() {
        return Expect::Exact(text.len());
    }
    let l = m.lines[line as usize];
    let mut u = 0u64;
    let mut off = l.start;
    for c in text[l.start..l.content_end].chars() {
        if u == col as u64 {
            return Expect::Exact(off);
        }
        let w = u16_units(c) as u64;
        if (col as u64) < u + w {
            return Expect::Either(off, off + c.len_utf8());
        }
        u += w;
        off += c.len_utf8();
    }
    if u == col as u64 { Expect::Exact(l.content_end) } else { Expect::Clamp(l.content_end, l.next_start) }
}

// ------------------------------------------------------------------------------------------------

#[derive(Default)]
struct Tally {
    offsets: u64,
    positions: u64,
    between_crlf: u64,
    astral_offsets: u64,
    inside_pair: u64,
    past_eol: u64,
    past_eof: u64,
    spans: u64,
}

fn check_text(text: &str, rng: &mut Rng, t: &mut Tally) -> Vec<(String, String)> {
    let mut bad: Vec<(String, String)> = vec![];
    let n = text.len();
    let m = ref_model(text);
    let ls = match catch(|| dora_parser::compute_line_starts(text)) {
        Ok(v) => v,
        Err(p) => {
            bad.push((format!("panic@{}:{}", p.loc, msg_class(&p.msg)), format!("compute_line_starts panicked: {}", p.msg)));
            return bad;
        }
    };
    let ref_starts: Vec<u32> = m.lines.iter().map(|l| l.start as u32).collect();
    if ls != ref_starts {
        bad.push(("c20:line-starts-vs-reference".into(), format!("compute_line_starts {:?} != reference {:?}", &ls[..ls.len().min(12)], &ref_starts[..ref_starts.len().min(12)])));
        return bad;
    }

    // ---- offsets
    let all = n <= 6000;
    let mut offs: Vec<usize> = vec![];
    if all {
        offs.extend((0..=n).filter(|&o| text.is_char_boundary(o)));
    } else {
        offs.push(0);
        offs.push(n);
        for _ in 0..700 {
            let mut o = rng.below(n + 1);
            while !text.is_char_boundary(o) {
                o -= 1;
            }
            offs.push(o);
        }
        let mut special = 0;
        for (i, c) in text.char_indices() {
            if c == '\n' || c == '\r' || (c as u32) >= 0x1_0000 {
                offs.push(i);
                offs.push(i + c.len_utf8());
                special += 1;
                if special > 700 {
                    break;
                }
            }
        }
        // the last line matters
        let l = m.lines[m.lines.len() - 1];
        offs.push(l.start);
        let mut k = 0;
        for (i, _) in text[l.start..].char_indices().rev() {
            offs.push(l.start + i);
            k += 1;
            if k > 8 {
                break;
            }
        }
        offs.sort();
        offs.dedup();
    }
    let cur = Cell::new(0usize);
    let mut sub: Vec<(String, String)> = vec![];
    let r = catch(|| {
        for &o in &offs {
            cur.set(o);
            let p = utf8_offset_to_utf16_position(text, &ls, o as u32);
            let want = m.pos[o].unwrap();
            if (p.line, p.character) != want && sub.len() < 3 {
                sub.push(("c20:position-vs-reference".into(), format!("offset {}: utf8_offset_to_utf16_position = ({}, {}), reference (line, utf16 column) = {:?}", o, p.line, p.character, want)));
            }
            let back = utf16_position_to_utf8_offset(text, &ls, p);
            if back as usize != o && sub.len() < 3 {
                let between = o > 0 && o < n && text.as_bytes()[o - 1] == b'\r' && text.as_bytes()[o] == b'\n';
                sub.push((
                    if between { "c20:roundtrip:between-cr-lf".into() } else { "c20:roundtrip".into() },
                    format!("offset {} -> position ({}, {}) -> offset {}", o, p.line, p.character, back),
                ));
            }
        }
    });
    for &o in &offs {
        t.offsets += 1;
        if o > 0 && o < n && text.as_bytes()[o - 1] == b'\r' && text.as_bytes()[o] == b'\n' {
            t.between_crlf += 1;
        }
        if o >= 4 && text.is_char_boundary(o - 4) && text[o - 4..o].chars().count() == 1 {
            t.astral_offsets += 1;
        }
    }
    bad.append(&mut sub);
    if let Err(p) = r {
        bad.push((
            format!("panic@{}:{}", p.loc, msg_class(&p.msg)),
            format!("offset -> position -> offset panicked for char-boundary offset {} of a {}-byte text: {}", cur.get(), n, p.msg),
        ));
    }

    // ---- (line, column) grid
    let nl = m.lines.len();
    let mut lines: Vec<u32> = vec![];
    if nl <= 48 {
        lines.extend(0..nl as u32);
    } else {
        lines.extend([0u32, 1, nl as u32 - 2, nl as u32 - 1]);
        for _ in 0..40 {
            lines.push(rng.below(nl) as u32);
        }
    }
    lines.extend([nl as u32, nl as u32 + 1, nl as u32 + 1000, u32::MAX - 1, u32::MAX]);
    lines.sort();
    lines.dedup();
    let mut grid: Vec<(u32, u32)> = vec![];
    for &line in &lines {
        let mut cols: Vec<u32> = vec![0, 1, 2, 3, 1000, 65_535, 65_536, i32::MAX as u32, u32::MAX - 1, u32::MAX];
        if (line as usize) < nl {
            let l = m.lines[line as usize];
            let (_, endcol) = m.pos[l.content_end].unwrap();
            for d in 0..4u32 {
                cols.push(endcol.saturating_sub(d));
                cols.push(endcol + d);
            }
            for _ in 0..6 {
                cols.push(rng.below(endcol as usize + 4) as u32);
            }
            // columns inside surrogate pairs
            let mut k = 0;
            for (i, c) in text[l.start..l.content_end].char_indices() {
                if (c as u32) >= 0x1_0000 {
                    let (_, col) = m.pos[l.start + i].unwrap();
                    cols.extend([col, col + 1, col + 2]);
                    k += 1;
                    if k >= 6 {
                        break;
                    }
                }
            }
        }
        cols.sort();
        cols.dedup();
        for c in cols {
            grid.push((line, c));
        }
    }
    let curp = Cell::new((0u32, 0u32));
    let mut sub: Vec<(String, String)> = vec![];
    let mut tally = (0u64, 0u64, 0u64, 0u64);
    let r = catch(|| {
        let mut prev: Option<((u32, u32), u32)> = None;
        for &(line, col) in &grid {
            curp.set((line, col));
            let got = utf16_position_to_utf8_offset(text, &ls, Position::new(line, col)) as usize;
            tally.0 += 1;
            let mut push = |key: &str, what: String| {
                if sub.len() < 4 {
                    sub.push((key.to_string(), format!("position ({}, {}) -> offset {} of a {}-byte, {}-line text: {}", line, col, got, n, nl, what)));
                }
            };
            if got > n {
                push("c20:clamp:beyond-document", "result lies beyond the end of the document".into());
            } else if !text.is_char_boundary(got) {
                push("c20:clamp:not-char-boundary", "result is not on a character boundary".into());
            } else {
                match ref_offset(text, &m, line, col) {
                    Expect::Exact(e) => {
                        if line as usize >= nl {
                            tally.3 += 1;
                            if got != e {
                                push("c20:clamp:line-past-end", format!("a line past the last line must map to the document end {}", e));
                            }
                        } else if got != e {
                            push("c20:offset-vs-reference", format!("reference says {}", e));
                        }
                    }
                    Expect::Either(a, b) => {
                        tally.1 += 1;
                        if got != a && got != b {
                            push("c20:offset-vs-reference:inside-surrogate-pair", format!("column is inside a surrogate pair; reference allows {} or {}", a, b));
                        }
                    }
                    Expect::Clamp(a, b) => {
                        tally.2 += 1;
                        if got < a || got > b {
                            push("c20:clamp:outside-line", format!("column past the end of the line must be clamped into {}..={} (end of line content .. start of next line)", a, b));
                        }
                    }
                }
            }
            if let Some((pp, po)) = prev {
                if (got as u32) < po {
                    push("c20:not-monotone", format!("previous position ({}, {}) mapped to the larger offset {}", pp.0, pp.1, po));
                }
            }
            prev = Some(((line, col), got as u32));
        }
    });
    t.positions += tally.0;
    t.inside_pair += tally.1;
    t.past_eol += tally.2;
    t.past_eof += tally.3;
    bad.append(&mut sub);
    if let Err(p) = r {
        let (l, c) = curp.get();
        bad.push((
            format!("panic@{}:{}", p.loc, msg_class(&p.msg)),
            format!("utf16_position_to_utf8_offset panicked for position ({}, {}) of a {}-byte, {}-line text: {}", l, c, n, nl, p.msg),
        ));
    }

    // ---- spans <-> ranges (pairs of char-boundary offsets)
    let mut sub: Vec<(String, String)> = vec![];
    let cspan = Cell::new((0usize, 0usize));
    let r = catch(|| {
        for _ in 0..24 {
            let a = offs[rng.below(offs.len())];
            let b = offs[rng.below(offs.len())];
            let (a, b) = (a.min(b), a.max(b));
            cspan.set((a, b));
            let span = dora_parser::Span::new(a as u32, (b - a) as u32);
            let range: Range = span_to_range(text, &ls, span);
            let (ra, rb) = (m.pos[a].unwrap(), m.pos[b].unwrap());
            if ((range.start.line, range.start.character), (range.end.line, range.end.character)) != (ra, rb) && sub.len() < 2 {
                sub.push(("c20:span-to-range-vs-reference".into(), format!("span {}..{} -> range {:?}, reference {:?}..{:?}", a, b, range, ra, rb)));
            }
            let back = range_to_span(text, &ls, range);
            if (back.start() as usize, back.end() as usize) != (a, b) && sub.len() < 2 {
                sub.push(("c20:roundtrip:span-range".into(), format!("span {}..{} -> range {:?} -> span {}..{}", a, b, range, back.start(), back.end())));
            }
            t.spans += 1;
        }
    });
    bad.append(&mut sub);
    if let Err(p) = r {
        let (a, b) = cspan.get();
        bad.push((format!("panic@{}:{}", p.loc, msg_class(&p.msg)), format!("span_to_range/range_to_span panicked for span {}..{}: {}", a, b, p.msg)));
    }
    bad
}

fn run_pos(args: &Args) {
    let corpus = Corpus::load(args.extra.as_deref());
    let mut rep = Reporter::new(args);
    for idx in args.indices() {
        let case = make_case(&corpus, args.seed, idx, POS_FAMILIES, 0x20a);
        rep.begin_case(idx, case.text.as_bytes());
        rep.count("texts", 1);
        rep.count(&format!("family:{}", case.family), 1);
        let mut rng = Rng::new(args.seed, 0x20b, idx);
        let mut t = Tally::default();
        let text = case.text.as_str();
        let bad = match catch(|| check_text(text, &mut rng, &mut t)) {
            Ok(b) => b,
            Err(p) => vec![(format!("panic@{}:{}", p.loc, msg_class(&p.msg)), format!("panicked: {}", p.msg))],
        };
        rep.count("offsets_checked", t.offsets);
        rep.count("offsets_between_cr_and_lf", t.between_crlf);
        rep.count("offsets_after_astral_char", t.astral_offsets);
        rep.count("positions_checked", t.positions);
        rep.count("positions_inside_surrogate_pair", t.inside_pair);
        rep.count("positions_past_end_of_line", t.past_eol);
        rep.count("positions_past_last_line", t.past_eof);
        rep.count("span_range_roundtrips", t.spans);
        let snip: String = if idx < 64 { case.text.chars().take(120).collect() } else { String::new() };
        rep.line(vhc::json!({"t": "ok", "idx": idx, "h": vhc::fnv(case.text.as_bytes()), "fam": case.family, "snip": snip,
            "len": case.text.len()}));
        for (key, what) in bad {
            rep.bad(idx, &key, &what, &case.text, &case.family);
        }
    }
    rep.finish();
}

/// dump: write this shard's generated server texts to <out>/<idx>.dora and one index line each.
fn run_dump(args: &Args) {
    let corpus = Corpus::load(args.extra.as_deref());
    let mut rep = Reporter::new(args);
    let maxlen: usize = args.get("maxlen").map(|s| s.parse().unwrap()).unwrap_or(48 * 1024);
    for idx in args.indices() {
        let case = make_case(&corpus, args.seed, idx, SRV_FAMILIES, 0x20c);
        if case.text.len() > maxlen {
            rep.count("skipped_too_long", 1);
            continue;
        }
        let name = format!("{}.dora", idx);
        std::fs::write(args.out.join(&name), case.text.as_bytes()).unwrap();
        let base = case.base.map(|b| corpus.files[b].display().to_string());
        rep.line(vhc::json!({"t": "ok", "idx": idx, "h": vhc::fnv(case.text.as_bytes()), "fam": case.family, "file": name, "base": base}));
    }
    rep.finish();
}
