//! waitq: C09 at primitive level -- the lock-word protocol of pkgs/std/thread.dora transcribed as the DRIVER
//! only, calling the REAL natives (mutex_wait/mutex_notify/condition_enqueue/condition_block_after_enqueue/
//! condition_wakeup_one/all) on fake managed objects, while a null collector RELOCATES those objects through the
//! real root enumeration (handles + wait-list keys) in the middle of waits.
use std::cell::UnsafeCell;
use std::sync::Arc;
use std::sync::atomic::{AtomicI32, AtomicUsize, Ordering};

use dora_runtime::verif::{self, *};

use crate::{Params, harness_violation, mix, print_counters, rng, start_deadlock_monitor};

const UNLOCKED: i32 = 0;
const LOCKED: i32 = 1;
const LOCKED_CONTENDED: i32 = 2;
const OBJ_WORDS: usize = 4;
const POISON: u64 = 0xDEAD_DEAD_DEAD_DEAD;

#[derive(Clone, Copy)]
struct H(Address); // location of a handle slot (in the main thread's handle memory)
unsafe impl Send for H {}
unsafe impl Sync for H {}

impl H {
    fn mutex(self) -> Handle<ManagedMutex> {
        Handle::from_address(self.0)
    }
    fn cond(self) -> Handle<ManagedCondition> {
        Handle::from_address(self.0)
    }
    fn obj(self) -> Handle<dora_runtime::Object> {
        Handle::from_address(self.0)
    }
    /// The lock word / waiter word of the object the handle currently points to. Never kept across a poll.
    fn word(self) -> &'static AtomicI32 {
        let obj: Address = unsafe { *self.0.to_ptr::<Address>() };
        let w = unsafe { *obj.to_ptr::<u64>() };
        if w == POISON {
            harness_violation("C09", EXIT_C09_WAITLIST, "a handle points to an object that was moved away (stale reference after relocation)");
        }
        unsafe { &*obj.offset(8).to_ptr::<AtomicI32>() }
    }
}

fn new_object() -> Address {
    let b: *mut [u64; OBJ_WORDS] = Box::into_raw(Box::new([0u64; OBJ_WORDS]));
    unsafe { (*b)[0] = 0x0B1E_C700 }; // fake header word
    Address::from_ptr(b as *const u64)
}

static RELOCATIONS: AtomicUsize = AtomicUsize::new(0);
static RELOCATED_WAITLIST_KEYS: AtomicUsize = AtomicUsize::new(0);
static COLLECTIONS: AtomicUsize = AtomicUsize::new(0);

/// The null collector's "collection": move every object that is reachable from a root and fix the roots.
fn collect_cb(rt: &Runtime, threads: &[Arc<DoraThread>]) {
    COLLECTIONS.fetch_add(1, Ordering::Relaxed);
    let mut forwarding: Vec<(Address, Address)> = Vec::new();
    let mut slots: Vec<Slot> = Vec::new();
    verif::iterate_roots(rt, threads, |slot| slots.push(slot));
    for slot in slots {
        let old = slot.get();
        if old.is_null() {
            continue;
        }
        let new = if let Some((_, n)) = forwarding.iter().find(|(o, _)| *o == old) {
            *n
        } else {
            let n = new_object();
            unsafe {
                std::ptr::copy_nonoverlapping(old.to_ptr::<u64>(), n.to_mut_ptr::<u64>(), OBJ_WORDS);
            }
            forwarding.push((old, n));
            RELOCATIONS.fetch_add(1, Ordering::Relaxed);
            n
        };
        slot.relocate(new);
    }
    // poison the old copies: any later use through a stale pointer is caught
    for (old, _) in &forwarding {
        unsafe {
            for i in 0..OBJ_WORDS {
                *old.to_mut_ptr::<u64>().add(i) = POISON;
            }
        }
    }
    RELOCATED_WAITLIST_KEYS.fetch_add(0, Ordering::Relaxed);
}

fn poll() {
    let t = current_thread();
    if t.tld.state.load(Ordering::Relaxed) != ThreadState::Running as u8 {
        safepoint_slow();
    }
}

// ---- transcription of pkgs/std/thread.dora (driver only) ------------------------------------------------
fn cas(w: &AtomicI32, expected: i32, value: i32) -> i32 {
    match w.compare_exchange(expected, value, Ordering::SeqCst, Ordering::SeqCst) {
        Ok(v) => v,
        Err(v) => v,
    }
}

fn lock_op(m: H) {
    let previous = cas(m.word(), UNLOCKED, LOCKED);
    if previous != UNLOCKED {
        assert!(previous == LOCKED || previous == LOCKED_CONTENDED);
        lock_slow(m);
    }
}

fn lock_slow(m: H) {
    let mut locked = false;
    while !locked {
        poll();
        if cas(m.word(), LOCKED, LOCKED_CONTENDED) != UNLOCKED {
            mutex_wait(m.mutex(), LOCKED_CONTENDED);
        }
        let previous = cas(m.word(), UNLOCKED, LOCKED_CONTENDED);
        locked = previous == UNLOCKED;
    }
}

fn unlock_op(m: H) {
    let previous = m.word().swap(UNLOCKED, Ordering::SeqCst);
    if previous != LOCKED {
        assert_eq!(previous, LOCKED_CONTENDED);
        mutex_notify(m.mutex());
    }
}

fn cond_wait(c: H, m: H) {
    condition_enqueue(c.cond());
    unlock_op(m);
    condition_block_after_enqueue(c.obj());
    lock_op(m);
}

fn cond_notify_one(c: H) {
    if c.word().load(Ordering::SeqCst) == 0 {
        return;
    }
    condition_wakeup_one(c.obj());
}

fn cond_notify_all(c: H) {
    if c.word().load(Ordering::SeqCst) == 0 {
        return;
    }
    c.word().store(0, Ordering::SeqCst);
    condition_wakeup_all(c.obj());
}

// ---- shared state protected by the mutex (plain memory: overlap of critical sections is a data race) -----
struct Shared {
    owner: u64,
    counter: u64,
    queue: Vec<u64>,
    cap: usize,
    produced: u64,
    consumed: Vec<u64>,
    done_producers: usize,
    generation: u64,
    arrived: usize,
}
struct SharedCell(UnsafeCell<Shared>);
unsafe impl Sync for SharedCell {}

fn critical<R>(sh: &SharedCell, tid: u64, f: impl FnOnce(&mut Shared) -> R) -> R {
    let s = unsafe { &mut *sh.0.get() };
    if s.owner != 0 {
        harness_violation("C09", EXIT_C09_WAITLIST, &format!("two critical sections of one mutex overlap (owner {} while {} enters)", s.owner, tid));
    }
    s.owner = tid;
    verif::point(70);
    let r = f(s);
    if s.owner != tid {
        harness_violation("C09", EXIT_C09_WAITLIST, &format!("critical section of {} was entered by {}", tid, s.owner));
    }
    s.owner = 0;
    r
}

pub fn run(p: &Params) {
    verif::configure_perturb(p.seed, p.perturb);
    let rt: &'static Runtime = Box::leak(verif::new_runtime());
    set_runtime(rt);
    verif::set_collect_callback(collect_cb);
    start_deadlock_monitor("C09");
    let main_thread = DoraThread::new(rt, ThreadState::Running);
    init_current_thread(main_thread.clone());
    rt.threads.add_main_thread(main_thread.clone());
    verif::thread_registered();

    // objects live behind handles of the main thread (roots), as a program's locals would
    let mk = |_: usize| -> H {
        let obj = new_object();
        let r: dora_runtime::Ref<dora_runtime::Object> = obj.into();
        H(main_thread.handles.create_handle(r).location())
    };
    let mtx = mk(0);
    let not_full = mk(1);
    let not_empty = mk(2);
    let barrier_cv = mk(3);
    let shared: &'static SharedCell = Box::leak(Box::new(SharedCell(UnsafeCell::new(Shared {
        owner: 0,
        counter: 0,
        queue: Vec::new(),
        cap: 2,
        produced: 0,
        consumed: Vec::new(),
        done_producers: 0,
        generation: 0,
        arrived: 0,
    }))));

    // ---- prologue: many wait queues at once -----------------------------------------------------------------------
    // K threads each wait on their OWN condition (K + K distinct keys in the wait table, so the table grows beyond its
    // minimal capacity); the objects are relocated while everybody is queued and notify_all is the FIRST wait-table
    // operation after the collection. Every waiter must wake up (no lost wake-up after rehashing).
    {
        let k = 6 + (p.seed as usize % 9);
        let pairs: Vec<(H, H)> = (0..k).map(|i| (mk(10 + 2 * i), mk(11 + 2 * i))).collect();
        struct Flags(Vec<UnsafeCell<bool>>);
        unsafe impl Sync for Flags {}
        let flags: &'static Flags = Box::leak(Box::new(Flags((0..k).map(|_| UnsafeCell::new(false)).collect())));
        let mut helpers = Vec::new();
        for i in 0..k {
            let th = DoraThread::new(rt, ThreadState::Parked);
            verif::thread_registered();
            rt.threads.add_thread(th.clone());
            helpers.push(th.clone());
            let (m, c) = pairs[i];
            std::thread::spawn(move || {
                let t = init_current_thread(th);
                t.unpark(rt);
                lock_op(m);
                while !unsafe { *flags.0[i].get() } {
                    cond_wait(c, m);
                }
                unlock_op(m);
                rt.threads.remove_current_thread();
                t.stop();
                verif::thread_finished();
                deinit_current_thread();
            });
        }
        // wait until every helper is queued on its condition (enqueue sets the waiter word)
        loop {
            poll();
            if pairs.iter().all(|(_, c)| c.word().load(Ordering::SeqCst) != 0) {
                break;
            }
            parked_scope(|| std::thread::yield_now());
        }
        verif::force_collect(rt); // relocates all mutex/condition objects; wait-table keys are updated in place
        for (i, (m, c)) in pairs.iter().enumerate() {
            if p.seed % 2 == 0 {
                // notify_all first, flag under the mutex afterwards would lose the wake-up legitimately: set flag first
                lock_op(*m);
                unsafe { *flags.0[i].get() = true };
                unlock_op(*m);
                cond_notify_all(*c);
            } else {
                lock_op(*m);
                unsafe { *flags.0[i].get() = true };
                cond_notify_all(*c);
                unlock_op(*m);
            }
        }
        for th in &helpers {
            th.join();
        }
        rt.wait_lists.verif_check();
    }

    let nthreads = p.threads.max(2);
    let producers = (nthreads + 1) / 2;
    let consumers = nthreads - producers;
    let items_per_producer = p.ops as u64;
    static FINISHED: AtomicUsize = AtomicUsize::new(0);
    let mut spawned = 0usize;
    let mut threads = Vec::new();
    for i in 0..nthreads {
        let th = DoraThread::new(rt, ThreadState::Parked);
        verif::thread_registered();
        rt.threads.add_thread(th.clone());
        threads.push(th.clone());
        spawned += 1;
        let seed = mix(p.seed, i as u64 + 1);
        let is_producer = i < producers;
        let tid = i as u64 + 1;
        let all = nthreads;
        std::thread::spawn(move || {
            let t = init_current_thread(th);
            t.unpark(rt);
            let mut s = seed;
            // phase 1: plain counter under the mutex
            for _ in 0..items_per_producer {
                poll();
                lock_op(mtx);
                critical(shared, tid, |sh| sh.counter += 1);
                unlock_op(mtx);
                if rng(&mut s) % 4 == 0 {
                    verif::point(71);
                }
            }
            // phase 2: barrier built from mutex + condition (notify_all): all threads meet
            lock_op(mtx);
            let my_gen = critical(shared, tid, |sh| {
                sh.arrived += 1;
                if sh.arrived == all {
                    sh.arrived = 0;
                    sh.generation += 1;
                    u64::MAX
                } else {
                    sh.generation
                }
            });
            if my_gen == u64::MAX {
                cond_notify_all(barrier_cv);
            } else {
                loop {
                    let now = critical(shared, tid, |sh| sh.generation);
                    if now != my_gen {
                        break;
                    }
                    cond_wait(barrier_cv, mtx);
                }
            }
            unlock_op(mtx);
            // phase 3: bounded queue with two conditions, unique values (tid << 32 | seq)
            if is_producer {
                for seq in 0..items_per_producer {
                    poll();
                    lock_op(mtx);
                    loop {
                        let full = critical(shared, tid, |sh| sh.queue.len() >= sh.cap);
                        if !full {
                            break;
                        }
                        cond_wait(not_full, mtx);
                    }
                    critical(shared, tid, |sh| {
                        sh.queue.push(tid << 32 | seq);
                        sh.produced += 1;
                    });
                    unlock_op(mtx);
                    if rng(&mut s) % 2 == 0 { cond_notify_one(not_empty) } else { cond_notify_all(not_empty) };
                    if rng(&mut s) % 8 == 0 {
                        verif::force_collect(rt); // relocates mutex/condition objects while others are queued
                    }
                }
                lock_op(mtx);
                critical(shared, tid, |sh| sh.done_producers += 1);
                unlock_op(mtx);
                cond_notify_all(not_empty);
            } else {
                loop {
                    poll();
                    lock_op(mtx);
                    let got = loop {
                        let st = critical(shared, tid, |sh| {
                            if !sh.queue.is_empty() {
                                Some(Some(sh.queue.remove(0)))
                            } else if sh.done_producers == producers {
                                Some(None)
                            } else {
                                None
                            }
                        });
                        match st {
                            Some(v) => break v,
                            None => cond_wait(not_empty, mtx),
                        }
                    };
                    if let Some(v) = got {
                        critical(shared, tid, |sh| sh.consumed.push(v));
                    }
                    unlock_op(mtx);
                    match got {
                        Some(_) => {
                            if rng(&mut s) % 2 == 0 { cond_notify_one(not_full) } else { cond_notify_all(not_full) };
                            if rng(&mut s) % 16 == 0 {
                                verif::request_collect(rt);
                            }
                        }
                        None => break,
                    }
                }
            }
            rt.threads.remove_current_thread();
            t.stop();
            FINISHED.fetch_add(1, Ordering::Release);
            verif::thread_finished();
            deinit_current_thread();
        });
    }
    let _ = consumers;
    // main: a few collections while the others work, then join everybody with the real join()
    let mut s = mix(p.seed, 999);
    for _ in 0..p.rounds.max(1) {
        poll();
        if rng(&mut s) % 2 == 0 {
            verif::force_collect(rt);
        }
        rt.wait_lists.verif_check();
        parked_scope(|| {
            verif::point(72);
            std::thread::yield_now();
        });
    }
    for th in &threads {
        th.join();
    }
    parked_scope(|| {
        verif::wait_enter(verif::W_HARNESS);
        while FINISHED.load(Ordering::Acquire) < spawned {
            std::thread::yield_now();
        }
        verif::wait_leave(verif::W_HARNESS);
    });
    rt.wait_lists.verif_check();
    // final report: set comparison, no loss, no duplicate, FIFO per producer, counter total
    let sh = unsafe { &mut *shared.0.get() };
    let expect_counter = nthreads as u64 * items_per_producer;
    if sh.counter != expect_counter {
        harness_violation("C09", EXIT_C09_WAITLIST, &format!("counter under mutex is {} after {} increments (lost update)", sh.counter, expect_counter));
    }
    let expect_items = producers as u64 * items_per_producer;
    if consumers > 0 {
        if sh.consumed.len() as u64 != expect_items {
            harness_violation("C09", EXIT_C09_WAITLIST, &format!("{} items consumed, {} produced", sh.consumed.len(), expect_items));
        }
        let mut last = vec![-1i64; nthreads + 2];
        for v in &sh.consumed {
            let (t, q) = ((v >> 32) as usize, (v & 0xffff_ffff) as i64);
            if q <= last[t] {
                harness_violation("C09", EXIT_C09_WAITLIST, &format!("item ({},{}) consumed after ({},{}) -- duplicate or FIFO violation", t, q, t, last[t]));
            }
            last[t] = q;
        }
        let mut sorted = sh.consumed.clone();
        sorted.sort();
        sorted.dedup();
        if sorted.len() != sh.consumed.len() {
            harness_violation("C09", EXIT_C09_WAITLIST, "an item was consumed twice");
        }
    }
    rt.threads.remove_current_thread();
    verif::thread_finished();
    deinit_current_thread();
    print_counters(
        "waitq",
        p,
        &format!(
            ",\"counter\":{},\"consumed\":{},\"relocations\":{},\"collections\":{}",
            sh.counter,
            sh.consumed.len(),
            RELOCATIONS.load(Ordering::Relaxed),
            COLLECTIONS.load(Ordering::Relaxed)
        ),
    );
}
