//! vh-proto: drives the REAL runtime protocol code (stop-the-world / park / unpark / barrier, wait lists +
//! mutex/condition natives, parallel-phase terminator) from scripted threads, under three execution modes:
//! native stress (seeded perturbation at hook points, all-blocked detector), Miri (many seeds, exact deadlock and
//! data-race verdicts), ThreadSanitizer. See /verif/DESIGN.md 2.6, C04, C09, C12.
//!
//! usage: vh-proto <stw|term|waitq> seed=N threads=N ops=N perturb=PERMILLE [shape=N] [items=N] [rounds=N]
//! prints one JSON line per run on stdout; monitors print `VERIF-MONITOR ...` and exit with 94..97.
use std::cell::UnsafeCell;
use std::sync::Arc;
use std::sync::atomic::{AtomicBool, AtomicI32, AtomicIsize, AtomicU64, AtomicUsize, Ordering};

use dora_runtime::verif::{self, *};

mod term;
mod waitq;

pub struct Params {
    pub seed: u64,
    pub threads: usize,
    pub ops: usize,
    pub perturb: u32,
    pub shape: u64,
    pub items: u64,
    pub rounds: usize,
}

fn params() -> (String, Params) {
    let args: Vec<String> = std::env::args().skip(1).collect();
    let mut p = Params { seed: 1, threads: 3, ops: 8, perturb: 300, shape: 0, items: 12, rounds: 1 };
    let mut mode = String::from("stw");
    for a in &args {
        if let Some((k, v)) = a.split_once('=') {
            let n: u64 = v.parse().expect("numeric parameter");
            match k {
                "seed" => p.seed = n,
                "threads" => p.threads = n as usize,
                "ops" => p.ops = n as usize,
                "perturb" => p.perturb = n as u32,
                "shape" => p.shape = n,
                "items" => p.items = n,
                "rounds" => p.rounds = n as usize,
                _ => panic!("unknown parameter {}", k),
            }
        } else {
            mode = a.clone();
        }
    }
    (mode, p)
}

pub fn rng(s: &mut u64) -> u64 {
    *s ^= *s << 13;
    *s ^= *s >> 7;
    *s ^= *s << 17;
    s.wrapping_mul(0x2545F4914F6CDD1D)
}

pub fn mix(seed: u64, k: u64) -> u64 {
    let mut z = seed.wrapping_mul(0x9E3779B97F4A7C15).wrapping_add(k.wrapping_mul(0xBF58476D1CE4E5B9)).wrapping_add(0x94D049BB133111EB);
    z = (z ^ (z >> 30)).wrapping_mul(0xBF58476D1CE4E5B9);
    z = (z ^ (z >> 27)).wrapping_mul(0x94D049BB133111EB);
    (z ^ (z >> 31)) | 1
}

pub fn harness_violation(prop: &str, code: i32, msg: &str) -> ! {
    verif::violation(code, &format!("{} {}", prop, msg))
}

/// Starts the native all-blocked detector (not under Miri: Miri reports deadlocks itself).
pub fn start_deadlock_monitor(what: &'static str) {
    #[cfg(not(miri))]
    {
        std::thread::spawn(move || verif::deadlock_monitor_loop(20, 150, what));
    }
    #[cfg(miri)]
    {
        let _ = what;
    }
}

pub fn print_counters(mode: &str, p: &Params, extra: &str) {
    let mut s = format!("{{\"mode\":\"{}\",\"seed\":{},\"threads\":{},\"ops\":{},\"perturb\":{}{}", mode, p.seed, p.threads, p.ops, p.perturb, extra);
    for (k, v) in verif::counters_snapshot() {
        s.push_str(&format!(",\"{}\":{}", k, v));
    }
    s.push('}');
    println!("{}", s);
}

// =====================================================================================================
// stw: C04 -- no managed thread runs while the world is stopped.

const MAX_SLOTS: usize = 16;
struct Heap([UnsafeCell<u64>; MAX_SLOTS]);
unsafe impl Sync for Heap {}
static HEAP: Heap = Heap([const { UnsafeCell::new(0) }; MAX_SLOTS]);
static MUTATING: [AtomicBool; MAX_SLOTS] = [const { AtomicBool::new(false) }; MAX_SLOTS];
static REGISTERED: [AtomicBool; MAX_SLOTS] = [const { AtomicBool::new(false) }; MAX_SLOTS];
static SLOT_OF_THREAD_ID: [AtomicUsize; 256] = [const { AtomicUsize::new(usize::MAX) }; 256];
static DONE_OPS: AtomicUsize = AtomicUsize::new(0);
static PLANNED_OPS: AtomicUsize = AtomicUsize::new(0);
static STW_REQUESTED: AtomicUsize = AtomicUsize::new(0);
static STW_CLOSURES: AtomicUsize = AtomicUsize::new(0);
static NEXT_SLOT: AtomicUsize = AtomicUsize::new(0);
static SPAWNED: AtomicUsize = AtomicUsize::new(0);
static FINISHED: AtomicUsize = AtomicUsize::new(0);
static IN_CLOSURE: AtomicIsize = AtomicIsize::new(-1);
static JOIN_RESULTS: Heap = Heap([const { UnsafeCell::new(0) }; MAX_SLOTS]);
static ORDER_TICKET: AtomicU64 = AtomicU64::new(0);
static ORDER_HASH: AtomicU64 = AtomicU64::new(0);
static SPAWN_DURING_STW: AtomicUsize = AtomicUsize::new(0);

struct JoinTargets(UnsafeCell<Vec<Option<Arc<DoraThread>>>>);
unsafe impl Sync for JoinTargets {}
static JOIN_TARGETS: parking_lot::Mutex<Vec<(usize, Arc<DoraThread>)>> = parking_lot::Mutex::new(Vec::new());

fn event(kind: u64, slot: usize) {
    // order hash over the global sequence of protocol events (relaxed: adds no synchronisation)
    let t = ORDER_TICKET.fetch_add(1, Ordering::Relaxed);
    let h = (t.wrapping_mul(0x9E3779B97F4A7C15) ^ (kind << 8 | slot as u64)).wrapping_mul(0xBF58476D1CE4E5B9);
    ORDER_HASH.fetch_xor(h.rotate_left((t % 63) as u32), Ordering::Relaxed);
}

fn poll(slot: usize) {
    let t = current_thread();
    if t.tld.state.load(Ordering::Relaxed) != ThreadState::Running as u8 {
        MUTATING[slot].store(false, Ordering::Relaxed);
        event(1, slot);
        safepoint_slow();
        verif::mutator_check("after poll");
        MUTATING[slot].store(true, Ordering::Relaxed);
    }
}

fn mutate(slot: usize, v: u64) {
    // the "managed heap": plain non-atomic cells. A protocol error that lets a mutator overlap with a
    // stop-the-world operation is a data race here (Miri/TSan) and trips the MUTATING flags natively.
    if IN_CLOSURE.load(Ordering::Relaxed) >= 0 {
        harness_violation("C04", EXIT_C04, &format!("mutator in slot {} touches the heap while a stop-the-world closure runs", slot));
    }
    unsafe {
        let c = HEAP.0[slot].get();
        *c = (*c).wrapping_add(v);
    }
}

fn stw_closure(slot: usize, threads: &[Arc<DoraThread>]) {
    let prev = IN_CLOSURE.swap(slot as isize, Ordering::Relaxed);
    if prev != -1 {
        harness_violation("C04", EXIT_C04, &format!("two stop-the-world closures overlap (slots {} and {})", prev, slot));
    }
    STW_CLOSURES.fetch_add(1, Ordering::Relaxed);
    event(2, slot);
    let check = |when: &str| {
        for (i, m) in MUTATING.iter().enumerate() {
            if i != slot && m.load(Ordering::Relaxed) {
                harness_violation("C04", EXIT_C04, &format!("thread in slot {} is mutating {} of stop-the-world closure of slot {}", i, when, slot));
            }
        }
    };
    check("at start");
    for t in threads {
        let s = SLOT_OF_THREAD_ID[t.id() % 256].load(Ordering::Relaxed);
        if s == usize::MAX || !REGISTERED[s].load(Ordering::Relaxed) {
            harness_violation("C04", EXIT_C04, &format!("operation was given thread {} which is not registered", t.id()));
        }
    }
    for c in HEAP.0.iter() {
        unsafe { *c.get() = (*c.get()).wrapping_mul(3).wrapping_add(threads.len() as u64) };
    }
    verif::point(50);
    check("after delay");
    for c in HEAP.0.iter() {
        unsafe { *c.get() = (*c.get()).wrapping_add(1) };
    }
    check("at end");
    event(3, slot);
    IN_CLOSURE.store(-1, Ordering::Relaxed);
}

thread_local! { static MY_SLOT: std::cell::Cell<usize> = const { std::cell::Cell::new(0) }; }

fn collect_cb(_rt: &Runtime, threads: &[Arc<DoraThread>]) {
    stw_closure(MY_SLOT.with(|s| s.get()), threads);
}

fn spawn_script_thread(rt: &'static Runtime, seed: u64, ops: usize, depth: usize) -> Option<usize> {
    let slot = NEXT_SLOT.fetch_add(1, Ordering::Relaxed);
    if slot >= MAX_SLOTS {
        return None;
    }
    let th = DoraThread::new(rt, ThreadState::Parked);
    SLOT_OF_THREAD_ID[th.id() % 256].store(slot, Ordering::Relaxed);
    REGISTERED[slot].store(true, Ordering::Relaxed);
    PLANNED_OPS.fetch_add(ops, Ordering::Relaxed);
    SPAWNED.fetch_add(1, Ordering::Relaxed);
    verif::thread_registered();
    if rt.state().in_safepoint() {
        SPAWN_DURING_STW.fetch_add(1, Ordering::Relaxed);
    }
    // as spawn_thread does: register first (parks/unparks the current thread), then start the OS thread
    rt.threads.add_thread(th.clone());
    JOIN_TARGETS.lock().push((slot, th.clone()));
    event(4, slot);
    std::thread::spawn(move || {
        let t = init_current_thread(th);
        MY_SLOT.with(|s| s.set(slot));
        verif::point(51);
        t.unpark(rt); // as thread_main does
        script(rt, slot, seed, ops, depth);
        unsafe {
            *JOIN_RESULTS.0[slot].get() = 0xC0FFEE00 + slot as u64; // last write before exit
        }
        event(5, slot);
        rt.threads.remove_current_thread();
        REGISTERED[slot].store(false, Ordering::Relaxed);
        verif::point(52);
        t.stop();
        FINISHED.fetch_add(1, Ordering::Relaxed);
        verif::thread_finished();
        deinit_current_thread();
    });
    Some(slot)
}

fn script(rt: &'static Runtime, slot: usize, mut seed: u64, ops: usize, depth: usize) {
    MUTATING[slot].store(true, Ordering::Relaxed);
    for _ in 0..ops {
        match rng(&mut seed) % 16 {
            0..=3 => {
                // busy mutator: stays Running for a while, polling like compiled code does
                let n = 1 + rng(&mut seed) % 24;
                for k in 0..n {
                    mutate(slot, k);
                    for _ in 0..(rng(&mut seed) % 64) {
                        std::hint::spin_loop();
                    }
                    poll(slot);
                }
            }
            4..=5 => {
                // native call
                MUTATING[slot].store(false, Ordering::Relaxed);
                event(6, slot);
                parked_scope(|| {
                    verif::point(53);
                });
                verif::mutator_check("after native call");
                MUTATING[slot].store(true, Ordering::Relaxed);
            }
            6..=7 => {
                MUTATING[slot].store(false, Ordering::Relaxed);
                STW_REQUESTED.fetch_add(1, Ordering::Relaxed);
                stop_the_world(rt, |threads| stw_closure(slot, threads));
                MUTATING[slot].store(true, Ordering::Relaxed);
            }
            8 => {
                // a forced collection through the real Gc path
                MUTATING[slot].store(false, Ordering::Relaxed);
                STW_REQUESTED.fetch_add(1, Ordering::Relaxed);
                verif::force_collect(rt);
                MUTATING[slot].store(true, Ordering::Relaxed);
            }
            9..=11 => {
                // an allocation-failure style request: coalesced if somebody else collected meanwhile
                MUTATING[slot].store(false, Ordering::Relaxed);
                STW_REQUESTED.fetch_add(1, Ordering::Relaxed);
                verif::request_collect(rt);
                MUTATING[slot].store(true, Ordering::Relaxed);
            }
            12 => {
                if depth < 2 {
                    MUTATING[slot].store(false, Ordering::Relaxed);
                    let s2 = mix(seed, slot as u64);
                    spawn_script_thread(rt, s2, ops / 2 + 1, depth + 1);
                    MUTATING[slot].store(true, Ordering::Relaxed);
                }
            }
            13 => {
                // join a thread spawned earlier (if any): join returns only after its last write is visible
                let target = {
                    let g = JOIN_TARGETS.lock();
                    if g.is_empty() { None } else { Some(g[(rng(&mut seed) as usize) % g.len()].clone()) }
                };
                if let Some((tslot, th)) = target {
                    // only younger threads (larger slot) may be joined: keeps the join graph acyclic
                    if tslot > slot {
                        MUTATING[slot].store(false, Ordering::Relaxed);
                        event(7, slot);
                        th.join();
                        let v = unsafe { *JOIN_RESULTS.0[tslot].get() };
                        if v != 0xC0FFEE00 + tslot as u64 {
                            harness_violation("C09", EXIT_C09_WAITLIST, &format!("join returned before the joined thread's last write was visible (slot {} value {:#x})", tslot, v));
                        }
                        MUTATING[slot].store(true, Ordering::Relaxed);
                    }
                }
            }
            _ => {
                mutate(slot, 7);
                verif::point(54);
                mutate(slot, 9);
                poll(slot);
            }
        }
        DONE_OPS.fetch_add(1, Ordering::Relaxed);
    }
    MUTATING[slot].store(false, Ordering::Relaxed);
}

fn run_stw(p: &Params) {
    verif::configure_perturb(p.seed, p.perturb);
    let rt: &'static Runtime = Box::leak(verif::new_runtime());
    set_runtime(rt);
    verif::set_collect_callback(collect_cb);
    start_deadlock_monitor("C04");
    // main thread registers as execute_on_main does
    let main_thread = DoraThread::new(rt, ThreadState::Running);
    init_current_thread(main_thread.clone());
    rt.threads.add_main_thread(main_thread.clone());
    verif::thread_registered();
    let slot0 = NEXT_SLOT.fetch_add(1, Ordering::Relaxed);
    SLOT_OF_THREAD_ID[main_thread.id() % 256].store(slot0, Ordering::Relaxed);
    REGISTERED[slot0].store(true, Ordering::Relaxed);
    PLANNED_OPS.fetch_add(p.ops, Ordering::Relaxed);
    for i in 1..p.threads {
        spawn_script_thread(rt, mix(p.seed, i as u64), p.ops, 0);
    }
    script(rt, slot0, mix(p.seed, 0), p.ops, 0);
    // main waits for the others in native code (parked), polling a harness counter
    parked_scope(|| {
        verif::wait_enter(verif::W_HARNESS);
        while FINISHED.load(Ordering::Acquire) < SPAWNED.load(Ordering::Acquire) {
            #[cfg(miri)]
            std::thread::yield_now();
            #[cfg(not(miri))]
            std::thread::sleep(std::time::Duration::from_micros(200));
        }
        verif::wait_leave(verif::W_HARNESS);
    });
    rt.threads.remove_current_thread();
    REGISTERED[slot0].store(false, Ordering::Relaxed);
    verif::thread_finished();
    deinit_current_thread();
    let done = DONE_OPS.load(Ordering::Relaxed);
    let planned = PLANNED_OPS.load(Ordering::Relaxed);
    if done != planned {
        harness_violation("C04", EXIT_C04, &format!("threads completed {} of {} planned operations", done, planned));
    }
    let closures = STW_CLOSURES.load(Ordering::Relaxed);
    let requested = STW_REQUESTED.load(Ordering::Relaxed);
    let coalesced = verif::GC_COALESCED.load(Ordering::Relaxed);
    if closures + coalesced != requested {
        harness_violation("C04", EXIT_C04, &format!("{} operations requested, {} closures ran, {} coalesced", requested, closures, coalesced));
    }
    if rt.threads.threads.lock().len() != 0 {
        harness_violation("C04", EXIT_C04, "thread list not empty at the end");
    }
    print_counters(
        "stw",
        p,
        &format!(
            ",\"done_ops\":{},\"stw_requested\":{},\"stw_closures\":{},\"spawned\":{},\"order_hash\":\"{:016x}\",\"spawn_during_stw\":{}",
            done,
            requested,
            closures,
            SPAWNED.load(Ordering::Relaxed),
            ORDER_HASH.load(Ordering::Relaxed),
            SPAWN_DURING_STW.load(Ordering::Relaxed)
        ),
    );
}

fn main() {
    let (mode, p) = params();
    match mode.as_str() {
        "stw" => run_stw(&p),
        "term" => term::run(&p),
        "waitq" => waitq::run(&p),
        m => panic!("unknown mode {}", m),
    }
}

#[allow(dead_code)]
fn _unused(_: &AtomicI32, _: &JoinTargets) {}
