//! term: C12 -- parallel collection phases finish exactly when all work is done.
//! 2-4 workers run the loop shape of `MarkingTask::run` (own deque -> injector -> steal -> try_terminate)
//! against an abstract pool of unique items; the REAL `Terminator` decides.
use std::cell::UnsafeCell;
use std::sync::atomic::{AtomicIsize, AtomicU8, AtomicUsize, Ordering};

use crossbeam_deque::{Injector, Steal, Stealer, Worker};
use dora_runtime::verif::{self, Terminator};

use crate::{Params, harness_violation, mix, print_counters, start_deadlock_monitor};

const EXIT_C12: i32 = 93;

static OUTSTANDING: AtomicIsize = AtomicIsize::new(0);
static PROCESSED: AtomicUsize = AtomicUsize::new(0);
static TERMINATED: AtomicUsize = AtomicUsize::new(0);

struct Payload(Vec<UnsafeCell<u64>>);
unsafe impl Sync for Payload {}

/// Deterministic work graph: which children an item publishes.
fn children(id: u64, shape: u64, limit: u64, seed: u64) -> Vec<u64> {
    let mut v = vec![];
    match shape {
        0 => {
            // one long chain: work appears one item at a time (maximises sleep/wake-up races)
            if id + 1 < limit {
                v.push(id + 1);
            }
        }
        1 => {
            // wide bursts
            for k in 1..=3 {
                let c = id * 3 + k;
                if c < limit {
                    v.push(c);
                }
            }
        }
        2 => {
            // mixed: binary tree with irregular second child
            let c = id * 2 + 1;
            if c < limit {
                v.push(c);
            }
            if c + 1 < limit && (mix(seed, id) >> 3) % 3 != 0 {
                v.push(c + 1);
            }
        }
        _ => {
            // late single item: a chain with long pauses between items (everybody else is asleep long ago)
            if id + 1 < limit {
                v.push(id + 1);
            }
        }
    }
    v
}

pub fn run(p: &Params) {
    verif::configure_perturb(p.seed, p.perturb);
    start_deadlock_monitor("C12");
    let mut total_items = 0usize;
    for round in 0..p.rounds.max(1) {
        total_items += run_round(p, round as u64);
    }
    print_counters(
        "term",
        p,
        &format!(",\"shape\":{},\"items\":{},\"rounds\":{},\"processed\":{}", p.shape, p.items, p.rounds, total_items),
    );
}

fn run_round(p: &Params, round: u64) -> usize {
    let workers = p.threads.max(2);
    let limit = p.items;
    let shape = p.shape;
    let seed = mix(p.seed, round);
    OUTSTANDING.store(0, Ordering::Relaxed);
    PROCESSED.store(0, Ordering::Relaxed);
    TERMINATED.store(0, Ordering::Relaxed);
    let injector: Injector<u64> = Injector::new();
    let mut ws = vec![];
    let mut stealers: Vec<Stealer<u64>> = vec![];
    for _ in 0..workers {
        let w = Worker::new_lifo();
        stealers.push(w.stealer());
        ws.push(w);
    }
    // which items exist (reachable from 0) -- computed sequentially as the expectation
    let mut expect = vec![false; limit as usize];
    let mut stack = vec![0u64];
    while let Some(i) = stack.pop() {
        if !expect[i as usize] {
            expect[i as usize] = true;
            stack.extend(children(i, shape, limit, seed));
        }
    }
    let seen: Vec<AtomicU8> = (0..limit).map(|_| AtomicU8::new(0)).collect();
    let payload = Payload((0..limit).map(|_| UnsafeCell::new(0u64)).collect());
    unsafe { *payload.0[0].get() = 0xABCD_0000 };
    OUTSTANDING.fetch_add(1, Ordering::Relaxed);
    injector.push(0);
    let terminator = Terminator::new(workers);
    std::thread::scope(|s| {
        for (tid, w) in ws.into_iter().enumerate() {
            let injector = &injector;
            let stealers = &stealers;
            let terminator = &terminator;
            let seen = &seen;
            let payload = &payload;
            verif::thread_registered();
            s.spawn(move || {
                let mut empty_spins = 0usize;
                loop {
                    let item = w
                        .pop()
                        .or_else(|| loop {
                            match injector.steal_batch_and_pop(&w) {
                                Steal::Empty => break None,
                                Steal::Success(v) => break Some(v),
                                Steal::Retry => continue,
                            }
                        })
                        .or_else(|| {
                            for (i, st) in stealers.iter().enumerate() {
                                if i == tid {
                                    continue;
                                }
                                loop {
                                    match st.steal_batch_and_pop(&w) {
                                        Steal::Empty => break,
                                        Steal::Success(v) => return Some(v),
                                        Steal::Retry => continue,
                                    }
                                }
                            }
                            None
                        });
                    let id = if let Some(id) = item {
                        empty_spins = 0;
                        id
                    } else {
                        verif::point(60);
                        if terminator.try_terminate() {
                            // nobody may still hold or publish work
                            let o = OUTSTANDING.load(Ordering::Relaxed);
                            if o != 0 {
                                harness_violation("C12", EXIT_C12, &format!("worker {} was told the phase is complete while {} items are outstanding", tid, o));
                            }
                            TERMINATED.fetch_add(1, Ordering::Relaxed);
                            break;
                        } else {
                            empty_spins += 1;
                            if empty_spins > 10_000 {
                                harness_violation("C12", EXIT_C12, &format!("worker {} spins on an empty pool ({} consecutive empty rounds)", tid, empty_spins));
                            }
                            continue;
                        }
                    };
                    if seen[id as usize].fetch_add(1, Ordering::Relaxed) != 0 {
                        harness_violation("C12", EXIT_C12, &format!("item {} processed twice", id));
                    }
                    // the item's payload was written by its publisher before the push (plain memory)
                    let pv = unsafe { *payload.0[id as usize].get() };
                    if pv != 0xABCD_0000 + id {
                        harness_violation("C12", EXIT_C12, &format!("item {} handed over without its payload ({:#x})", id, pv));
                    }
                    if shape >= 3 {
                        for _ in 0..8 {
                            verif::point(61);
                            std::thread::yield_now();
                        }
                    }
                    for c in children(id, shape, limit, seed) {
                        OUTSTANDING.fetch_add(1, Ordering::Relaxed);
                        unsafe { *payload.0[c as usize].get() = 0xABCD_0000 + c };
                        if mix(seed, c) & 8 == 0 {
                            w.push(c);
                        } else {
                            injector.push(c);
                        }
                        verif::point(62);
                        terminator.wake_up();
                    }
                    PROCESSED.fetch_add(1, Ordering::Relaxed);
                    OUTSTANDING.fetch_sub(1, Ordering::Relaxed);
                }
                verif::thread_finished();
            });
        }
    });
    let mut n = 0usize;
    for i in 0..limit as usize {
        let s = seen[i].load(Ordering::Relaxed);
        if expect[i] && s != 1 {
            harness_violation("C12", EXIT_C12, &format!("reachable item {} processed {} times", i, s));
        }
        if !expect[i] && s != 0 {
            harness_violation("C12", EXIT_C12, &format!("unreachable item {} processed", i));
        }
        n += s as usize;
    }
    if TERMINATED.load(Ordering::Relaxed) != workers {
        harness_violation("C12", EXIT_C12, "not all workers terminated");
    }
    n
}
