//! Generates the method dispatch table of the harness from the *source text* of the assembler under test,
//! so that a method added to `AssemblerArm64` is callable by name without editing the harness (the Python
//! side then reports it as `c08:uncovered-method:<name>` until it gets a template).
use std::fmt::Write as _;

const SRC: &str = "/repo/dora-asm/src/arm64.rs";

fn conv(ty: &str) -> Option<&'static str> {
    Some(match ty {
        "Register" => "reg",
        "NeonRegister" => "neon",
        "u32" => "num::<u32>",
        "i32" => "num::<i32>",
        "i64" => "num::<i64>",
        "u64" => "num::<u64>",
        "usize" => "num::<usize>",
        "u8" => "num::<u8>",
        "u128" => "num::<u128>",
        "Shift" => "shift",
        "Extend" => "extend",
        "Cond" => "cond",
        "MemOperand" => "mem",
        "Label" => "label",
        _ => return None,
    })
}

fn main() {
    println!("cargo:rerun-if-changed={}", SRC);
    println!("cargo:rerun-if-changed=build.rs");
    let text = std::fs::read_to_string(SRC).expect("assembler source");
    let cut = ["\nmod inst {", "\npub mod cls {", "\nmod cls {"]
        .iter()
        .filter_map(|m| text.find(m))
        .min()
        .unwrap_or(text.len());
    let body = &text[..cut];
    let mut methods = String::new();
    let mut skipped = String::new();
    let mut arms = String::new();
    let pat = "\n    pub fn ";
    let mut pos = 0;
    while let Some(i) = body[pos..].find(pat) {
        let start = pos + i + pat.len();
        pos = start;
        let Some(par) = body[start..].find('(') else { break };
        let name = body[start..start + par].trim().to_string();
        // matching ')'
        let mut depth = 0i32;
        let mut end = None;
        for (k, ch) in body[start + par..].char_indices() {
            match ch {
                '(' => depth += 1,
                ')' => {
                    depth -= 1;
                    if depth == 0 {
                        end = Some(start + par + k);
                        break;
                    }
                }
                _ => {}
            }
        }
        let Some(end) = end else { break };
        let args = &body[start + par + 1..end];
        let rest_end = body[end..].find('{').map(|x| end + x).unwrap_or(body.len());
        let rest = &body[end + 1..rest_end];
        let mut parts: Vec<String> = args
            .split(',')
            .map(|s| s.split_whitespace().collect::<Vec<_>>().join(" "))
            .filter(|s| !s.is_empty())
            .collect();
        if parts.is_empty() || parts[0] != "&mut self" || rest.contains("->") {
            continue; // constructors, accessors, finalize(self): not instruction emitters
        }
        parts.remove(0);
        let mut sig = vec![];
        let mut bad = None;
        let mut lets = String::new();
        let mut call = vec![];
        for (k, p) in parts.iter().enumerate() {
            let Some((pn, pt)) = p.split_once(':') else {
                bad = Some(format!("cannot parse parameter `{}`", p));
                break;
            };
            let (pn, pt) = (pn.trim().trim_start_matches("mut ").to_string(), pt.trim().to_string());
            match conv(&pt) {
                Some(c) => {
                    let _ = write!(lets, "let p{k} = c.{c}(o[{k}])?; ");
                    call.push(format!("p{k}"));
                    sig.push(format!("{}:{}", pn, pt));
                }
                None => {
                    bad = Some(format!("harness cannot build an operand of type `{}`", pt));
                    break;
                }
            }
        }
        if let Some(b) = bad {
            let _ = writeln!(skipped, "    ({:?}, {:?}),", name, b);
            continue;
        }
        let _ = writeln!(methods, "    ({:?}, {:?}),", name, sig.join(","));
        let _ = writeln!(
            arms,
            "        {:?} => {{ if o.len() != {n} {{ return Err(\"arity\".into()); }} {lets}c.begin(); c.a.{name}({call}); Ok(()) }}",
            name,
            n = parts.len(),
            lets = lets,
            name = name,
            call = call.join(", ")
        );
    }
    let out = format!(
        "pub const METHODS: &[(&str, &str)] = &[\n{methods}];\npub const SKIPPED: &[(&str, &str)] = &[\n{skipped}];\n\
         pub fn dispatch(c: &mut Cx, name: &str, o: &[&str]) -> Result<(), String> {{\n    match name {{\n{arms}        _ => Err(\"unknown-method\".into()),\n    }}\n}}\n"
    );
    let dir = std::env::var("OUT_DIR").unwrap();
    std::fs::write(std::path::Path::new(&dir).join("dispatch.rs"), out).unwrap();
}
