fn main() { eprintln!("not built yet"); std::process::exit(2); }
