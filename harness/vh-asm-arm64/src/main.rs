//! vh-asm-arm64: drives the real `dora_asm::arm64::AssemblerArm64` (C08).
//!
//!   list                       -> JSON on stdout: callable methods with their signatures (from build.rs)
//!   run  req=<file.tsv>        -> one request per line `idx \t method \t operand...`; this shard handles the
//!                                 lines with idx % nshards == shard and writes <out>/res_<shard>.tsv:
//!                                 `idx \t ok|refused|skip \t w0,w1,.. \t panic location \t message class`
//!   imm  nrand=<n>             -> immediate-encoder / predicate families, <out>/imm_<shard>.tsv
//!
//! Operand text: registers 0..30, 31 = REG_ZERO, 32 = REG_SP; NEON registers 0..31; numbers in decimal;
//! Shift/Extend/Cond by variant name; MemOperand `base:offset`; Label = signed distance in instructions from
//! the start of the emitted method to the label (<= 0: label bound before the call, > 0: bound afterwards and
//! resolved by `finalize`).
use std::io::{BufRead, Write};
use std::os::unix::fs::FileExt;

use dora_asm::Label;
use dora_asm::arm64::*;
use vhc::{Args, Reporter, Rng, catch, msg_class};

pub struct Cx {
    pub a: AssemblerArm64,
    start: usize,
    fwd: Option<(Label, i64)>,
}

impl Cx {
    fn new() -> Cx {
        Cx { a: AssemblerArm64::new(), start: 0, fwd: None }
    }
    fn num<T: std::str::FromStr>(&mut self, s: &str) -> Result<T, String> {
        s.parse::<T>().map_err(|_| format!("bad-number:{}", s))
    }
    fn reg(&mut self, s: &str) -> Result<Register, String> {
        let v: u32 = self.num(s)?;
        match v {
            0..=30 => Ok(Register::new(v as u8)),
            31 => Ok(REG_ZERO),
            32 => Ok(REG_SP),
            _ => Err(format!("bad-register:{}", v)),
        }
    }
    fn neon(&mut self, s: &str) -> Result<NeonRegister, String> {
        let v: u32 = self.num(s)?;
        if v < 32 { Ok(NeonRegister::new(v as u8)) } else { Err(format!("bad-neon-register:{}", v)) }
    }
    fn shift(&mut self, s: &str) -> Result<Shift, String> {
        Ok(match s {
            "LSL" => Shift::LSL,
            "LSR" => Shift::LSR,
            "ASR" => Shift::ASR,
            "ROR" => Shift::ROR,
            _ => return Err(format!("bad-shift:{}", s)),
        })
    }
    fn extend(&mut self, s: &str) -> Result<Extend, String> {
        Ok(match s {
            "UXTB" => Extend::UXTB,
            "UXTH" => Extend::UXTH,
            "LSL" => Extend::LSL,
            "UXTW" => Extend::UXTW,
            "UXTX" => Extend::UXTX,
            "SXTB" => Extend::SXTB,
            "SXTH" => Extend::SXTH,
            "SXTW" => Extend::SXTW,
            "SXTX" => Extend::SXTX,
            _ => return Err(format!("bad-extend:{}", s)),
        })
    }
    fn cond(&mut self, s: &str) -> Result<Cond, String> {
        Ok(match s {
            "EQ" => Cond::EQ,
            "NE" => Cond::NE,
            "CS" => Cond::CS,
            "HS" => Cond::HS,
            "CC" => Cond::CC,
            "LO" => Cond::LO,
            "MI" => Cond::MI,
            "PL" => Cond::PL,
            "VS" => Cond::VS,
            "VC" => Cond::VC,
            "HI" => Cond::HI,
            "LS" => Cond::LS,
            "GE" => Cond::GE,
            "LT" => Cond::LT,
            "GT" => Cond::GT,
            "LE" => Cond::LE,
            _ => return Err(format!("bad-cond:{}", s)),
        })
    }
    fn mem(&mut self, s: &str) -> Result<MemOperand, String> {
        let (b, o) = s.split_once(':').ok_or_else(|| format!("bad-mem:{}", s))?;
        let base = self.reg(b)?;
        let off: i64 = self.num(o)?;
        Ok(MemOperand::new(base, off))
    }
    fn fill(&mut self, n: u64) {
        if n <= 4096 {
            for _ in 0..n {
                self.a.nop();
            }
        } else {
            for _ in 0..n / 4 {
                self.a.emit_u128(0);
            }
            for _ in 0..n % 4 {
                self.a.emit_u32(0);
            }
        }
    }
    fn label(&mut self, s: &str) -> Result<Label, String> {
        let d: i64 = self.num(s)?;
        if d.unsigned_abs() > (1 << 26) {
            return Err("label-too-far-for-harness".into());
        }
        if d <= 0 {
            let l = self.a.create_and_bind_label();
            self.fill((-d) as u64);
            Ok(l)
        } else {
            let l = self.a.create_label();
            self.fwd = Some((l, d));
            Ok(l)
        }
    }
    fn begin(&mut self) {
        self.start = self.a.position();
    }
}

include!(concat!(env!("OUT_DIR"), "/dispatch.rs"));

enum Res {
    Ok(Vec<u32>),
    Skip(String),
}

fn run_one(name: &str, ops: &[&str]) -> Res {
    let mut c = Cx::new();
    if name == "cls::uncond_branch_imm" {
        // the one public instruction-class encoder (used outside of the assembler to patch calls)
        if ops.len() != 2 {
            return Res::Skip("arity".into());
        }
        let (Ok(op), Ok(imm)) = (ops[0].parse::<u32>(), ops[1].parse::<i32>()) else {
            return Res::Skip("bad-number".into());
        };
        return Res::Ok(vec![cls::uncond_branch_imm(op, imm)]);
    }
    if let Err(e) = dispatch(&mut c, name, ops) {
        return Res::Skip(e);
    }
    let start = c.start;
    let end = c.a.position();
    if let Some((l, d)) = c.fwd.take() {
        let target = start + 4 * d as usize;
        if target < end {
            return Res::Skip("label-inside-emitted-code".into());
        }
        if d <= 4096 {
            while c.a.position() < target {
                c.a.nop();
            }
            c.a.bind_label(l);
        } else {
            // as if (target - end) / 4 further instructions had been emitted
            c.a.set_position(target);
            c.a.bind_label(l);
            c.a.set_position_end();
        }
    }
    let code = c.a.finalize(4).code();
    let mut words = vec![];
    let mut p = start;
    while p + 4 <= end && p + 4 <= code.len() {
        words.push(u32::from_le_bytes([code[p], code[p + 1], code[p + 2], code[p + 3]]));
        p += 4;
    }
    Res::Ok(words)
}

fn mode_run(args: &Args) {
    let path = args.get("req").expect("req=<file>").to_string();
    let mut rep = Reporter::new(args);
    let f = std::io::BufReader::new(std::fs::File::open(&path).expect("request file"));
    let mut out = std::io::BufWriter::new(
        std::fs::File::create(args.out.join(format!("res_{}.tsv", args.shard))).unwrap(),
    );
    let skip: Option<u64> = args.get("skip_upto").map(|s| s.parse().unwrap());
    let cur = std::fs::File::create(args.out.join(format!("cur_{}.idx", args.shard))).unwrap();
    let (mut n_ok, mut n_ref, mut n_skip) = (0u64, 0u64, 0u64);
    for line in f.lines() {
        let line = line.unwrap();
        let mut it = line.split('\t');
        let Some(idx) = it.next().and_then(|s| s.parse::<u64>().ok()) else { continue };
        if idx % args.nshards != args.shard {
            continue;
        }
        if let Some(o) = args.only {
            if o != idx {
                continue;
            }
        }
        if let Some(s) = skip {
            if idx <= s {
                continue;
            }
        }
        let Some(name) = it.next() else { continue };
        let ops: Vec<&str> = it.collect();
        // current request index, rewritten in place (the parent attributes a child death to it)
        let _ = cur.write_all_at(format!("{:<20}", idx).as_bytes(), 0);
        match catch(|| run_one(name, &ops)) {
            Ok(Res::Ok(words)) => {
                n_ok += 1;
                let w: Vec<String> = words.iter().map(|w| format!("{:08x}", w)).collect();
                writeln!(out, "{}\tok\t{}\t\t", idx, w.join(",")).unwrap();
            }
            Ok(Res::Skip(why)) => {
                n_skip += 1;
                writeln!(out, "{}\tskip\t\t\t{}", idx, why).unwrap();
            }
            Err(p) => {
                n_ref += 1;
                writeln!(out, "{}\trefused\t\t{}\t{}", idx, p.loc, msg_class(&p.msg).replace('\t', " ")).unwrap();
            }
        }
    }
    out.flush().unwrap();
    rep.count("harness_ok", n_ok);
    rep.count("harness_refused", n_ref);
    rep.count("harness_skip", n_skip);
    rep.finish();
}

// ------------------------------------------------------------------------------------------------
// immediate encoders and predicates

fn runs_patterns(bits: u32, out: &mut Vec<u64>) {
    // all values of `bits` bits made of at most three runs of equal bits
    let mask = if bits == 64 { !0u64 } else { (1u64 << bits) - 1 };
    let ones = |lo: u32, hi: u32| -> u64 {
        // bits lo..hi (exclusive) set
        if hi <= lo {
            0
        } else {
            let w = hi - lo;
            (if w == 64 { !0u64 } else { (1u64 << w) - 1 }) << lo
        }
    };
    out.push(0);
    out.push(mask);
    for i in 1..bits {
        out.push(ones(0, i));
        out.push(ones(i, bits));
        for j in i + 1..bits {
            out.push(ones(i, j));
            out.push(mask & !ones(i, j));
        }
    }
}

fn valid_bitmasks(out: &mut Vec<u64>) {
    let mut e = 2u32;
    while e <= 64 {
        for ones in 1..e {
            let elem = (1u64 << ones) - 1;
            for rot in 0..e {
                let emask = if e == 64 { !0u64 } else { (1u64 << e) - 1 };
                let r = if rot == 0 { elem } else { ((elem >> rot) | (elem << (e - rot))) & emask };
                let mut v = 0u64;
                let mut k = 0;
                while k < 64 {
                    v |= r << k;
                    k += e;
                }
                out.push(v);
            }
        }
        e *= 2;
    }
}

fn random_value(r: &mut Rng) -> u64 {
    match r.below(8) {
        0 => r.next(),
        1 => {
            // few runs
            let mut v = 0u64;
            let n = 1 + r.below(6);
            for _ in 0..n {
                let a = r.below(65) as u32;
                let m = if a == 64 { !0u64 } else { (1u64 << a) - 1 };
                v ^= m;
            }
            v
        }
        2 => {
            // replicated random element
            let e = 2u32 << r.below(5); // 2..32
            let elem = r.next() & ((1u64 << e) - 1);
            let mut v = 0u64;
            let mut k = 0;
            while k < 64 {
                v |= elem << k;
                k += e;
            }
            v
        }
        3 => r.next() & 0xFFFF,
        4 => (r.next() & 0xFFFF) << (16 * r.below(4)),
        5 => !((r.next() & 0xFFFF) << (16 * r.below(4))),
        6 => r.next() & 0xFFFF_FFFF,
        _ => {
            // halfwords from {0, ffff, random}
            let mut v = 0u64;
            for h in 0..4 {
                let hw = match r.below(3) {
                    0 => 0,
                    1 => 0xFFFF,
                    _ => r.next() & 0xFFFF,
                };
                v |= hw << (16 * h);
            }
            v
        }
    }
}

fn logical_field(v: u64, w32: bool) -> String {
    let r = catch(|| {
        let mut a = AssemblerArm64::new();
        if w32 {
            a.and_imm_w(Register::new(0), Register::new(1), v);
        } else {
            a.and_imm(Register::new(0), Register::new(1), v);
        }
        let code = a.finalize(4).code();
        u32::from_le_bytes([code[0], code[1], code[2], code[3]])
    });
    match r {
        Ok(w) => format!("{:x}", w),
        Err(_) => "-".into(),
    }
}

fn pred<T: std::fmt::Display>(f: impl FnOnce() -> T) -> String {
    match catch(f) {
        Ok(v) => v.to_string(),
        Err(_) => "!".into(),
    }
}

fn mode_imm(args: &Args) {
    let mut rep = Reporter::new(args);
    let mut out = std::io::BufWriter::new(
        std::fs::File::create(args.out.join(format!("imm_{}.tsv", args.shard))).unwrap(),
    );
    let nrand: u64 = args.get("nrand").map(|s| s.parse().unwrap()).unwrap_or(100000);
    let flips: bool = args.get("flips").map(|s| s == "1").unwrap_or(true);
    let mut fixed: Vec<u64> = vec![];
    runs_patterns(64, &mut fixed);
    runs_patterns(32, &mut fixed);
    let mut valid = vec![];
    valid_bitmasks(&mut valid);
    for v in &valid {
        fixed.push(*v);
        fixed.push(*v & 0xFFFF_FFFF);
    }
    if flips {
        for v in &valid {
            for b in 0..64 {
                fixed.push(*v ^ (1u64 << b));
            }
        }
    }
    let mut n = 0u64;
    let mut emit = |v: u64, out: &mut std::io::BufWriter<std::fs::File>| {
        writeln!(
            out,
            "{:x}\t{}\t{}\t{}\t{}\t{}\t{}\t{}\t{}\t{}\t{}\t{}\t{}",
            v,
            logical_field(v, false),
            logical_field(v, true),
            pred(|| fits_movz(v, 64) as u8),
            pred(|| fits_movz(v, 32) as u8),
            pred(|| fits_movn(v, 64) as u8),
            pred(|| fits_movn(v, 32) as u8),
            pred(|| shift_movz(v)),
            pred(|| shift_movn(v)),
            pred(|| count_empty_half_words(v, 64)),
            pred(|| count_empty_half_words(v, 32)),
            pred(|| fits_addsub_imm(v as u32) as u8),
            pred(|| fits_ldst_unscaled(v as u32 as i32) as u8),
        )
        .unwrap();
        n += 1;
    };
    for chunk in args.indices() {
        for (k, v) in fixed.iter().enumerate() {
            if k as u64 % args.count == chunk {
                emit(*v, &mut out);
            }
        }
        let mut r = Rng::new(args.seed, 0xC08, chunk);
        for _ in 0..nrand / args.count.max(1) {
            let v = random_value(&mut r);
            emit(v, &mut out);
        }
    }
    out.flush().unwrap();
    rep.count("imm_values", n);
    rep.finish();
}

fn main() {
    let args = Args::parse();
    vhc::install_panic_hook();
    match args.mode.as_str() {
        "list" => {
            let m: Vec<_> = METHODS.iter().map(|(n, s)| vhc::json!({"name": n, "sig": s})).collect();
            let s: Vec<_> = SKIPPED.iter().map(|(n, s)| vhc::json!({"name": n, "why": s})).collect();
            println!("{}", vhc::json!({"methods": m, "skipped": s}));
        }
        "run" => mode_run(&args),
        "imm" => mode_imm(&args),
        m => panic!("unknown mode {}", m),
    }
}
