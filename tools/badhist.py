#!/usr/bin/env python3
"""Histogram of 'bad' keys in a scratch dir of an in-process harness run: tools/badhist.py c17"""
import sys, json, glob, collections, re
name = sys.argv[1]
c = collections.Counter(); ex = {}
for f in glob.glob('/verif/.build/scratch/%s/*/shard_*.jsonl' % name):
    for l in open(f, errors='replace'):
        try: d = json.loads(l)
        except ValueError: continue
        if d.get('t') == 'bad':
            k = d['key']
            if len(sys.argv) > 2: k = re.sub(sys.argv[2], '', k)
            c[k] += 1; ex.setdefault(k, d)
for k, v in c.most_common(): print(v, k, '|', ex[k]['what'][:150].replace('\n', ' '))
