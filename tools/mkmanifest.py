#!/usr/bin/env python3
"""Regenerates MANIFEST.json from tools/checks.json (the table of registered checks)."""
import json, os, sys
HERE = os.path.dirname(os.path.dirname(os.path.abspath(__file__)))
tab = json.load(open(os.path.join(HERE, "tools", "checks.json")))
props = [json.loads(l) for l in open(os.path.join(HERE, "properties.jsonl"))]
checks = []
na = []
for p in props:
    pid = p["id"]
    c = tab["checks"].get(pid)
    if c is None or c.get("disabled"):
        reason = (c or {}).get("disabled") or tab["not_applicable"].get(pid) or "check not built yet in this round; planned in DESIGN.md section 5"
        na.append({"property_id": pid, "reason": reason})
        continue
    checks.append({
        "property_id": pid,
        "quick_cmd": "./check %s --tier quick" % pid,
        "thorough_cmd": "./check %s --tier thorough" % pid,
        "evidence_file": "/verif/evidence/%s.json" % pid,
        "replay_cmd_template": "./check %s --replay {path}" % pid,
        "engine": c["engine"],
        "level_claimed": {"category": "exploration", "text": c["text"], "design_ref": c.get("design_ref", "DESIGN.md 5 " + pid)},
        "level_note": c["note"],
        "technique": c["technique"],
    })
m = {
    "version": 1,
    "setup_cmd": "./setup.sh",
    "hooks": tab["hooks"],
    "engines": tab["engines"],
    "checks": checks,
    "not_applicable": na,
    "notes": tab["notes"],
}
json.dump(m, open(os.path.join(HERE, "MANIFEST.json"), "w"), indent=1)
print("MANIFEST.json: %d checks, %d not_applicable" % (len(checks), len(na)))
