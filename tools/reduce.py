#!/usr/bin/env python3
"""Greedy delta reducer for Dora sources: tools/reduce.py <file> '<shell predicate using $F>' -> writes <file>.min
Removes top-level items (blank-line separated chunks), then single lines, then tries again until fixpoint."""
import subprocess, sys, os, tempfile
src = open(sys.argv[1]).read()
pred = sys.argv[2]
tmp = tempfile.mkdtemp(dir='/verif/.build/scratch')
def interesting(text):
    p = os.path.join(tmp, 'cand.dora')
    open(p, 'w').write(text)
    e = dict(os.environ); e['F'] = p; e['TMPDIR'] = tmp
    return subprocess.run(pred, shell=True, env=e, stdout=subprocess.DEVNULL, stderr=subprocess.DEVNULL, timeout=120).returncode == 0
assert interesting(src), "original not interesting"
def reduce_units(units, joiner):
    i = 0
    while i < len(units):
        cand = units[:i] + units[i+1:]
        if interesting(joiner.join(cand)):
            units = cand
        else:
            i += 1
    return units
chunks = src.split("\n\n")
chunks = reduce_units(chunks, "\n\n")
text = "\n\n".join(chunks)
changed = True
while changed:
    lines = text.split("\n")
    n0 = len(lines)
    # try removing brace-balanced blocks first: a line ending with '{' up to its matching '}'
    i = 0
    while i < len(lines):
        if lines[i].rstrip().endswith("{"):
            depth = 0; j = i
            while j < len(lines):
                depth += lines[j].count("{") - lines[j].count("}")
                if depth <= 0: break
                j += 1
            cand = lines[:i] + lines[j+1:]
            if j < len(lines) and interesting("\n".join(cand)):
                lines = cand; continue
        i += 1
    lines = reduce_units(lines, "\n")
    text = "\n".join(lines)
    changed = len(lines) < n0
open(sys.argv[1] + ".min", "w").write(text)
print(text)
