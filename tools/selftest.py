#!/usr/bin/env python3
"""Run checks against a mutated copy of the repository without touching /repo.

  tools/selftest.py <patch-file> <Cxx>[,Cyy...] [--tier quick] [--seed N] [--keep]

Creates a scratch git worktree of /repo HEAD under /var/tmp, applies the patch, runs
`VERIF_REPO=<worktree> ./check Cxx` (self-test mode: builds under /verif/.build/alt-<hash>/), prints the verdict line
and whether a VIOLATION was reported, then removes the worktree and the alt build area (unless --keep).
Exit status 0 = every listed check reported a violation (mutant caught), 1 = at least one missed it.
"""
import argparse
import hashlib
import os
import shutil
import subprocess
import sys

VERIF = os.path.dirname(os.path.dirname(os.path.abspath(__file__)))


def main():
    ap = argparse.ArgumentParser()
    ap.add_argument("patch")
    ap.add_argument("checks")
    ap.add_argument("--tier", default="quick")
    ap.add_argument("--seed", default="1")
    ap.add_argument("--keep", action="store_true")
    ap.add_argument("--opt", action="append", default=[], help="passed through to ./check (e.g. --opt only=ops)")
    ap.add_argument("--expect-clean", action="store_true", help="expect exit 0 (e.g. a fix patch)")
    a = ap.parse_args()
    patch = os.path.abspath(a.patch)
    name = "vst-" + hashlib.sha256(patch.encode()).hexdigest()[:8]
    wt = "/var/tmp/" + name
    subprocess.run(["git", "-C", "/repo", "worktree", "remove", "--force", wt], capture_output=True)
    shutil.rmtree(wt, ignore_errors=True)
    subprocess.run(["git", "-C", "/repo", "worktree", "add", "--detach", wt, "HEAD"], check=True, capture_output=True)
    alt = os.path.join(VERIF, ".build", "alt-" + hashlib.sha256(os.path.realpath(wt).encode()).hexdigest()[:10])
    ok = True
    try:
        r = subprocess.run(["git", "-C", wt, "apply", "--whitespace=nowarn", patch], capture_output=True, text=True)
        if r.returncode != 0:
            print("PATCH DOES NOT APPLY: " + r.stderr)
            return 2
        env = dict(os.environ)
        env["VERIF_REPO"] = wt
        env["VERIF_SEED"] = a.seed
        for chk in a.checks.split(","):
            p = subprocess.run([os.path.join(VERIF, "check"), chk, "--tier", a.tier] + [x for o in a.opt for x in ("--opt", o)], env=env, capture_output=True, text=True, cwd=VERIF)
            out = p.stdout
            viol = [l for l in out.splitlines() if l.startswith("VIOLATION")]
            keys = [l.strip() for l in out.splitlines() if l.strip().startswith("key=")]
            last = [l for l in out.splitlines() if "verdict=" in l]
            print("%s on %s: exit=%d violations=%d %s" % (chk, os.path.basename(patch), p.returncode, len(viol), last[-1] if last else ""))
            for k in keys[:6]:
                print("    " + k[:300])
            if p.returncode == 2:
                print(out[-1500:])
                print(p.stderr[-1500:])
            caught = p.returncode == 1 and viol
            if a.expect_clean:
                ok = ok and p.returncode == 0
            else:
                ok = ok and bool(caught)
    finally:
        if not a.keep:
            subprocess.run(["git", "-C", "/repo", "worktree", "remove", "--force", wt], capture_output=True)
            shutil.rmtree(wt, ignore_errors=True)
            shutil.rmtree(alt, ignore_errors=True)
    print("SELFTEST %s" % ("OK" if ok else "MISSED"))
    return 0 if ok else 1


if __name__ == "__main__":
    sys.exit(main())
