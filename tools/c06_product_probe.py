# Exploratory, unregistered: see DESIGN.md C.4 "Exploratory product probe". Usage: python3 tools/c06_product_probe.py (needs /verif/.build/target-rel/release/dora)
import itertools, subprocess, os, re, collections, sys
D='/verif/.build/target-rel/release/dora'
decls = {
 'class0b':'class T {}', 'class0':'class T', 'class1':'class T(Int64)', 'class1n':'class T { a: Int64 }',
 'struct0b':'struct T {}', 'struct0':'struct T', 'struct1':'struct T(Int64)', 'struct1n':'struct T { a: Int64 }',
 'enum':'enum T { A, B(Int64), C { x: Int64 } }', 'fn':'fn T() {}', 'const':'const T: Int64 = 1;',
 'trait':'trait T {}', 'alias':'type T = Int64;', 'mod':'mod T { pub fn q() {} }', 'global':'let T: Int64 = 1;',
 'generic0':'class T[X]', 'genstruct0':'struct T[X] {}',
}
uses = {
 'pat_let':'fn f(x: T) { let T = x; }', 'pat_match':'fn f(x: T): Int64 { match x { T => 1 } }',
 'pat_match_p':'fn f(x: T): Int64 { match x { T() => 1 } }', 'pat_match_b':'fn f(x: T): Int64 { match x { T { .. } => 1 } }',
 'pat_match_dots':'fn f(x: T): Int64 { match x { T(..) => 1 } }', 'pat_alt':'fn f(x: T): Int64 { match x { T | T => 1 } }',
 'pat_inner':'fn f(x: (T, T)): Int64 { match x { (T, _) => 1 } }', 'pat_opt':'fn f(x: Option[T]): Int64 { match x { Some(T) => 1, None => 2 } }',
 'pat_for':'fn f(x: Array[T]) { for T in x {} }', 'pat_param':'fn f(T: T) {}', 'pat_lambda':'fn f() { let g = |T: T| {}; }',
 'use_grp':'use self::T::{a};', 'use_grp2':'use self::T::{a, b::c};', 'use_as':'use self::T::a as b;', 'use_self':'use self::T::self;',
 'use_nested':'use self::{T::{a}};', 'use_enum':'use self::T::A;', 'use_enumgrp':'use self::T::{A, B};', 'use_deep':'use self::T::A::{x};',
 'expr_call':'fn f() { T(); }', 'expr_path':'fn f() { T::a; }', 'expr_pathcall':'fn f() { T::a(); }', 'expr_ident':'fn f() { T; }',
 'expr_field':'fn f(x: T) { x.a; }', 'expr_assign':'fn f() { T = 1; }', 'expr_as':'fn f(x: Int64) { x as T; }', 'expr_is':'fn f(x: T): Bool { x is T }',
 'expr_tyargs':'fn f() { T[Int64](); }', 'expr_brace':'fn f() { T { a: 1 }; }', 'ty_bound':'fn f[X: T](x: X) {}', 'ty_assoc':'fn f(x: T::A) {}',
 'impl':'impl T for Int64 {}', 'impl2':'impl T { fn q() {} }', 'ext_static':'impl T { static fn q() {} } fn f() { T::q(); }',
 'ty_generic':'fn f(x: T[Int64]) {}', 'ty_generic_pat':'fn f(x: T[Int64]) { let T = x; }', 'ty_generic_match':'fn f(x: T[Int64]): Int64 { match x { T => 1 } }',
}
res=collections.Counter(); wit={}
import tempfile; os.chdir(tempfile.mkdtemp(prefix='c06prod')); os.makedirs('c',exist_ok=True)
n=0
for (dk,d),(uk,u) in itertools.product(decls.items(), uses.items()):
    n+=1
    src=d+'\n'+u+'\nfn main() {}\n'
    open('c/main.dora','w').write(src)
    p=subprocess.run([D,'compile','-c','c/main.dora','-o','c/o.pkg'],capture_output=True,text=True,timeout=60)
    out=p.stdout+p.stderr
    m=re.search(r'panicked at ([^\n]+)\n([^\n]*)',out)
    if m or p.returncode not in (0,1):
        key=(m.group(1).rsplit(':',1)[0]+' | '+m.group(2)[:80]) if m else 'rc=%d'%p.returncode
        res[key]+=1; wit.setdefault(key,(dk,uk,src))
print(n,'programs')
for k,c in res.most_common(): print(c,k,'\n   ',wit[k][0],wit[k][1],repr(wit[k][2]))
