#!/usr/bin/env python3
"""tools/splitpatch.py <patch> <out> <hunk numbers, 1-based, comma separated>: writes a patch with only those hunks."""
import sys, re
src = open(sys.argv[1]).read().split("\n")
want = set(int(x) for x in sys.argv[3].split(","))
out, header, n, keep = [], [], 0, False
for line in src:
    if line.startswith("diff --git") or line.startswith("index ") or line.startswith("--- ") or line.startswith("+++ "):
        header.append(line); continue
    if line.startswith("@@"):
        n += 1; keep = n in want
    if keep: out.append(line)
hdr = [l for l in header if not l.startswith("index ")]
open(sys.argv[2], "w").write("\n".join(hdr[:3] + out) + "\n")
