#!/usr/bin/env python3
"""Burn-in helper: tools/c01probe.py <featureset index or comma list> <nprog> <seed> -> prints violation summary"""
import sys, os, collections
sys.path.insert(0, '/verif')
from vlib import core, build
from vlib.props import c01
from vlib.gen import build as gb
fs = sys.argv[1]
nprog = int(sys.argv[2]); seed = int(sys.argv[3])
if fs.isdigit(): feats = [c01.FEATURE_SETS[int(fs)]]
elif fs == 'all': feats = c01.FEATURE_SETS
else: feats = [tuple(fs.split(','))]
ctx = core.Ctx('C01', 'quick', seed); ctx.replay_only = 'probe'
build.ensure_toolchain('rel', quiet=True)
progs = c01.gen_programs(ctx, nprog, 40, feature_sets=feats)
print("generated", sum(len(p.cases) for _, p in progs), "cases; discarded", sum(p.stats['discarded_undefined'] for _, p in progs))
exp = collections.Counter(c.expect[1] for _, p in progs for c in p.cases)
print(dict(exp))
c01.check_programs(ctx, progs, 'c01probe')
print("runs", ctx.counters.get('runs'), "violations", len(ctx.violations))
for k, what, d in ctx.violations[:int(os.environ.get('SHOW', '6'))]:
    print("==", k); print(what[:1800]); print("   replay:", d)
