"""Independent Python model of vlib/templates/graphs.dora: computes the expected stdout of every scenario."""

M = (1 << 64) - 1


def s64(x):
    x &= M
    return x - (1 << 64) if x >> 63 else x


def wmul(a, b):
    return s64(a * b)


def wadd(a, b):
    return s64(a + b)


def lsr(x, n):
    return (x & M) >> n


class Rng:
    def __init__(self, s):
        self.s = s64(s)

    def next(self):
        self.s = wadd(wmul(self.s, 6364136223846793005), 1442695040888963407)
        return lsr(self.s, 33)

    def below(self, n):
        return self.next() % n


def mix(h, v):
    return wadd(wmul(h ^ v, 1099511628211), lsr(v, 7))


class Node:
    __slots__ = ("val", "next", "other")

    def __init__(self, val, nxt=None, other=None):
        self.val, self.next, self.other = val, nxt, other


def sum_list(head, limit):
    h = 7347990519673328018
    cur, i = head, 0
    while cur is not None and i < limit:
        h = mix(h, cur.val)
        cur = cur.next
        i += 1
    return mix(h, i)


def collect_now(r):
    r.below(4)


def scenario_list(seed, n, k):
    r = Rng(seed)
    keep = [None] * (n // k + 1)
    head = None
    for i in range(n):
        node = Node(r.next(), head)
        head = node
        if i % k == 0:
            keep[i // k] = node
        if i % 97 == 0:
            collect_now(r)
    out = ["list %d" % sum_list(head, n + 5)]
    h = 7
    for x in keep:
        if x is not None:
            h = mix(h, sum_list(x, 3))
    out.append("kept %d" % h)
    return out


class Tree:
    __slots__ = ("val", "left", "right")


def build_tree(r, depth):
    if depth == 0:
        return None
    l = build_tree(r, depth - 1)
    v = r.next()
    rt = build_tree(r, depth - 1)
    t = Tree()
    t.val, t.left, t.right = v, l, rt
    return t


def sum_tree(t):
    if t is None:
        return 3
    return mix(mix(sum_tree(t.left), t.val), sum_tree(t.right))


def mutate_tree(r, t, depth):
    cur, d = t, 0
    while d < depth and cur is not None:
        n = cur
        cur = n.left if r.below(2) == 0 else n.right
        if cur is not None and r.below(3) == 0:
            cur.val = r.next()
            cur.left = build_tree(r, 2)
        d += 1


def scenario_tree(seed, depth, rounds):
    r = Rng(seed)
    t = build_tree(r, depth)
    out = ["tree %d" % sum_tree(t)]
    for i in range(rounds):
        mutate_tree(r, t, depth)
        if i % 5 == 0:
            collect_now(r)
    out.append("tree2 %d" % sum_tree(t))
    return out


def scenario_churn(seed, total, ring):
    r = Rng(seed)
    live = [None] * ring
    for i in range(total):
        ln = 1 + r.below(200)
        a = [r.next()] * ln
        a[ln - 1] = i
        live[i % ring] = a
    h = 11
    for a in live:
        if a is not None:
            h = mix(mix(h, len(a)), mix(a[0], a[-1]))
    return ["churn %d" % h]


def scenario_large(seed, n, rounds):
    r = Rng(seed)
    big = [None] * n
    for _ in range(rounds):
        for _ in range(50):
            idx = r.below(n)
            v = r.next()
            big[idx] = Node(v, big[(idx + 1) % n])
        collect_now(r)
    h = 5
    for x in big:
        if x is not None:
            h = mix(h, sum_list(x, 4))
    return ["large %d" % h]


def scenario_strings(seed, n, k):
    r = Rng(seed)
    kept = []
    s = ""
    for i in range(n):
        s = s + str(r.below(1000))
        if len(s.encode()) > 200:
            s = "<" + str(i) + ">"
        if i % k == 0:
            kept.append(s + "!")
        if i % 61 == 0:
            collect_now(r)
    h = 13
    for t in kept:
        b = t.encode()
        h = mix(h, len(b))
        if len(b) > 1:
            h = mix(h, b[1])
    return ["strings %d %d %s" % (h, len(kept), s)]


def scenario_closures(seed, n, k):
    r = Rng(seed)
    fs, shapes = [], []
    for i in range(n):
        node = Node(r.next() & 65535)
        fs.append([i, node])           # [counter, captured node]
        if i % 2 == 0:
            side = r.below(100)
            shapes.append(("sq", side, node))
        else:
            shapes.append(("circ", r.below(100), None))
        if i % k == 0:
            collect_now(r)
    h = 17
    for rnd in range(3):
        for j in range(len(fs)):
            c = fs[j]
            c[0] = wadd(c[0], 1)
            c[1].val = wadd(c[1].val, 1)
            h = mix(h, wadd(wadd(rnd, c[1].val), c[0]))
            kind, a, node = shapes[j]
            area = wadd(wmul(a, a), node.val & 255) if kind == "sq" else wmul(wmul(a, a), 3)
            h = mix(h, area)
    return ["closures %d" % h]


def scenario_cycles(seed, rings, ln):
    r = Rng(seed)
    heads = [None] * rings
    for i in range(rings):
        first = Node(r.next())
        prev = first
        for _ in range(1, ln):
            n = Node(r.next(), None, first)
            prev.next = n
            prev = n
        prev.next = first
        heads[i] = first
        if r.below(3) == 0 and i > 0:
            heads[r.below(i)] = None
        if i % 7 == 0:
            collect_now(r)
    h = 19
    for x in heads:
        h = mix(h, sum_list(x, ln + 3)) if x is not None else mix(h, 1)
    return ["cycles %d" % h]


def scenario_interior(seed, n, rounds):
    r = Rng(seed)
    dummy = Node(1)
    tuples = [(0, dummy, False)] * n
    pairs = [(0, dummy, 0)] * n
    for _ in range(rounds):
        for i in range(n):
            if r.below(3) == 0:
                a = r.next()
                nd = Node(r.next())
                b = r.below(2) == 0
                tuples[i] = (a, nd, b)
            if r.below(3) == 0:
                a = r.next()
                nd = Node(r.next(), tuples[i][1])
                b = r.below(100)
                pairs[i] = (a, nd, b)
        collect_now(r)
    h = 23
    for j in range(n):
        t = tuples[j]
        h = mix(mix(h, t[0]), t[1].val)
        if t[2]:
            h = mix(h, 2)
        p = pairs[j]
        h = mix(mix(mix(h, p[0]), sum_list(p[1], 3)), p[2])
    return ["interior %d" % h]


def scenario_global(seed, n, k):
    r = Rng(seed)
    g = None
    for i in range(n):
        g = Node(r.next(), g)
        if i % k == k - 1:
            g.next = None
            collect_now(r)
    return ["global %d" % sum_list(g, n)]


def scenario_threads(seed, nthreads, per):
    results, shared = [], []
    for tid in range(nthreads):
        r = Rng(seed + tid * 7919)
        head = None
        for i in range(per):
            node = Node(r.next() & 1048575, head)
            head = node
            if i % 5 == 0:
                shared.append(node)
        results.append(sum_list(head, per + 1))
    total = 0
    for n in shared:
        total = wadd(total, wmul(n.val, 31))
    h = 29
    for x in results:
        h = mix(h, x)
    return ["threads %d %d %d" % (h, len(shared), total)]


def scenario_pressure(seed, n, k):
    r = Rng(seed)
    vals = []
    acc = 0
    for i in range(n):
        vals.append(r.next() & 1048575)
        if i % k == 0:
            acc += 1
    acc += 2 * (n * 2)
    h = 31
    for v in reversed(vals):
        h = mix(h, v)
    return ["pressure %d %d %d" % (h, n, acc)]


SCENARIOS = [scenario_list, scenario_tree, scenario_churn, scenario_large, scenario_strings, scenario_closures, scenario_cycles,
             scenario_interior, scenario_global, scenario_threads, scenario_pressure]
NAMES = ["list", "tree", "churn", "large", "strings", "closures", "cycles", "interior", "global", "threads", "pressure"]


def expected(sc, seed, n, k):
    import sys
    sys.setrecursionlimit(10000)
    return "\n".join(SCENARIOS[sc](seed, n, k) + ["done %d" % sc]) + "\n"
