"""Artifact checker (DESIGN.md 2.7): an offline checker over the `.s` files the real compiler writes.

* `parse_s(path)`            -> Asm: labels, globals, per-function machine code + relocations, every `.dora.*`
                                metadata table decoded according to dora-compiler/src/assembly.rs
* `disassemble(asm, workdir)`-> per-function call sites + prologue, from `llvm-mc -filetype=obj` + `llvm-objdump -d`
                                (AArch64: `.byte` runs of `.text` are rewritten to `.inst` first)
* `check_stackmaps(asm, dis)`-> C10 rules (a)-(d) over one artifact
* `check_labels(asm, ...)`   -> C19 label rules over one artifact;  `labels_check(ctx)` = C19 part 2 driver
* `emit_many(jobs)`          -> run `dora compile -S ...` for many (program, backend, arch, gc) in parallel
* corpus helpers: `touch_programs()`, `corpus_slice(rng, n)`

Python stdlib only. Nothing here edits /repo.
"""
import os
import re
import shutil
import struct
import subprocess
from concurrent.futures import ProcessPoolExecutor

from . import build
from .core import BUILD, NCPU, REPO, sha

# ------------------------------------------------------------------------------------------------------------
# facts read from the compiler sources (never trusted from memory)


def source_constants():
    """AOT_CODE_KIND_* numbers and the symbol cap, read from dora-compiler/src."""
    out = {"kinds": {}, "cap": None, "prefix": None}
    src = open(os.path.join(REPO, "dora-compiler/src/aot.rs")).read()
    for m in re.finditer(r"pub const AOT_CODE_KIND_([A-Z_]+)\s*:\s*u32\s*=\s*(\d+)\s*;", src):
        out["kinds"][m.group(1)] = int(m.group(2))
    for root, _, files in os.walk(os.path.join(REPO, "dora-compiler/src")):
        for f in files:
            if f.endswith(".rs"):
                m = re.search(r"AOT_SYMBOL_MAX_LEN\s*:\s*usize\s*=\s*(\d+)", open(os.path.join(root, f)).read())
                if m:
                    out["cap"] = int(m.group(1))
    m = re.search(r'SYMBOL_PREFIX\s*:\s*&str\s*=\s*"([^"]*)"', open(os.path.join(REPO, "dora-symbol/src/lib.rs")).read())
    if m:
        out["prefix"] = m.group(1)
    return out


# names used below for the code kinds (keys of source_constants()["kinds"])
K_OPT = "OPTIMIZED"
K_RTENTRY = "RUNTIME_ENTRY_TRAMPOLINE"
K_DORAENTRY = "DORA_ENTRY_TRAMPOLINE"
K_ALLOC = "ALLOCATION_FAILURE_TRAMPOLINE"
K_TRAP = "TRAP_TRAMPOLINE"
K_SAFEPOINT = "SAFEPOINT_TRAMPOLINE"
K_UNREACHABLE = "UNREACHABLE_TRAMPOLINE"
K_FATAL = "FATAL_ERROR_TRAMPOLINE"
K_STACKOVERFLOW = "STACK_OVERFLOW_TRAMPOLINE"
ALL_KINDS = (K_OPT, K_RTENTRY, K_DORAENTRY, K_ALLOC, K_TRAP, K_SAFEPOINT, K_UNREACHABLE, K_FATAL, K_STACKOVERFLOW)
# trampolines that never return into the calling frame (the process exits inside them): DESIGN C10 (a)
NORETURN_KINDS = (K_TRAP, K_STACKOVERFLOW, K_UNREACHABLE, K_FATAL)
WRITE_BARRIER = "dora_aot_write_barrier_slow_path"

# ------------------------------------------------------------------------------------------------------------
# .s parser

_LABEL = re.compile(r"^([^\s:]+):\s*$")
_RELOC = re.compile(r"^\.reloc\s+(\S+?)\+(\d+)(?:\+(\d+))?\s*,\s*(\S+?)\s*,\s*(\S+?)(?:\s*([-+])\s*(\d+))?\s*$")
_SYMREF = re.compile(r"^([^\s+]+?)(?:\+(\d+))?$")


class Fn:
    __slots__ = ("name", "index", "line", "code", "relocs", "local_labels", "end_label", "asm", "is_global")

    def __init__(self, name, index, line):
        self.name, self.index, self.line = name, index, line
        self.code = bytearray()
        self.relocs = []        # (offset, type, target, addend)
        self.local_labels = {}  # .L label -> offset
        self.end_label = None
        self.asm = []           # textual instructions (only `main`)
        self.is_global = False


class Asm:
    def __init__(self, path):
        self.path = path
        self.arch = None
        self.fns = []            # Fn in file order
        self.fn_by_name = {}
        self.labels = []         # (name, section, line)
        self.globals = []        # names in `.globl`
        self.refs = []           # (symbol, where) every symbol referenced (reloc target, .quad sym, asm operand)
        self.sec = {}            # section -> list of ('q'|'l', int) | ('qs', sym, addend); `.byte` payloads only counted
        self.sec_bytes = {}      # section -> number of .byte payload bytes
        self.sec_labels = {}     # label -> (section, item index)
        self.rodata = {}         # label -> bytes that follow it in .rodata (string payloads)
        self.problems = []       # parse-level problems [(id, what)]
        self.lines = 0
        self.collector = None


def parse_s(path, arch=None):
    a = Asm(path)
    a.arch = arch
    sec = ".text"
    cur = None       # current Fn while in .text
    last_label = None
    with open(path, "r", encoding="utf-8", errors="surrogateescape") as fh:
        for ln, raw in enumerate(fh, 1):
            l = raw.strip()
            if not l:
                continue
            if l[0] == ".":
                if l.startswith(".byte"):
                    if sec == ".text":
                        if cur is None:
                            a.problems.append(("bytes-outside-function", "line %d" % ln))
                        else:
                            try:
                                cur.code += bytes(int(x, 16) for x in l[5:].split(","))
                            except ValueError:
                                a.problems.append(("bad-byte-line", "line %d: %s" % (ln, l[:80])))
                    elif sec == ".rodata" and last_label is not None:
                        try:
                            a.rodata.setdefault(last_label, bytearray()).extend(int(x, 16) for x in l[5:].split(","))
                        except ValueError:
                            a.problems.append(("bad-byte-line", "line %d: %s" % (ln, l[:80])))
                    else:
                        n = l.count(",") + 1
                        a.sec_bytes[sec] = a.sec_bytes.get(sec, 0) + n
                    continue
                if l.startswith(".long") or l.startswith(".quad"):
                    kind = "l" if l[1] == "l" else "q"
                    v = l[5:].strip()
                    items = a.sec.setdefault(sec, [])
                    try:
                        items.append((kind, int(v, 0)))
                    except ValueError:
                        m = _SYMREF.match(v)
                        if not m:
                            a.problems.append(("bad-data-line", "line %d: %s" % (ln, l[:80])))
                        else:
                            items.append((kind + "s", m.group(1), int(m.group(2) or 0)))
                            a.refs.append((m.group(1), "data:" + sec))
                    continue
                if l.startswith(".reloc"):
                    m = _RELOC.match(l)
                    if not m or cur is None:
                        a.problems.append(("bad-reloc-line", "line %d: %s" % (ln, l[:120])))
                        continue
                    base, o1, o2, typ, tgt, sign, add = m.groups()
                    if base != cur.name:
                        a.problems.append(("reloc-base-not-current-function", "line %d: %s in %s" % (ln, base, cur.name)))
                    addend = int(add or 0) * (-1 if sign == "-" else 1)
                    cur.relocs.append((int(o1) + int(o2 or 0), typ, tgt, addend))
                    a.refs.append((tgt, "reloc"))
                    if a.arch is None:
                        a.arch = "arm64" if "AARCH64" in typ else "x64"
                    continue
                if l.startswith(".globl"):
                    a.globals.append(l.split(None, 1)[1].strip())
                    continue
                if l.startswith(".section"):
                    sec = l.split()[1].split(",")[0]
                    cur = None
                    continue
                if l in (".text", ".bss", ".data"):
                    sec = l
                    cur = None
                    continue
                if l.startswith(".p2align") or l.startswith(".zero"):
                    continue
                m = _LABEL.match(l)
                if m:  # a local label (.L...)
                    name = m.group(1)
                    a.labels.append((name, sec, ln))
                    last_label = name
                    if sec == ".text":
                        if cur is None:
                            a.problems.append(("local-label-outside-function", "line %d: %s" % (ln, name)))
                        elif name.startswith(".Ldora_aot_function_end_") or name == ".Ldora_entry_trampoline_end":
                            cur.end_label = name
                            cur.local_labels[name] = len(cur.code)
                            cur = None
                        else:
                            cur.local_labels[name] = len(cur.code)
                    else:
                        a.sec_labels[name] = (sec, len(a.sec.get(sec, ())))
                    continue
                a.problems.append(("unknown-directive", "line %d: %s" % (ln, l[:80])))
                continue
            m = _LABEL.match(l)
            if m:
                name = m.group(1)
                a.labels.append((name, sec, ln))
                last_label = name
                if sec == ".text":
                    cur = Fn(name, len(a.fns), ln)
                    a.fns.append(cur)
                    a.fn_by_name.setdefault(name, cur)
                else:
                    a.sec_labels[name] = (sec, len(a.sec.get(sec, ())))
                continue
            # textual instruction (only the `main` stub is written as text)
            if sec == ".text" and cur is not None:
                cur.asm.append(l)
                for tok in re.findall(r"[A-Za-z_.$][A-Za-z0-9_.$]*", re.sub(r"%[a-z0-9]+|:lo12:", " ", l)):
                    if tok.startswith("dora_") or tok == "main":
                        a.refs.append((tok, "asm"))
            else:
                a.problems.append(("unknown-line", "line %d: %s" % (ln, l[:80])))
    gl = set(a.globals)
    for f in a.fns:
        f.is_global = f.name in gl
    return a


# ------------------------------------------------------------------------------------------------------------
# metadata tables (.dora.functions, .dora.gcpoints, ...): layouts of write_function_metadata in assembly.rs

class FnMeta:
    __slots__ = ("start", "end", "fct_id", "kind", "info_idx", "gc_start", "gc_len", "loc_start", "loc_len",
                 "inl_start", "inl_len", "pad")


class Meta:
    pass


def _ints(a, sec, problems):
    out = []
    for it in a.sec.get(sec, ()):
        if it[0] != "l":
            problems.append(("table-item-not-long", "%s holds %r" % (sec, it)))
            return None
        out.append(it[1])
    return out


def _s32(v):
    v &= 0xFFFFFFFF
    return v - (1 << 32) if v & 0x80000000 else v


def decode_meta(a):
    """Decode the function metadata tables. Structure problems go to meta.problems as (rule id, what)."""
    m = Meta()
    m.problems = []
    P = m.problems
    m.functions = []
    items = a.sec.get(".dora.functions", [])
    if len(items) % 12 != 0:
        P.append(("functions-table-size", ".dora.functions has %d items, not a multiple of 12" % len(items)))
    for i in range(0, len(items) - 11, 12):
        e = items[i:i + 12]
        if e[0][0] != "qs" or e[1][0] != "qs" or any(x[0] != "l" for x in e[2:]):
            P.append(("functions-table-layout", "entry %d of .dora.functions does not have the shape quad sym, quad sym, 10 long" % (i // 12)))
            continue
        f = FnMeta()
        f.start, f.end = e[0][1], e[1][1]
        if e[0][2] or e[1][2]:
            P.append(("functions-table-layout", "entry %d has symbol+offset bounds" % (i // 12)))
        (f.fct_id, f.kind, f.info_idx, f.gc_start, f.gc_len, f.loc_start, f.loc_len, f.inl_start, f.inl_len,
         f.pad) = [x[1] for x in e[2:]]
        m.functions.append(f)
    g = _ints(a, ".dora.gcpoints", P) or []
    if len(g) % 5:
        P.append(("gcpoints-table-size", ".dora.gcpoints has %d longs, not a multiple of 5" % len(g)))
    m.gcpoints = [tuple(g[i:i + 5]) for i in range(0, len(g) - 4, 5)]  # pc, off_start, off_len, int_start, int_len
    m.gc_offsets = [_s32(x) for x in (_ints(a, ".dora.gcpoint_offsets", P) or [])]
    m.gc_interior = [_s32(x) for x in (_ints(a, ".dora.gcpoint_interior_pointers", P) or [])]
    l = _ints(a, ".dora.locations", P) or []
    if len(l) % 4:
        P.append(("locations-table-size", ".dora.locations has %d longs, not a multiple of 4" % len(l)))
    m.locations = [tuple(l[i:i + 4]) for i in range(0, len(l) - 3, 4)]     # pc, inlined id, line, column
    fi = _ints(a, ".dora.function_info", P) or []
    m.function_info = [tuple(fi[i:i + 4]) for i in range(0, len(fi) - 3, 4)]  # name, file, line, column
    il = _ints(a, ".dora.inlined_functions", P) or []
    m.inlined = [tuple(il[i:i + 4]) for i in range(0, len(il) - 3, 4)]       # info idx, parent inlined id, line, col
    st = a.sec.get(".dora.strings", [])
    m.n_strings = len(st) // 2
    m.strings = []
    for i in range(0, len(st) - 1, 2):
        if st[i][0] != "qs" or st[i + 1][0] != "q":
            P.append(("strings-table-layout", "entry %d of .dora.strings is not (quad label, quad length)" % (i // 2)))
            m.strings.append(None)
            continue
        data = bytes(a.rodata.get(st[i][1], b""))
        if len(data) != st[i + 1][1]:
            P.append(("strings-table-length", "string %d: %d payload bytes at %s, table says %d" % (i // 2, len(data), st[i][1], st[i + 1][1])))
        m.strings.append(data)
    return m


# ------------------------------------------------------------------------------------------------------------
# assembling + disassembling with LLVM

def _tool(name):
    for n in (name, name + "-14", name + "-15", name + "-16", name + "-13"):
        p = shutil.which(n)
        if p:
            return p
    return None


LLVM_MC = _tool("llvm-mc")
LLVM_OBJDUMP = _tool("llvm-objdump")


class ToolError(Exception):
    pass


def inst_copy(src, dst):
    """Copy an AArch64 `.s`, rewriting the `.byte` runs inside `.text` to `.inst` words, so that the object
    carries `$x` mapping symbols and llvm-objdump decodes instructions instead of printing `.word`."""
    intext = True
    with open(src, "r", errors="surrogateescape") as i, open(dst, "w", errors="surrogateescape") as o:
        for raw in i:
            l = raw.strip()
            if l.startswith(".byte") and intext:
                bs = [int(x, 16) for x in l[5:].split(",")]
                if len(bs) % 4:
                    o.write(raw)
                    continue
                ws = ["0x%08x" % struct.unpack_from("<I", bytes(bs), k)[0] for k in range(0, len(bs), 4)]
                o.write("    .inst " + ", ".join(ws) + "\n")
                continue
            if l.startswith(".section") or l in (".bss", ".data"):
                intext = False
            elif l == ".text":
                intext = True
            o.write(raw)


class Dis:
    """Per function: prologue (first instructions) and the events that matter for stack maps: call sites, stack
    pointer adjustments, unconditional control transfers."""
    __slots__ = ("fns", "obj", "undecodable")

    def __init__(self):
        # name -> {"addr", "pro": [(off, mnem, ops)], "ev": [(off, code, a, b)], "n": instructions, "bad": undecodable}
        # event codes: 'c' call (a = return offset, b = (mnem, ops)); 's' sp moves down by a bytes (negative = up);
        # 'x' sp changed in a way the checker does not model; 'f' sp := fp (epilogue); 'r' unconditional transfer
        self.fns = {}
        self.obj = None
        self.undecodable = 0


_SYMHDR = re.compile(r"^([0-9a-f]+) <(.+)>:$")
_INSN = re.compile(r"^\s*([0-9a-f]+):\s+(\S+)\s*(.*)$")
CALL_MNEM = {"x64": ("callq", "call"), "arm64": ("bl", "blr", "blraa", "blrab", "blraaz", "blrabz")}
PROLOGUE_LEN = 8
_BAD_MNEM = ("<unknown>", ".byte", ".word", "(bad)", ".inst", ".long")
_X_IMM_RSP = re.compile(r"^\$(-?\d+|-?0x[0-9a-fA-F]+), %rsp$")
_A_PRE = re.compile(r"\[sp, #-(\d+|0x[0-9a-fA-F]+)\]!$")
_A_POST = re.compile(r"\[sp\], #(\d+|0x[0-9a-fA-F]+)$")
_X_RIP = re.compile(r"(?<![\w)])(-?\d+)\(%rip\)")
_A_LIT = re.compile(r",\s*(#?)(-?(?:0x[0-9a-fA-F]+|\d+))")
_A_IMM_SP = re.compile(r"^sp, sp, #(\d+|0x[0-9a-fA-F]+)(?:, lsl #(\d+))?$")


def _event_x64(mnem, ops):
    if mnem == "pushq":
        return ("s", 8)
    if mnem == "popq":
        return ("s", -8)
    if mnem in ("retq", "jmp", "jmpq", "ud2"):
        return ("r", 0)
    if ops.endswith("%rsp"):
        if mnem in ("subq", "addq"):
            m = _X_IMM_RSP.match(ops)
            if m:
                v = int(m.group(1), 0)
                return ("s", v if mnem == "subq" else -v)
            return ("x", 0)
        if mnem == "movq" and ops.replace(" ", "") == "%rbp,%rsp":
            return ("f", 0)
        if mnem in ("cmpq", "testq"):
            return None
        if "," in ops:
            return ("x", 0)
    if mnem == "leave":
        return ("f", 0)
    return None


def _event_arm64(mnem, ops):
    if mnem in ("ret", "b", "br", "udf"):
        return ("r", 0)
    if "sp" not in ops:
        return None
    if mnem in ("stp", "str"):
        m = _A_PRE.search(ops)
        if m:
            return ("s", int(m.group(1), 0))
        if ops.endswith("!") and "[sp" in ops:
            return ("x", 0)
        return None
    if mnem in ("ldp", "ldr"):
        m = _A_POST.search(ops)
        if m:
            return ("s", -int(m.group(1), 0))
        if "[sp]," in ops:
            return ("x", 0)
        return None
    if ops.startswith("sp,"):
        if mnem in ("sub", "add"):
            m = _A_IMM_SP.match(ops)
            if m:
                v = int(m.group(1), 0) << int(m.group(2) or 0)
                return ("s", v if mnem == "sub" else -v)
            if mnem == "add" and ops.replace(" ", "") == "sp,x29,xzr":
                return ("f", 0)
            return ("x", 0)
        if mnem == "mov" and ops.replace(" ", "") == "sp,x29":
            return ("f", 0)
        if mnem in ("cmp", "tst", "cmn"):
            return None
        return ("x", 0)
    return None


def assemble(a, workdir, tag):
    if not LLVM_MC or not LLVM_OBJDUMP:
        raise ToolError("llvm-mc / llvm-objdump not installed")
    src = a.path
    if a.arch == "arm64":
        src = os.path.join(workdir, tag + ".inst.s")
        inst_copy(a.path, src)
    obj = os.path.join(workdir, tag + ".o")
    triple = "aarch64-unknown-linux-gnu" if a.arch == "arm64" else "x86_64-unknown-linux-gnu"
    p = subprocess.run([LLVM_MC, "-triple=" + triple, "-filetype=obj", src, "-o", obj], capture_output=True, text=True)
    if src != a.path:
        os.unlink(src)
    if p.returncode != 0:
        raise ToolError("llvm-mc failed on %s: %s" % (a.path, p.stderr[-600:]))
    return obj


def disassemble(a, workdir, tag, keep_obj=False):
    obj = assemble(a, workdir, tag)
    d = Dis()
    d.obj = obj
    calls = CALL_MNEM[a.arch]
    event = _event_arm64 if a.arch == "arm64" else _event_x64
    cmt = "//" if a.arch == "arm64" else "#"     # AT&T syntax never uses '#' in an operand, AArch64 uses it for immediates
    p = subprocess.Popen([LLVM_OBJDUMP, "-d", "-z", "--no-show-raw-insn", "--section=.text", obj], stdout=subprocess.PIPE,
                         stderr=subprocess.PIPE, text=True, errors="replace")
    cur = None
    ev = None
    base = 0
    pool = 1 << 40
    rip = None
    is_x64 = a.arch != "arm64"
    pending = None   # call waiting for the next instruction's address (= return address)
    size = 0
    for line in p.stdout:
        m = _INSN.match(line)
        if m:
            if cur is None:
                continue
            off = int(m.group(1), 16) - base
            if pending is not None:
                ev.append((pending[0], "c", off, pending[1]))
                pending = None
            if rip is not None:
                # x86-64 pc-relative data reference without relocation: target = next instruction + displacement
                if off < off + rip < size and off + rip < pool:
                    pool = off + rip
                rip = None
            if off >= pool:
                # constants the generators place behind the code of a function (float literals): data, not instructions
                if off < size:
                    cur["pool"] = size - pool
                continue
            if off >= size:
                continue   # alignment padding behind the function's end label
            mnem, ops = m.group(2), m.group(3)
            k = ops.find(cmt)
            if k >= 0:
                ops = ops[:k]
            ops = ops.strip()
            cur["n"] += 1
            if len(cur["pro"]) < PROLOGUE_LEN:
                cur["pro"].append((off, mnem, ops))
            if mnem in calls:
                pending = (off, (mnem, ops))
                continue
            if is_x64:
                if "(%rip)" in ops:
                    mr = _X_RIP.search(ops)
                    if mr:
                        rip = int(mr.group(1))
            elif mnem in ("adr", "ldr", "ldrsw") and "[" not in ops:
                mr = _A_LIT.search(ops)
                if mr:
                    t = int(mr.group(2), 0)
                    t = off + t if mr.group(1) == "#" else t - base
                    if off < t < size and t < pool:
                        pool = t
            e = event(mnem, ops)
            if e is not None:
                ev.append((off, e[0], e[1], None))
            elif mnem in _BAD_MNEM:
                d.undecodable += 1
                cur["bad"] += 1
            continue
        m = _SYMHDR.match(line.rstrip())
        if m:
            if pending is not None and cur is not None:
                # a call as the very last instruction of a function: the return address is the end of the body
                ev.append((pending[0], "c", size, pending[1]))
                pending = None
            name = m.group(2)
            f = a.fn_by_name.get(name)
            if f is None or not f.code:
                cur = None
                continue
            base = int(m.group(1), 16)
            size = len(f.code)
            pool = 1 << 40
            rip = None
            ev = []
            cur = {"addr": base, "pro": [], "ev": ev, "n": 0, "bad": 0, "pool": 0}
            d.fns[name] = cur
    if pending is not None and cur is not None:
        ev.append((pending[0], "c", size, pending[1]))
    err = p.stderr.read()
    rc = p.wait()
    if rc != 0:
        raise ToolError("llvm-objdump failed on %s: %s" % (obj, err[-400:]))
    if not keep_obj:
        os.unlink(obj)
        d.obj = None
    return d


# ------------------------------------------------------------------------------------------------------------
# C10: stack maps

def frame_size(arch, pro):
    """Frame size in bytes below the frame pointer, read from the prologue.
    Returns (size | None when the prologue is not one of the known shapes, description, offset of the first
    instruction behind the prologue)."""
    txt = [(m, o.replace(" ", "")) for (_, m, o) in pro]
    offs = [o for (o, _, _) in pro] + [1 << 30]
    if arch == "x64":
        # pushq %rbp ; movq %rsp, %rbp ; [subq $N, %rsp | movq/movabsq/movl $N, %r ; subq %r, %rsp]
        if len(txt) < 2 or txt[0] != ("pushq", "%rbp") or txt[1] != ("movq", "%rsp,%rbp"):
            return None, "no push rbp / mov rbp, rsp", 0
        if len(txt) > 2 and txt[2][0] == "subq":
            m = re.match(r"^\$(-?\d+|0x[0-9a-fA-F]+),%rsp$", txt[2][1])
            if m:
                return int(m.group(1), 0), "sub rsp, imm", offs[3]
        if len(txt) > 3 and txt[2][0] in ("movq", "movabsq", "movl") and txt[3][0] == "subq":
            m = re.match(r"^\$(-?\d+|0x[0-9a-fA-F]+),%(\w+)$", txt[2][1])
            m2 = re.match(r"^%(\w+),%rsp$", txt[3][1])
            if m and m2:
                r1, r2 = m.group(2), m2.group(1)
                if r1 == r2 or "r" + r1[1:] == r2 or r1.rstrip("d") == r2:
                    return int(m.group(1), 0), "mov+sub", offs[4]
        return 0, "no sub", offs[2]
    # arm64: stp x29, x30, [sp, #-16]! ; mov x29, sp ; [sub sp, sp, #N[, lsl #12] | mov xR, #N ; (movk)* ; sub sp, sp, xR]
    if len(txt) < 2 or txt[0][0] != "stp" or txt[0][1] != "x29,x30,[sp,#-16]!":
        return None, "no stp x29, x30", 0
    if (txt[1][0], txt[1][1]) not in (("mov", "x29,sp"), ("add", "x29,sp,xzr")):
        return None, "no mov x29, sp", 0
    i = 2
    total = 0
    found = False
    while i < len(txt) and txt[i][0] == "sub":
        m = re.match(r"^sp,sp,#(\d+|0x[0-9a-fA-F]+)(?:,lsl#(\d+))?$", txt[i][1])
        if not m:
            break
        total += int(m.group(1), 0) << int(m.group(2) or 0)
        found = True
        i += 1
    if found:
        return total, "sub sp, sp, imm", offs[i]
    if i < len(txt) and txt[i][0] in ("mov", "movz"):
        m = re.match(r"^([xw]\d+),#(-?\d+|0x[0-9a-fA-F]+)(?:,lsl#(\d+))?$", txt[i][1])
        if m:
            reg = m.group(1)
            val = int(m.group(2), 0) << int(m.group(3) or 0)
            j = i + 1
            while j < len(txt) and txt[j][0] == "movk":
                mk = re.match(r"^([xw]\d+),#(\d+|0x[0-9a-fA-F]+)(?:,lsl#(\d+))?$", txt[j][1])
                if not mk or mk.group(1) != reg:
                    break
                sh = int(mk.group(3) or 0)
                val = (val & ~(0xFFFF << sh)) | (int(mk.group(2), 0) << sh)
                j += 1
            if j < len(txt) and txt[j][0] == "sub":
                ms = re.match(r"^sp,sp,([xw]\d+)(?:,uxtx)?$", txt[j][1])
                if ms and ms.group(1)[1:] == reg[1:]:
                    return val, "mov+sub", offs[j + 1]
    return 0, "no sub", offs[2]


def callee_class(target, a, kind_of, K):
    """Class of a call target: (class name, needs a map?)."""
    if target is None:
        return "indirect", True
    k = kind_of.get(target)
    if k is None:
        if target == WRITE_BARRIER:
            return "write-barrier-slow-path", False
        return "external", True
    for name in ALL_KINDS:
        if K[name] == k:
            break
    else:
        return "kind%d" % k, True
    if name == K_OPT:
        return "managed", True
    if name in NORETURN_KINDS:
        return name.lower().replace("_trampoline", "") + "-trampoline", False
    return {K_RTENTRY: "runtime-entry", K_ALLOC: "allocation", K_SAFEPOINT: "safepoint",
            K_DORAENTRY: "dora-entry"}[name], True


class C10Result:
    def __init__(self):
        self.problems = []   # (rule, callee class, what, sample dict)
        self.counters = {}
        self.samples = []

    def c(self, name, n=1):
        self.counters[name] = self.counters.get(name, 0) + n


def check_stackmaps(a, meta, dis, K, max_per_rule=3):
    """C10 rules over one artifact. K = code kind numbers from the source."""
    r = C10Result()
    seen_rule = {}

    def bad(rule, cls, what, **kw):
        n = seen_rule.get((rule, cls), 0)
        seen_rule[(rule, cls)] = n + 1
        r.c("problems")
        if n < max_per_rule:
            r.problems.append((rule, cls, what, kw))

    for pid, what in a.problems:
        bad("parse-" + pid, "-", what)
    for pid, what in meta.problems:
        bad("d-" + pid, "-", what)

    kname = {v: k for k, v in K.items()}
    max_in_args = {}     # function -> bytes of incoming stack arguments that its maps name as roots
    direct_calls = []    # (caller, call offset, target, depth at call)
    kind_of = {}
    entry_of = {}
    for idx, fm in enumerate(meta.functions):
        if fm.start in entry_of:
            bad("d-duplicate-function-entry", "-", "%s has two entries in .dora.functions" % fm.start)
        entry_of[fm.start] = fm
        kind_of[fm.start] = fm.kind
    # (d) ranges in the .s: every entry = [function label, the end label directly behind that function's body];
    # functions are laid out one after another in .text, so distinct entries are disjoint iff each entry's bounds
    # belong to the same function and no function is entered twice.
    for fm in meta.functions:
        f = a.fn_by_name.get(fm.start)
        if f is None:
            bad("d-function-entry-unknown-start", "-", "entry start %s is not a function label in .text" % fm.start)
            continue
        if f.end_label != fm.end:
            bad("d-function-range", kname.get(fm.kind, str(fm.kind)),
                "entry of %s ends at %s but the body of that function ends at %s: ranges overlap or leave a gap" % (
                    fm.start, fm.end, f.end_label))
        if len(f.code) == 0:
            bad("d-function-range-empty", "-", "%s has an empty body" % fm.start)
    for f in a.fns:
        if f.name == "dora_gc_collector":     # one data byte that assembly.rs leaves in .text
            a.collector = f.code[0] if len(f.code) == 1 else None
            continue
        if f.name not in entry_of and f.name != "main":
            bad("d-function-without-entry", "-", "function %s in .text has no entry in .dora.functions" % f.name)

    for fm in meta.functions:
        f = a.fn_by_name.get(fm.start)
        if f is None:
            continue
        kn = kname.get(fm.kind)
        r.c("functions")
        r.c("functions_kind_%s" % (kn.lower() if kn else fm.kind))
        if kn is None:
            bad("c-unknown-code-kind", "-", "%s has code kind %d" % (f.name, fm.kind))
            continue
        size = len(f.code)
        # slices
        if fm.gc_start + fm.gc_len > len(meta.gcpoints) or fm.loc_start + fm.loc_len > len(meta.locations) or \
                fm.inl_start + fm.inl_len > len(meta.inlined) or fm.info_idx >= len(meta.function_info):
            bad("d-table-slice-out-of-range", kn, "%s: metadata slices exceed the tables" % f.name)
            continue
        gps = meta.gcpoints[fm.gc_start:fm.gc_start + fm.gc_len]
        r.c("gcpoints", len(gps))
        gp_by_pc = {}
        prev = -1
        for gp in gps:
            if gp[0] in gp_by_pc:
                bad("d-duplicate-gcpoint", kn, "%s: two gc points at offset %d" % (f.name, gp[0]))
            if gp[0] < prev:
                bad("d-gcpoints-unsorted", kn, "%s: gc point offsets not ascending (%d after %d); the runtime looks them up by binary search" % (f.name, gp[0], prev))
            prev = gp[0]
            gp_by_pc[gp[0]] = gp
        d = dis.fns.get(f.name)
        if d is None:
            bad("tool-function-not-disassembled", kn, "%s missing from the disassembly" % f.name)
            continue
        if d["bad"]:
            r.c("undecodable_instructions", d["bad"])
            bad("tool-undecodable-instruction", kn, "%s: %d instruction(s) the disassembler cannot decode in front of the function's constant area" % (f.name, d["bad"]))
        if d["pool"]:
            r.c("functions_with_constant_area")
            r.c("constant_area_bytes", d["pool"])
        r.c("instructions", d["n"])
        # --- frame size + (d) slot rules
        fs, how, pro_end = frame_size(a.arch, d["pro"])
        if kn == K_DORAENTRY:
            fs = None
        elif fs is None:
            r.c("prologue_unrecognised")
            if gps and any(gp[2] or gp[4] for gp in gps):
                bad("d-prologue-unrecognised", kn, "%s has root slots but its prologue is not a known shape (%s): %s" % (
                    f.name, how, d["pro"][:4]))
        else:
            r.c("frames_measured")
            r.c("frame_via_" + how.replace(", ", "_").replace(" ", "_").replace("+", "_"))
            if fs % 16:
                bad("d-frame-size-unaligned", kn, "%s: frame size %d is not 16-aligned" % (f.name, fs))
        # --- walk the event stream: call sites with the stack depth (bytes below fp) at the call
        if a.arch == "x64":
            reloc_at_ret = {o + 4: t for (o, ty, t, ad) in f.relocs if ty == "R_X86_64_PC32" and ad == -4}
        else:
            reloc_at_ret = {o + 4: t for (o, ty, t, ad) in f.relocs if ty == "R_AARCH64_CALL26"}
        calls = []      # (off, ret, mnem, ops, target, class, needs map, depth at call | None)
        depth = fs      # None = unknown
        for (off, code, x, y) in d["ev"]:
            if off < pro_end and code != "c":
                continue
            if code == "c":
                mnem, ops = y
                indirect = ops.startswith("*") if a.arch == "x64" else mnem != "bl"
                tgt = None if indirect else reloc_at_ret.get(x)
                if not indirect and tgt is None:
                    cls, need = "direct-without-relocation", True
                else:
                    cls, need = callee_class(tgt, a, kind_of, K)
                calls.append((off, x, mnem, ops, tgt, cls, need, depth))
                if cls.endswith("-trampoline") and not need:
                    depth = fs      # never returns: what follows is reached from elsewhere
            elif code == "s":
                if depth is not None:
                    depth += x
            elif code == "r":
                if depth is not None and fs is not None and depth != fs:
                    r.c("blocks_ending_with_unbalanced_sp")
                depth = fs
            elif code == "f":
                depth = None    # epilogue: sp := fp, then pop fp, ret
            else:
                r.c("sp_changes_not_modelled")
                depth = None
        depth_at_ret = {c[1]: c[7] for c in calls}
        for gp in gps:
            pc, os_, ol, is_, il = gp
            if os_ + ol > len(meta.gc_offsets) or is_ + il > len(meta.gc_interior):
                bad("d-gcpoint-slice-out-of-range", kn, "%s@%d: offset slices exceed the tables" % (f.name, pc))
                continue
            if pc > size:
                bad("d-gcpoint-beyond-function", kn, "%s: gc point at %d, function size %d" % (f.name, pc, size))
            offs = meta.gc_offsets[os_:os_ + ol]
            ints = meta.gc_interior[is_:is_ + il]
            if kn == K_OPT:
                lim = depth_at_ret.get(pc)      # frame as of the call: static frame + pushes in front of the call
                if lim is None and pc in depth_at_ret:
                    r.c("gcpoints_with_unknown_depth")
            else:
                lim = fs                        # trampolines: the one map is looked up with the whole frame set up
            if lim is not None and (offs or ints):
                r.c("gcpoints_slots_checked_against_frame")
            r.c("root_slots", len(offs))
            r.c("interior_pairs", len(ints))
            if len(set(offs)) != len(offs):
                bad("d-duplicate-root-slot", kn, "%s@%d: root offsets %s contain a duplicate" % (f.name, pc, offs))
            for o in offs:
                if o % 8:
                    bad("d-slot-unaligned", kn, "%s@%d: root offset %d is not 8-aligned" % (f.name, pc, o))
                elif 0 <= o < 16:
                    bad("d-slot-on-frame-link", kn, "%s@%d: root offset %d names the saved frame pointer / return address" % (f.name, pc, o))
                elif o >= 16:
                    # an incoming stack argument: it lies in the caller's outgoing-argument area (checked against the
                    # stack depth of every direct caller below)
                    r.c("stack_argument_root_slots")
                    if kn != K_OPT:
                        bad("d-slot-not-negative", kn, "%s@%d: trampoline map names offset %d above the frame pointer" % (f.name, pc, o))
                    elif o + 8 - 16 > max_in_args.get(f.name, 0):
                        max_in_args[f.name] = o + 8 - 16
                elif lim is not None and o < -lim:
                    bad("d-slot-below-frame", kn, "%s@%d: root offset %d lies below the stack pointer at that call (frame %s from `%s`, %d bytes below fp at the call)" % (
                        f.name, pc, o, fs, how, lim), function=f.name, pc=pc, offset=o, frame=fs)
            for o in ints:
                # a pair occupies [o, o+16): interior address at o, base in the next word
                if o % 8:
                    bad("d-interior-unaligned", kn, "%s@%d: interior-pointer offset %d is not 8-aligned" % (f.name, pc, o))
                elif o + 16 > 0:
                    bad("d-interior-not-in-frame", kn, "%s@%d: interior pair at %d reaches above the frame pointer" % (f.name, pc, o))
                elif lim is not None and o < -lim:
                    bad("d-interior-not-in-frame", kn, "%s@%d: interior pair at %d below the stack pointer at that call (%d bytes below fp)" % (f.name, pc, o, lim))
                if o in offs or (o + 8) in offs:
                    bad("d-interior-overlaps-root", kn, "%s@%d: interior pair at %d overlaps a plain root slot" % (f.name, pc, o))
        # --- (d) locations and inlined functions
        locs = meta.locations[fm.loc_start:fm.loc_start + fm.loc_len]
        r.c("locations", len(locs))
        prev = -1
        for (pc, inl, line, col) in locs:
            if pc < prev:
                bad("d-locations-unsorted", kn, "%s: location offsets not ascending (%d after %d)" % (f.name, pc, prev))
            prev = max(prev, pc)
            if pc > size:
                bad("d-location-beyond-function", kn, "%s: location at %d, function size %d" % (f.name, pc, size))
            if inl != 0xFFFFFFFF and inl >= fm.inl_len:
                bad("d-inlined-index-out-of-range", kn, "%s: location at %d names inlined function %d of %d" % (f.name, pc, inl, fm.inl_len))
        inls = meta.inlined[fm.inl_start:fm.inl_start + fm.inl_len]
        r.c("inlined_functions", len(inls))
        for i, (info, parent, line, col) in enumerate(inls):
            if info >= len(meta.function_info):
                bad("d-inlined-info-out-of-range", kn, "%s: inlined function %d has info index %d" % (f.name, i, info))
            if parent != 0xFFFFFFFF and parent >= fm.inl_len:
                bad("d-inlined-index-out-of-range", kn, "%s: inlined function %d has parent %d of %d" % (f.name, i, parent, fm.inl_len))
            elif parent != 0xFFFFFFFF and parent >= i:
                bad("d-inlined-parent-order", kn, "%s: inlined function %d has parent %d (not an earlier entry): chain may loop" % (f.name, i, parent))
        for info in [meta.function_info[fm.info_idx]] + [meta.function_info[x[0]] for x in inls if x[0] < len(meta.function_info)]:
            if info[0] >= meta.n_strings or info[1] >= meta.n_strings:
                bad("d-function-info-string-out-of-range", kn, "%s: function info names string %d/%d of %d" % (f.name, info[0], info[1], meta.n_strings))

        # --- call sites
        rets = set()
        for (off, ret, mnem, ops, tgt, cls, need, dep) in calls:
            rets.add(ret)
            if kn == K_OPT:
                r.c("calls_" + cls)
                if cls == "managed" and dep is not None:
                    direct_calls.append((f.name, off, tgt, dep))
                has = ret in gp_by_pc
                if has:
                    r.c("calls_with_map")
                    if not need:
                        r.c("maps_at_exempt_sites")
                elif need:
                    bad("a-call-without-map", cls, "%s: `%s %s` at +%d (target %s) returns to +%d which has no gc point" % (
                        f.name, mnem, ops, off, tgt or "<indirect>", ret), function=f.name, call=off, ret=ret, target=tgt)
                else:
                    r.c("exempt_sites_without_map")
                if has and len(r.samples) < 40 and cls not in [s_["class"] for s_ in r.samples]:
                    gp = gp_by_pc[ret]
                    r.samples.append({"function": f.name, "call_offset": off, "return_offset": ret, "class": cls,
                                      "target": tgt or "%s %s" % (mnem, ops), "frame": fs, "depth_at_call": dep,
                                      "slots": meta.gc_offsets[gp[1]:gp[1] + gp[2]][:12],
                                      "interior": meta.gc_interior[gp[3]:gp[3] + gp[4]][:6]})
            else:
                r.c("trampoline_calls_" + cls)
        if kn == K_OPT:
            for pc in gp_by_pc:
                if pc not in rets:
                    bad("b-map-not-at-return-address", "optimized", "%s: gc point at +%d is not the return address of a call instruction (calls return to %s)" % (
                        f.name, pc, sorted(rets)[:20]), function=f.name, pc=pc)
            # call relocations that are not at a call instruction (tail jumps): counted, they need no map
            for t_ret, t in reloc_at_ret.items():
                if a.arch == "arm64" and t_ret not in rets:
                    r.c("call_relocs_not_at_call_insn")
                if a.arch == "x64" and t_ret not in rets and (t in kind_of or t == WRITE_BARRIER):
                    r.c("call_relocs_not_at_call_insn")
        elif kn == K_DORAENTRY:
            if gps:
                bad("c-entry-trampoline-has-maps", kn, "%s carries %d gc points; the stack walk stops at it" % (f.name, len(gps)))
        else:
            pcs = sorted(gp_by_pc)
            if pcs == [0] and len(gps) == 1:
                r.c("trampolines_with_offset0_map")
            elif not pcs and kn in (K_ALLOC, K_SAFEPOINT):
                r.c("trampolines_walked_without_map")
            else:
                bad("c-trampoline-map", kn.lower(), "%s (kind %s) must carry exactly one gc point at offset 0 (looked up by gcpoint_for_offset(0)), has %s" % (
                    f.name, kn, pcs), function=f.name)
    # (d) incoming stack arguments named as roots must lie inside the frame of every direct caller
    if max_in_args:
        for (caller, off, tgt, dep) in direct_calls:
            need = max_in_args.get(tgt)
            if need is not None:
                r.c("stack_argument_areas_checked_against_caller")
                if need > dep:
                    bad("d-stack-argument-slot-outside-caller-frame", "managed",
                        "%s names %d bytes of incoming stack arguments as roots, but its caller %s+%d has only %d bytes of frame below fp at the call" % (
                            tgt, need, caller, off, dep))
    return r


# ------------------------------------------------------------------------------------------------------------
# C19 part 2: label sets of emitted assembly

def py_mangle(name, prefix="dora_"):
    out = [prefix]
    for b in name.encode("utf-8", "surrogateescape"):
        if (48 <= b <= 57) or (65 <= b <= 90) or (97 <= b <= 122):
            out.append(chr(b))
        else:
            out.append("_%02X" % b)
    return "".join(out)


def py_fnv1a_128(data):
    h = 0x6C62272E07BB014262B821756295C58D
    for b in data:
        h ^= b
        h = (h * 0x0000000001000000000000000000013B) & ((1 << 128) - 1)
    return h


def py_mangle_cap(name, cap, prefix="dora_"):
    s = py_mangle(name, prefix)
    if len(s) <= cap:
        return s
    suffix = "_H%032X" % py_fnv1a_128(s.encode())
    return s[:cap - len(suffix)] + suffix


def py_demangle(sym, prefix="dora_"):
    if not sym.startswith(prefix):
        return None
    body = sym[len(prefix):]
    out = bytearray()
    i = 0
    while i < len(body):
        c = body[i]
        if c == "_":
            h = body[i + 1:i + 3]
            if len(h) != 2 or not re.match(r"^[0-9A-Fa-f]{2}$", h):
                return None
            out.append(int(h, 16))
            i += 3
        elif c.isascii() and c.isalnum():
            out.append(ord(c))
            i += 1
        else:
            return None
    try:
        return out.decode("utf-8")
    except UnicodeDecodeError:
        return None


_ASM_SYMBOL = re.compile(r"^[A-Za-z0-9_$.]+$")
_MANGLED = re.compile(r"^dora_(?:[A-Za-z0-9]|_[0-9A-F]{2})*$")
_SHORTENED = re.compile(r"_H[0-9A-F]{32}$")
_lib_cache = {}


def runtime_symbols():
    """Symbols defined (externally visible) by the libraries every executable is linked with."""
    d = build.bindir("rel")
    key = tuple((n, os.stat(os.path.join(d, n)).st_mtime_ns) for n in ("libdora_startup.a", "libdora_runtime.a"))
    if key in _lib_cache:
        return _lib_cache[key]
    syms = {}
    for n in ("libdora_startup.a", "libdora_runtime.a"):
        p = subprocess.run(["nm", "--defined-only", "--extern-only", "--format=posix", os.path.join(d, n)], capture_output=True, text=True)
        if p.returncode != 0:
            raise ToolError("nm failed on %s: %s" % (n, p.stderr[-300:]))
        for line in p.stdout.split("\n"):
            parts = line.split()
            if len(parts) >= 2 and len(parts[1]) == 1 and parts[1] in "TDBRWVtdbr":
                syms.setdefault(parts[0], set()).add(n)
    _lib_cache.clear()
    _lib_cache[key] = syms
    return syms


class LabelResult:
    def __init__(self):
        self.problems = []   # (rule, what)
        self.counters = {}
        self.samples = []
        self.symbols = set()

    def c(self, name, n=1):
        self.counters[name] = self.counters.get(name, 0) + n


def check_labels(a, meta, K, cap, prefix, libsyms, max_per_rule=3):
    r = LabelResult()
    seen = {}

    def bad(rule, what):
        n = seen.get(rule, 0)
        seen[rule] = n + 1
        r.c("problems")
        if n < max_per_rule:
            r.problems.append((rule, what))

    # 1. every label defined once; every .globl names a defined label, once
    defined = {}
    for (name, sec, ln) in a.labels:
        r.c("labels")
        if name in defined:
            bad("duplicate-label", "label %s defined at line %d and line %d" % (name[:230], defined[name][1], ln))
        else:
            defined[name] = (sec, ln)
        if not _ASM_SYMBOL.match(name):
            bad("label-alphabet", "label %r has a character outside [A-Za-z0-9_$.]" % name[:230])
    gl = {}
    for g in a.globals:
        r.c("globals")
        if g in gl:
            bad("duplicate-global", ".globl %s written twice" % g[:230])
        gl[g] = True
        if g not in defined:
            bad("global-without-label", ".globl %s but no such label" % g[:230])
        if g in libsyms:
            bad("defined-in-both", "%s is defined in the .s and in %s" % (g[:230], sorted(libsyms[g])))
    # 2. function symbols: alphabet of the mangler, cap, agreement with the display name in the metadata
    kname = {v: k for k, v in K.items()}
    by_symbol = {}
    for fm in meta.functions:
        sym = fm.start
        kn = kname.get(fm.kind)
        r.c("function_symbols")
        r.symbols.add(sym)
        if len(sym) > cap:
            bad("symbol-too-long", "%s... has %d characters, cap %d" % (sym[:80], len(sym), cap))
        if not sym.startswith(prefix):
            bad("symbol-prefix", "%s does not start with %s" % (sym[:120], prefix))
        if kn not in (K_OPT, K_RTENTRY):
            r.c("fixed_runtime_symbols")
            continue
        if len(sym) == cap and _SHORTENED.search(sym):
            # a shortened symbol may be cut inside an escape; the promise is only the plain alphabet
            if not re.match(r"^dora_[A-Za-z0-9_]*$", sym):
                bad("symbol-alphabet", "%s has a character outside [A-Za-z0-9_]" % sym[:160])
                continue
        elif not _MANGLED.match(sym):
            bad("symbol-alphabet", "%s is not %s followed by [A-Za-z0-9] and _XX escapes with upper-case hex" % (sym[:160], prefix))
            continue
        info = meta.function_info[fm.info_idx] if fm.info_idx < len(meta.function_info) else None
        name = None
        if info is not None and info[0] < len(meta.strings) and meta.strings[info[0]] is not None:
            try:
                name = meta.strings[info[0]].decode("utf-8")
            except UnicodeDecodeError:
                bad("display-name-not-utf8", "function info of %s is not UTF-8" % sym[:120])
        if name is None:
            r.c("symbols_without_display_name")
            continue
        full = name + ("$runtime_entry" if kn == K_RTENTRY else "")
        want = py_mangle_cap(full, cap, prefix)
        short = len(py_mangle(full, prefix)) > cap
        if short:
            r.c("shortened_symbols")
            if not _SHORTENED.search(sym) or len(sym) != cap:
                bad("shortened-symbol-shape", "%s (display name of %d bytes) is over the cap but the symbol is not <prefix>_H<32 hex> of length %d" % (sym[:100], len(full), cap))
        if sym != want:
            bad("symbol-does-not-match-display-name", "function %r (kind %s) has symbol %s, mangling its display name gives %s" % (
                full[:160], kn, sym[:200], want[:200]))
            continue
        if not short:
            d = py_demangle(sym, prefix)
            r.c("round_trips")
            if d != full:
                bad("demangle-round-trip", "demangle(%s) = %r, display name %r" % (sym[:160], d, full[:160]))
            elif len(r.samples) < 3 and ("_5B" in sym or len(r.samples) == 0):
                r.samples.append({"symbol": sym[:120], "display": full[:120]})
        elif len([x for x in r.samples if x.get("shortened")]) < 1:
            r.samples.append({"symbol": sym, "display_prefix": full[:80], "display_bytes": len(full), "shortened": True})
        prev = by_symbol.get(sym)
        if prev is not None and prev != (full, fm.fct_id):
            bad("two-functions-one-symbol", "%s names both %r and %r" % (sym[:160], prev, (full[:100], fm.fct_id)))
        by_symbol[sym] = (full, fm.fct_id)
    # 3. every referenced symbol is defined exactly once: in the .s or in the run-time libraries
    refs = {}
    for (sym, where) in a.refs:
        refs.setdefault(sym, where)
    for sym, where in refs.items():
        r.c("referenced_symbols")
        in_s = sym in defined
        in_lib = sym in libsyms
        if in_s and in_lib:
            bad("defined-in-both", "%s (referenced by %s) is defined in the .s and in %s" % (sym[:200], where, sorted(libsyms[sym])))
        elif not in_s and not in_lib:
            bad("undefined-target", "%s (referenced by %s) is defined neither in the .s nor in libdora_runtime.a/libdora_startup.a" % (sym[:200], where))
        elif in_lib:
            r.c("targets_resolved_by_runtime_library")
            if sym.startswith(".L"):
                bad("undefined-target", "local label %s is not defined in the .s" % sym[:200])
        else:
            r.c("targets_resolved_in_s")
    for f in a.fns:
        for (o, ty, tgt, ad) in f.relocs:
            if ty in ("R_AARCH64_CALL26",) or (ty == "R_X86_64_PC32" and tgt in a.fn_by_name):
                r.c("call_relocations")
    return r


def labels_job(args):
    j, workdir, tmpdir, K, cap, prefix, libsyms = args
    res = {"id": job_id(j), "job": j, "ok": False, "counters": {}, "problems": [], "samples": [], "symbols": 0}
    try:
        path, rc, err, cmd = emit_s(j, workdir, tmpdir)
        res["cmd"] = " ".join(cmd)
        if path is None:
            res["compile_failed"] = (rc, err[-600:])
            return res
        try:
            a = parse_s(path, j["arch"])
            meta = decode_meta(a)
            r = check_labels(a, meta, K, cap, prefix, libsyms)
            for pid, what in a.problems + meta.problems:
                r.problems.append(("parse-" + pid, what))
            res.update(ok=True, counters=r.counters, problems=r.problems, samples=r.samples, sha=file_sha(path),
                       symbols=sorted(r.symbols) if len(r.symbols) < 400 else len(r.symbols), nsym=len(r.symbols))
            if r.problems and os.path.getsize(path) < 8 << 20:
                res["kept"] = path
        finally:
            if "kept" not in res:
                os.unlink(path)
    except ToolError as e:
        res["tool_error"] = str(e)[-600:]
    return res


def labels_check(ctx):
    """C19 part 2 (called at the end of the C19 check; also usable standalone)."""
    from .core import scratch
    build.ensure_toolchain("rel")
    consts = source_constants()
    K, cap, prefix = consts["kinds"], consts["cap"], consts["prefix"]
    if cap is None or prefix is None or any(k not in K for k in ALL_KINDS):
        ctx.inconc("label check: AOT_SYMBOL_MAX_LEN / SYMBOL_PREFIX / code kinds not found in the sources")
        return
    try:
        libsyms = runtime_symbols()
    except (ToolError, OSError) as e:
        ctx.inconc("label check: %s" % e)
        return
    ctx.extra["runtime_library_symbols"] = len(libsyms)
    work = scratch("c19_labels")
    tmpdir = os.path.join(work, "tmp")
    os.makedirs(tmpdir)
    rng = ctx.rng("labels-corpus")
    programs = touch_programs() + corpus_slice(rng, ctx.pick(16, 60))
    jobs = []
    for i, p in enumerate(programs):
        for (backend, arch) in (CONFIGS if i < 6 else CONFIGS[:2]):
            jobs.append({"src": p, "backend": backend, "arch": arch, "gc": "swiper" if i % 2 == 0 else "copy", "extra": []})
    if not ctx.quick():
        boots = os.path.join(REPO, "pkgs/boots/boots.dora")
        for (backend, arch) in CONFIGS:
            jobs.append({"src": boots, "backend": backend, "arch": arch, "gc": None, "extra": ["--internal-compile-boots"], "timeout": 900})
        jobs.append({"src": boots, "backend": "boots", "arch": "x64", "gc": None, "extra": ["--internal-compile-boots", "--test"], "timeout": 900})
        jobs.append({"src": os.path.join(REPO, "pkgs/postgres/src/lib.dora"), "backend": "boots", "arch": "x64", "gc": None, "extra": ["--test"]})
    jobs.sort(key=lambda j: 0 if j.get("timeout") else 1)
    results = run_jobs(labels_job, [(j, work, tmpdir, K, cap, prefix, libsyms) for j in jobs])
    allsyms = set()
    for r in results:
        if r.get("tool_error"):
            ctx.inconc("label check tool failure on %s: %s" % (r["id"], r["tool_error"][-200:]))
            continue
        if "compile_failed" in r:
            ctx.count("label_artifacts_compile_failed")
            continue
        ctx.count("label_artifacts")
        ctx.evaluations += 1
        for k, v in r["counters"].items():
            ctx.count("label_" + k, v)
        if isinstance(r["symbols"], list):
            allsyms.update(r["symbols"])
        for s_ in r["samples"]:
            have = [x for x in ctx.samples if "symbol" in x]
            if (s_.get("shortened") and not any(x.get("shortened") for x in have)) or len(have) < 3:
                ctx.samples.append(dict(s_, artifact=r["id"]))
        j = r["job"]
        first = True
        for (rule, what) in r["problems"]:
            files = {}
            if first and r.get("kept") and os.path.exists(r["kept"]):
                files["artifact.s"] = open(r["kept"], "rb").read()
                first = False
            ctx.violation("c19:label:%s:%s:%s" % (rule, j["backend"], j["arch"]), "%s\n(artifact %s)" % (what, r["id"]), files=files, cmd=r.get("cmd"))
    ctx.count("label_distinct_function_symbols_small_artifacts", len(allsyms))
    ctx.required_counters = list(getattr(ctx, "required_counters", [])) + ["label_artifacts", "label_round_trips", "label_targets_resolved_by_runtime_library"]
    shutil.rmtree(work, ignore_errors=True)


# ------------------------------------------------------------------------------------------------------------
# ELF reader (for the linked-executable half of the range rule)

def elf_sections(path):
    with open(path, "rb") as fh:
        data = fh.read()
    if data[:4] != b"\x7fELF" or data[4] != 2:
        raise ToolError("not an ELF64 file: " + path)
    shoff, = struct.unpack_from("<Q", data, 0x28)
    shentsize, shnum, shstrndx = struct.unpack_from("<HHH", data, 0x3A)
    secs = []
    for i in range(shnum):
        name, typ, flags, addr, off, size, link, info, align, entsize = struct.unpack_from("<IIQQQQIIQQ", data, shoff + i * shentsize)
        secs.append([name, typ, addr, off, size, entsize])
    stroff = secs[shstrndx][3]
    out = {}
    for s in secs:
        end = data.index(b"\0", stroff + s[0])
        nm = data[stroff + s[0]:end].decode()
        out[nm] = {"type": s[1], "addr": s[2], "off": s[3], "size": s[4], "entsize": s[5],
                   "data": data[s[3]:s[3] + s[4]] if s[1] != 8 else b""}
    return out


def exe_function_ranges(path):
    """[(start, end, fct_id, kind, gc_start, gc_len)] from `.dora.functions` of a linked executable (RELATIVE
    relocations applied when the file is position independent)."""
    secs = elf_sections(path)
    s = secs.get(".dora.functions")
    if s is None:
        raise ToolError("no .dora.functions section in " + path)
    data = bytearray(s["data"])
    rela = secs.get(".rela.dyn")
    if rela is not None:
        rd = rela["data"]
        for i in range(0, len(rd) - 23, 24):
            off, info, addend = struct.unpack_from("<QQq", rd, i)
            if (info & 0xFFFFFFFF) in (8, 1027) and s["addr"] <= off < s["addr"] + s["size"]:  # R_X86_64_RELATIVE / R_AARCH64_RELATIVE
                struct.pack_into("<Q", data, off - s["addr"], addend & 0xFFFFFFFFFFFFFFFF)
    out = []
    for i in range(0, len(data) - 55, 56):
        st, en = struct.unpack_from("<QQ", data, i)
        v = struct.unpack_from("<10I", data, i + 16)
        out.append((st, en, v[0], v[1], v[3], v[4]))
    text = secs.get(".text")
    return out, (text["addr"], text["addr"] + text["size"]) if text else None


# ------------------------------------------------------------------------------------------------------------
# producing `.s` files with the real compiler

def dora_cmd(src, out, backend, arch=None, gc=None, mode="-S", extra=()):
    cmd = [build.dora("rel"), "compile"]
    if mode:
        cmd.append(mode)
    if backend == "cannon":
        cmd.append("--cannon")
    if gc:
        cmd += ["--gc", gc]
    if arch:
        cmd += ["--target", arch]
    return cmd + list(extra) + [src, "-o", out]


def clean_env(tmpdir):
    e = dict(os.environ)
    e.pop("DORA_FLAGS", None)
    e["TMPDIR"] = tmpdir
    return e


def run_tool(cmd, tmpdir, timeout=600, cwd=None):
    """-> (rc or None on timeout, stderr tail)."""
    os.makedirs(tmpdir, exist_ok=True)
    try:
        p = subprocess.run(cmd, env=clean_env(tmpdir), cwd=cwd, stdout=subprocess.PIPE, stderr=subprocess.PIPE,
                           timeout=timeout, stdin=subprocess.DEVNULL)
    except subprocess.TimeoutExpired:
        return None, "timeout after %ds" % timeout
    return p.returncode, p.stderr.decode("utf-8", "replace")[-1500:]


# ------------------------------------------------------------------------------------------------------------
# jobs: one emitted artifact = one (source, backend, arch, collector, flags); run in a process pool

CONFIGS = (("cannon", "x64"), ("boots", "x64"), ("boots", "arm64"))
# `--cannon --target arm64` is not a configuration: the baseline generator picks its macro assembler with
# cfg(target_arch) at build time, so on this host it writes x86-64 function bodies whatever --target says.


def job_id(j):
    return "%s|%s|%s|%s|%s" % (os.path.relpath(j["src"], REPO) if j["src"].startswith(REPO + "/") else os.path.basename(j["src"]),
                               j["backend"], j["arch"], j.get("gc") or "default", " ".join(j.get("extra", ())))


def emit_s(j, workdir, tmpdir):
    """Run the real compiler for job j; -> (path of .s | None, rc, stderr tail, command)."""
    tag = "a%s" % sha(job_id(j))[:12]
    out = os.path.join(workdir, tag)
    cmd = dora_cmd(j["src"], out, j["backend"], j["arch"], j.get("gc"), "-S", j.get("extra", ()))
    rc, err = run_tool(cmd, tmpdir, timeout=j.get("timeout", 600), cwd=workdir)
    path = out + ".s"
    if rc != 0 or not os.path.exists(path):
        return None, rc, err, cmd
    return path, rc, err, cmd


def c10_job(args):
    """Pool worker: emit, parse, disassemble, check one artifact. Returns a plain dict."""
    j, workdir, tmpdir, K, keep = args
    import time
    t0 = time.time()
    res = {"id": job_id(j), "job": j, "ok": False, "counters": {}, "problems": [], "samples": [], "labels": None}
    try:
        path, rc, err, cmd = emit_s(j, workdir, tmpdir)
        res["cmd"] = " ".join(cmd)
        res["t_compile"] = time.time() - t0
        if path is None:
            res["compile_failed"] = (rc, err[-600:])
            return res
        try:
            a = parse_s(path, j["arch"])
            fam = set("arm64" if "AARCH64" in ty else "x64" for f in a.fns for (_, ty, _, _) in f.relocs)
            if fam and fam != {j["arch"]}:
                a.problems.append(("relocations-of-other-architecture", "requested %s, relocation families %s" % (j["arch"], sorted(fam))))
            meta = decode_meta(a)
            tag = os.path.basename(path)[:-2]
            dis = disassemble(a, workdir, tag)
            r = check_stackmaps(a, meta, dis, K)
            res["counters"] = r.counters
            res["problems"] = [(p[0], p[1], p[2]) for p in r.problems]
            res["samples"] = r.samples[:8]
            res["size"] = os.path.getsize(path)
            res["sha"] = file_sha(path)
            res["ok"] = True
            if r.problems and keep and os.path.getsize(path) < 8 << 20:
                res["kept"] = path
        finally:
            if "kept" not in res:
                try:
                    os.unlink(path)
                except OSError:
                    pass
    except ToolError as e:
        res["tool_error"] = str(e)[-600:]
    res["t_total"] = time.time() - t0
    return res


def file_sha(path):
    import hashlib
    h = hashlib.sha256()
    with open(path, "rb") as fh:
        while True:
            b = fh.read(1 << 20)
            if not b:
                break
            h.update(b)
    return h.hexdigest()


def run_jobs(fn, argl, workers=None):
    """Unordered process-pool map that survives a dying worker (result None for that item)."""
    from concurrent.futures import as_completed
    out = []
    with ProcessPoolExecutor(max_workers=workers or NCPU) as ex:
        futs = {ex.submit(fn, a): a for a in argl}
        for fu in as_completed(futs):
            try:
                out.append(fu.result())
            except Exception as e:      # BrokenProcessPool, pickling, ...
                out.append({"id": "?", "ok": False, "tool_error": "worker failed: %r" % (e,), "counters": {}, "problems": [],
                            "samples": [], "job": futs[fu][0] if isinstance(futs[fu], tuple) else None})
    return out


def check_exe_ranges(path):
    """(d) on a linked executable: the [start,end) pairs registered with the run-time are non-empty, inside .text
    and pairwise disjoint. -> (number of ranges, [problem strings])"""
    ranges, text = exe_function_ranges(path)
    probs = []
    rs = sorted((s_, e_, k) for (s_, e_, _, k, _, _) in ranges)
    for (s_, e_, k) in rs:
        if e_ <= s_:
            probs.append(("d-exe-range-empty", "range [%#x,%#x) of kind %d is empty or inverted" % (s_, e_, k)))
        if text and not (text[0] <= s_ and e_ <= text[1]):
            probs.append(("d-exe-range-outside-text", "range [%#x,%#x) outside .text [%#x,%#x)" % (s_, e_, text[0], text[1])))
    for (a1, b1, _), (a2, b2, _) in zip(rs, rs[1:]):
        if a2 < b1:
            probs.append(("d-exe-ranges-overlap", "ranges [%#x,%#x) and [%#x,%#x) overlap" % (a1, b1, a2, b2)))
    return len(rs), probs


# ------------------------------------------------------------------------------------------------------------
# corpus

def corpus_files():
    """Runnable corpus: test/rt/**.dora + bench/*/*.dora, minus files that are expected not to compile or that only
    redirect to another file."""
    out = []
    for top in ("test/rt", "bench"):
        for root, dirs, files in os.walk(os.path.join(REPO, top)):
            dirs.sort()
            for f in sorted(files):
                if not f.endswith(".dora"):
                    continue
                p = os.path.join(root, f)
                try:
                    head = open(p, errors="replace").read(600)
                except OSError:
                    continue
                if "//= ignore" in head or "//= file" in head or re.search(r"//= error (at|code|\")", head) and "fn main" not in head:
                    continue
                out.append(p)
    return out


def corpus_slice(rng, n, spread=True):
    files = corpus_files()
    if n >= len(files):
        return files
    if not spread:
        return rng.sample(files, n)
    # one per directory first (touches every feature area), then random fill
    by_dir = {}
    for p in files:
        by_dir.setdefault(os.path.dirname(p), []).append(p)
    pick = []
    dirs = sorted(by_dir)
    rng.shuffle(dirs)
    for d in dirs:
        if len(pick) >= n:
            break
        pick.append(rng.choice(by_dir[d]))
    rest = [p for p in files if p not in set(pick)]
    rng.shuffle(rest)
    pick += rest[:max(0, n - len(pick))]
    return pick[:n]


# ------------------------------------------------------------------------------------------------------------
# "touch everything" programs: together they reach trait objects + thunks, lambdas with contexts, generics with
# deep instantiations (symbols beyond the length cap), enums/match, structs with references (interior pointers),
# arrays/Vec/HashMap/String of the standard library, threads/mutex/atomics, large objects, forced collections,
# more reference arguments than argument registers (stack-passed roots), floats, checked arithmetic, jump tables.

TOUCH = {}
TOUCH['touch_dispatch'] = '''use std::HashMap;
use std::Stringable;

trait Shape {
    fn area(): Int64;
    fn name(): String;
    fn ratio(other: Shape): Float64;
    fn half(): Float32;
    fn touch(log: Vec[String]);
    fn pair(): (String, Int64);
    fn combine(other: Shape, label: String): String {
        "${self.name()}+${other.name()}:${label}"
    }
}

class Sq { side: Int64, tag: String }
class Circle { r: Int64, owner: Holder }
class Holder { items: Vec[String], next: Option[Holder] }
struct Pair { a: String, b: Holder }
struct Mixed { x: Int32, s: String, y: Float64, h: Holder }
enum Tree { Leaf(Int64), Node(Tree, String, Tree), Empty }

impl Shape for Sq {
    fn area(): Int64 { self.side * self.side }
    fn name(): String { "sq".clone() + self.tag }
    fn ratio(other: Shape): Float64 { self.area().to_float64() / other.area().to_float64() }
    fn half(): Float32 { self.side.to_float32() / 2.0f32 }
    fn touch(log: Vec[String]) { log.push(self.tag); }
    fn pair(): (String, Int64) { (self.tag, self.side) }
}

impl Shape for Circle {
    fn area(): Int64 { 3 * self.r * self.r }
    fn name(): String { "circle${self.owner.items.size()}" }
    fn ratio(other: Shape): Float64 { other.ratio(self as Shape) + 1.0 }
    fn half(): Float32 { 0.5f32 }
    fn touch(log: Vec[String]) { log.push(self.name()); self.owner.items.push("t"); }
    fn pair(): (String, Int64) { (self.name(), self.r) }
}

fn total[T: Shape](xs: Vec[T]): Int64 {
    let mut sum = 0;
    for x in xs { sum = sum + x.area(); }
    sum
}

fn depth(t: Tree): Int64 {
    match t {
        Tree::Leaf(_) => 1,
        Tree::Node(l, _, r) => {
            let a = depth(l);
            let b = depth(r);
            if a > b { a + 1 } else { b + 1 }
        }
        Tree::Empty => 0,
    }
}

fn build(n: Int64, label: String): Tree {
    if n == 0 { return Tree::Empty; }
    if n == 1 { return Tree::Leaf(n); }
    Tree::Node(build(n - 1, label + "l"), label, build(n - 2, label + "r"))
}

fn many_refs(a: String, b: String, c: String, d: String, e: String, f: String, g: String, h: String,
             i: String, j: String, k: Holder, l: Int64, m: Float64, n: String): String {
    std::force_collect();
    let v = Vec[String]::new();
    v.push(a); v.push(b); v.push(c); v.push(d); v.push(e); v.push(f); v.push(g); v.push(h); v.push(i); v.push(j);
    v.push(n);
    k.items.push("x${l}${m}");
    let mut out = "";
    for s in v { out = out + s; }
    out
}

fn apply(f: (Int64, String): String, n: Int64): String {
    let mut acc = "";
    let mut i = 0;
    while i < n {
        acc = acc + f(i, acc);
        i = i + 1;
    }
    acc
}

fn pairs(n: Int64): Array[Pair] {
    let h = Holder(items = Vec[String]::new(), next = None[Holder]);
    let arr = Array[Pair]::fill(n, Pair(a = "p", b = h));
    let mut i = 0;
    while i < n {
        arr(i) = Pair(a = "p${i}", b = Holder(items = Vec[String]::new(), next = Some[Holder](h)));
        i = i + 1;
    }
    arr
}

fn mixed(m: Mixed, p: Pair): Mixed {
    std::force_minor_collect();
    Mixed(x = m.x + 1i32, s = m.s + p.a, y = m.y * 2.0, h = p.b)
}

fn main() {
    let h = Holder(items = Vec[String]::new(), next = None[Holder]);
    let shapes = Vec[Shape]::new();
    shapes.push(Sq(side = 3, tag = "a") as Shape);
    shapes.push(Circle(r = 2, owner = h) as Shape);
    let mut sum = 0;
    for s in shapes { sum = sum + s.area(); }
    assert(sum == 21);
    let label = shapes(0).combine(shapes(1), "z");
    let log = Vec[String]::new();
    let mut fsum = 0.0;
    let mut hsum = 0.0f32;
    for s in shapes {
        fsum = fsum + s.ratio(shapes(0));
        hsum = hsum + s.half();
        s.touch(log);
        let (n, k) = s.pair();
        assert(n.size() > 0 && k > 0);
    }
    assert(fsum > 1.0 && hsum == 2.0f32 && log.size() == 2);
    assert(label.size() > 3);
    let sqs = Vec[Sq]::new();
    sqs.push(Sq(side = 1, tag = "q"));
    assert(total[Sq](sqs) == 1);
    let t = build(6, "t");
    assert(depth(t) > 2);
    let r = many_refs("a", "b", "c", "d", "e", "f", "g", "h", "i", "j", h, 7, 1.5, "n");
    assert(r == "abcdefghijn");
    let captured = "c";
    let counter = Holder(items = Vec[String]::new(), next = None[Holder]);
    let out = apply(|i: Int64, acc: String|: String {
        counter.items.push(acc);
        "${captured}${i}"
    }, 4);
    assert(out == "c0c1c2c3");
    assert(counter.items.size() == 4);
    let ps = pairs(5);
    assert(ps(4).a == "p4");
    let mx = mixed(Mixed(x = 1i32, s = "s", y = 2.0, h = h), ps(1));
    assert(mx.x == 2i32);
    let map = HashMap[Int64, Holder]::new();
    map.insert(1, h);
    map.insert(2, counter);
    assert(map.contains(1));
    for (k, v) in map { assert(k > 0); assert(v.items.size() >= 0); }
    println("${sum} ${label} ${mx.s} ${1.5.to_string()}");
}
'''

TOUCH['touch_threads'] = '''use std::thread;
use std::Mutex;
use std::AtomicInt64;

class Node { value: Int64, next: Option[Node], payload: Array[String] }
class Shared { mtx: Mutex, list: Vec[Node], counter: AtomicInt64 }

fn make_list(n: Int64, label: String): Option[Node] {
    let mut head: Option[Node] = None[Node];
    let mut i = 0;
    while i < n {
        head = Some[Node](Node(value = i, next = head, payload = Array[String]::fill(3, label)));
        i = i + 1;
    }
    head
}

fn sum_list(l: Option[Node]): Int64 {
    let mut cur = l;
    let mut s = 0;
    while cur.is_some() {
        let n = cur.get_or_panic();
        s = s + n.value + n.payload.size();
        cur = n.next;
    }
    s
}

fn worker(sh: Shared, id: Int64) {
    let mut round = 0;
    while round < 20 {
        let l = make_list(50, "w${id}");
        let total = sum_list(l);
        sh.mtx.lock[()](||: () {
            sh.list.push(Node(value = total, next = l, payload = Array[String]::new("a", "b")));
        });
        sh.counter.fetch_add(1);
        if round % 7 == 0 { std::force_minor_collect(); }
        round = round + 1;
    }
}

fn main() {
    let sh = Shared(mtx = Mutex::new(), list = Vec[Node]::new(), counter = AtomicInt64::new(0));
    let threads = Vec[thread::Thread]::new();
    let mut i = 0;
    while i < 3 {
        let id = i;
        threads.push(thread::spawn(||: () { worker(sh, id); }));
        i = i + 1;
    }
    worker(sh, 99);
    for t in threads { t.join(); }
    std::force_collect();
    assert(sh.list.size() == 80);
    assert(sh.counter.get() == 80);
    let big = Array[Option[Node]]::fill(40000, None[Node]);
    big(39999) = make_list(3, "big");
    std::force_collect();
    assert(sum_list(big(39999)) == 12);
    println("ok ${sh.list.size()}");
}
'''

TOUCH['touch_numeric'] = '''struct V3 { x: Float64, y: Float64, z: Float64 }
impl V3 {
    fn dot(o: V3): Float64 { self.x * o.x + self.y * o.y + self.z * o.z }
    fn scale(f: Float64): V3 { V3(x = self.x * f, y = self.y * f, z = self.z * f) }
}
struct Acc { hits: Int32, total: Int64, avg: Float32, flag: Bool, c: Char, b: UInt8 }

fn div(a: Int64, b: Int64): Int64 { a / b }
fn rem32(a: Int32, b: Int32): Int32 { a % b }
fn shifts(a: Int64, n: Int32): Int64 { (a << n) + (a >> n) + (a >>> n) }
fn idx(a: Array[Int32], i: Int64): Int32 { a(i) }
fn conv(x: Float64): Int64 { x.to_int64() }
fn conv32(x: Int32): Float32 { x.to_float32() }
fn sel(k: Int64): Int64 {
    match k {
        0 => 10, 1 => 11, 2 => 12, 3 => 13, 4 => 14, 5 => 15, 6 => 16, 7 => 17, 8 => 18, 9 => 19, _ => -1,
    }
}
fn fold(xs: Array[Float64]): Float64 {
    let mut s = 0.0;
    for x in xs { s = s + x * 0.5; }
    s
}
fn acc(a: Acc, n: Int32): Acc {
    Acc(hits = a.hits + n, total = a.total + n.to_int64(), avg = a.avg + 0.5f32, flag = !a.flag, c = a.c, b = a.b)
}
fn bytes(s: String): Int64 {
    let mut t = 0;
    for b in s.as_bytes() { t = t + b.to_int64(); }
    t
}

fn main() {
    let v = V3(x = 1.0, y = 2.0, z = 3.0);
    assert(v.dot(v.scale(2.0)) == 28.0);
    assert(div(7, 2) == 3);
    assert(rem32(7i32, 3i32) == 1i32);
    assert(shifts(256, 4i32) == 4096 + 16 + 16);
    let a = Array[Int32]::new(1i32, 2i32, 3i32);
    assert(idx(a, 2) == 3i32);
    assert(conv(3.9) == 3);
    assert(conv32(3i32) == 3.0f32);
    let mut k = 0;
    let mut s = 0;
    while k < 12 { s = s + sel(k); k = k + 1; }
    assert(s == 143);
    assert(fold(Array[Float64]::new(1.0, 2.0, 3.0)) == 3.0);
    let r = acc(Acc(hits = 1i32, total = 2, avg = 0.0f32, flag = false, c = 'x', b = 7u8), 3i32);
    assert(r.hits == 4i32 && r.flag);
    assert(bytes("abc") == 294);
    let x = 5.wrapping_mul(3) + 1i32.to_int64();
    assert(x == 16);
    println("${v.dot(v)} ${s} ${r.total} ${x}");
}
'''

TOUCH['touch_generic'] = '''use std::HashMap;

class Box[T] { value: T }
class Pair2[A, B] { first: A, second: B }
trait Describe { fn describe(): String; }
impl Describe for Int64 { fn describe(): String { "i${self}" } }
impl Describe for String { fn describe(): String { "s" + self } }
impl[T: Describe] Describe for Box[T] { fn describe(): String { "Box(" + self.value.describe() + ")" } }
impl[A: Describe, B: Describe] Describe for Pair2[A, B] {
    fn describe(): String { "(" + self.first.describe() + "," + self.second.describe() + ")" }
}
impl[T: Describe] Describe for Vec[T] {
    fn describe(): String {
        let mut s = "[";
        for x in self { s = s + x.describe(); }
        s + "]"
    }
}
impl[T: Describe] Describe for Option[T] {
    fn describe(): String { if self.is_some() { "Some " + self.get_or_panic().describe() } else { "None" } }
}

fn wrap[T](x: T): Box[T] { Box[T](value = x) }
fn twice[T: Describe](x: T): String { x.describe() + x.describe() }
fn nest[A: Describe, B: Describe](a: A, b: B): Pair2[Box[Pair2[A, B]], Vec[Option[Pair2[B, A]]]] {
    let v = Vec[Option[Pair2[B, A]]]::new();
    v.push(Some[Pair2[B, A]](Pair2[B, A](first = b, second = a)));
    v.push(None[Pair2[B, A]]);
    Pair2[Box[Pair2[A, B]], Vec[Option[Pair2[B, A]]]](first = wrap[Pair2[A, B]](Pair2[A, B](first = a, second = b)), second = v)
}
fn keep[K: std::Hash + std::Equals, V](m: HashMap[K, V], k: K, v: V): HashMap[K, V] { m.insert(k, v); m }

fn main() {
    let a = nest[Int64, String](1, "x");
    let b = nest[Pair2[Box[Pair2[Int64, String]], Vec[Option[Pair2[String, Int64]]]], Box[Box[Box[String]]]](a, wrap[Box[Box[String]]](wrap[Box[String]](wrap[String]("deep"))));
    let c = nest[Pair2[Box[Pair2[Pair2[Box[Pair2[Int64, String]], Vec[Option[Pair2[String, Int64]]]], Box[Box[Box[String]]]]], Vec[Option[Pair2[Box[Box[Box[String]]], Pair2[Box[Pair2[Int64, String]], Vec[Option[Pair2[String, Int64]]]]]]]], Int64](b, 2);
    let d = twice[Pair2[Box[Pair2[Pair2[Box[Pair2[Pair2[Box[Pair2[Int64, String]], Vec[Option[Pair2[String, Int64]]]], Box[Box[Box[String]]]]], Vec[Option[Pair2[Box[Box[Box[String]]], Pair2[Box[Pair2[Int64, String]], Vec[Option[Pair2[String, Int64]]]]]]]], Int64]], Vec[Option[Pair2[Int64, Pair2[Box[Pair2[Pair2[Box[Pair2[Int64, String]], Vec[Option[Pair2[String, Int64]]]], Box[Box[Box[String]]]]], Vec[Option[Pair2[Box[Box[Box[String]]], Pair2[Box[Pair2[Int64, String]], Vec[Option[Pair2[String, Int64]]]]]]]]]]]]](c);
    assert(d.size() > 100);
    let m = keep[Int64, Box[Vec[Option[Pair2[String, Int64]]]]](HashMap[Int64, Box[Vec[Option[Pair2[String, Int64]]]]]::new(), 1, wrap[Vec[Option[Pair2[String, Int64]]]](a.second));
    assert(m.contains(1));
    println(d);
}
'''


def touch_programs():
    """Write the touch programs to a stable path (the input path is part of the emitted debug info) and return the paths."""
    d = os.path.join(BUILD, "corpus", "touch")
    os.makedirs(d, exist_ok=True)
    out = []
    for name in sorted(TOUCH):
        p = os.path.join(d, name + ".dora")
        if not os.path.exists(p) or open(p).read() != TOUCH[name]:
            with open(p + ".tmp%d" % os.getpid(), "w") as fh:
                fh.write(TOUCH[name])
            os.replace(p + ".tmp%d" % os.getpid(), p)
        out.append(p)
    return out
