"""Stdlib / intrinsic boundary program generator (C02 workload 1; DESIGN.md 5 C02).

Reads the signatures of the public functions and methods of pkgs/std/{primitives,string,collections,traits,rand,io,std}.dora
from the *working tree* (tolerant mini parser over `impl ... { ... }` / `trait ... { ... }` blocks), instantiates every
signature it can (type parameters -> a few concrete types that satisfy the bounds, checked against the `impl Trait for T`
blocks found in the same sources), and emits argv-dispatched batch programs: one case = one call of one std entry point with
one combination of per-type hostile values; the result (and the receiver / collection arguments after the call) is printed
through monomorphic `sh_<type>` functions generated alongside.

Nothing here knows what the call *should* do: the programs are only meant to be run on both code generators (C02).

API
    cat   = stdgen.Catalog(repo)                       # parsed signatures, traits, impl table
    gen   = stdgen.Generator(cat)
    tmpls = gen.templates()                            # every instantiated call template (+ cat.skipped with reasons)
    ok    = gen.validate(tmpls, check_fn)              # drop templates the front end rejects (check_fn(src)->error lines)
    progs = gen.programs(ok, rng, per_template, cases_per_program, max_programs)   # [BatchProgram]
"""
import os
import re

STD_FILES = ["primitives", "string", "collections", "traits", "rand", "io", "std"]
BARE = {"Bool", "UInt8", "Char", "Int32", "Int64", "Float32", "Float64", "String", "Array", "Vec", "Option", "Result", "Int", "Never"}
BASE_TYPES = ["Int64", "String", "UInt8", "Float64", "Int32", "Char", "Bool", "Float32"]

# entry points whose behaviour legitimately depends on time / the environment, or that would disturb the observation itself
DENY = {
    "std::sleep": "sleeps", "std::timestamp": "reads the clock", "std::debug": "debugger trap",
    "std::take_heap_snapshot": "writes a snapshot file", "std::take_heap_snapshot_for_testing": "writes a snapshot file",
    "std::io::File::create": "creates files", "std::io::File::write_as_string": "creates files",
    "std::io::File::write_as_bytes": "creates files", "std::io::OpenFile::close": "closes the streams the oracle observes",
    "std::io::TcpListener::bind": "network", "std::io::TcpListener::accept": "network", "std::io::TcpListener::close": "network",
    "std::io::TcpStream::connect": "network", "std::io::TcpStream::close": "network", "std::io::TcpStream::read": "network",
    "std::io::TcpStream::write": "network", "std::io::TcpStream::flush": "network",
    "std::Stacktrace::new": "captures return addresses", "std::Stacktrace::print": "captures return addresses",
    "std::Stacktrace::symbolize": "captures return addresses",
}


# ---------------------------------------------------------------------------------------------------------------
# lexical helpers

def blank_comments_and_strings(s):
    """Same length text with comments blanked and string/char literal *contents* replaced by spaces."""
    out = list(s)
    i, n = 0, len(s)
    while i < n:
        c = s[i]
        if c == "/" and i + 1 < n and s[i + 1] == "/":
            j = s.find("\n", i)
            j = n if j < 0 else j
            for k in range(i, j):
                out[k] = " "
            i = j
        elif c == "/" and i + 1 < n and s[i + 1] == "*":
            j = s.find("*/", i + 2)
            j = n if j < 0 else j + 2
            for k in range(i, j):
                if out[k] != "\n":
                    out[k] = " "
            i = j
        elif c == '"':
            j = i + 1
            while j < n and s[j] != '"':
                j += 2 if s[j] == "\\" else 1
            for k in range(i + 1, min(j, n)):
                if out[k] != "\n":
                    out[k] = " "
            i = j + 1
        elif c == "'":
            # char literal: 'x' or '\x' (anything else, e.g. a lifetime-like tick, is left alone)
            if i + 2 < n and s[i + 1] == "\\":
                j = s.find("'", i + 2)
                if 0 < j <= i + 8:
                    for k in range(i + 1, j):
                        out[k] = " "
                    i = j + 1
                    continue
            elif i + 2 < n:
                j = s.find("'", i + 1)
                if 0 < j <= i + 5:
                    for k in range(i + 1, j):
                        out[k] = " "
                    i = j + 1
                    continue
            i += 1
        else:
            i += 1
    return "".join(out)


def match_close(s, i, open_ch, close_ch):
    """s[i] == open_ch -> index of the matching close_ch (or -1)."""
    depth = 0
    for k in range(i, len(s)):
        if s[k] == open_ch:
            depth += 1
        elif s[k] == close_ch:
            depth -= 1
            if depth == 0:
                return k
    return -1


def split_top(s, sep=","):
    parts, depth, cur = [], 0, []
    for ch in s:
        if ch in "([{":
            depth += 1
        elif ch in ")]}":
            depth -= 1
        if ch == sep and depth == 0:
            parts.append("".join(cur))
            cur = []
        else:
            cur.append(ch)
    if "".join(cur).strip():
        parts.append("".join(cur))
    return [p.strip() for p in parts]


# ---------------------------------------------------------------------------------------------------------------
# types: ("n", name, (args...)) | ("t", (elems...)) | ("f", (params...), ret)

UNIT = ("t", ())


class TypeSyntax(Exception):
    pass


def parse_type(s):
    s = s.strip()
    if not s:
        raise TypeSyntax("empty type")
    if s[0] == "(":
        j = match_close(s, 0, "(", ")")
        if j < 0:
            raise TypeSyntax(s)
        elems = tuple(parse_type(p) for p in split_top(s[1:j]))
        rest = s[j + 1:].strip()
        if rest.startswith(":"):
            return ("f", elems, parse_type(rest[1:]))
        if rest:
            raise TypeSyntax(s)
        if len(elems) == 1:
            return elems[0]
        return ("t", elems)
    m = re.match(r"[A-Za-z_][A-Za-z0-9_]*(?:::[A-Za-z_][A-Za-z0-9_]*)*", s)
    if not m:
        raise TypeSyntax(s)
    name, rest = m.group(0), s[m.end():].strip()
    args = ()
    if rest.startswith("["):
        j = match_close(rest, 0, "[", "]")
        if j < 0:
            raise TypeSyntax(s)
        args = tuple(parse_type(p) for p in split_top(rest[1:j]))
        rest = rest[j + 1:].strip()
    if rest:
        raise TypeSyntax(s)
    if name == "Int":
        name = "Int64"
    return ("n", name, args)


def short(name):
    return name.split("::")[-1]


def subst(ty, b):
    k = ty[0]
    if k == "n":
        if not ty[2] and ty[1] in b:
            return b[ty[1]]
        return ("n", ty[1], tuple(subst(a, b) for a in ty[2]))
    if k == "t":
        return ("t", tuple(subst(a, b) for a in ty[1]))
    return ("f", tuple(subst(a, b) for a in ty[1]), subst(ty[2], b))


def names_in(ty, acc=None):
    acc = set() if acc is None else acc
    if ty[0] == "n":
        acc.add(ty[1])
        for a in ty[2]:
            names_in(a, acc)
    elif ty[0] == "t":
        for a in ty[1]:
            names_in(a, acc)
    else:
        for a in ty[1]:
            names_in(a, acc)
        names_in(ty[2], acc)
    return acc


def unify(pat, con, tvars, b):
    """Structural unification of a type pattern (type variables `tvars`) with a concrete type; extends binding b."""
    if pat[0] == "n" and not pat[2] and pat[1] in tvars:
        if pat[1] in b:
            return b[pat[1]] == con
        b[pat[1]] = con
        return True
    if pat[0] != con[0]:
        return False
    if pat[0] == "n":
        if short(pat[1]) != short(con[1]) or len(pat[2]) != len(con[2]):
            return False
        return all(unify(p, c, tvars, b) for p, c in zip(pat[2], con[2]))
    if pat[0] == "t":
        return len(pat[1]) == len(con[1]) and all(unify(p, c, tvars, b) for p, c in zip(pat[1], con[1]))
    return len(pat[1]) == len(con[1]) and all(unify(p, c, tvars, b) for p, c in zip(pat[1], con[1])) and unify(pat[2], con[2], tvars, b)


def mangle(s):
    return re.sub(r"_+", "_", re.sub(r"\W", "_", s)).strip("_")


# ---------------------------------------------------------------------------------------------------------------
# catalogue of signatures

class Sig:
    def __init__(self):
        self.file = self.module = self.name = ""
        self.line = 0
        self.owner = None          # type pattern of the impl target (None: free function)
        self.trait = None          # trait pattern when the method comes from `impl Trait for X` / a trait default method
        self.impl_tparams = []     # [(name, [bound names])]
        self.tparams = []
        self.params = []           # [(name, type, variadic)]
        self.ret = UNIT
        self.static = self.pub = self.internal = self.has_body = False
        self.where = None
        self.assoc = {}            # associated types of the enclosing impl
        self.inherited = False     # trait default method copied into an impl

    def callee(self):
        if self.owner is None:
            return "%s::%s" % (self.module, self.name)
        o = self.owner[1] if self.owner[0] == "n" else "(tuple)"
        if self.inherited and self.trait is not None:
            o = self.trait[1]       # default method of a trait: one body whatever the implementing type
        return "%s::%s::%s" % (self.module, short(o), self.name)

    def ident(self):
        return "%s@%s:%d" % (self.callee(), self.file, self.line)


def parse_tparams(s):
    """`T: A + B, U` -> [(T, [A, B]), (U, [])]"""
    out = []
    for p in split_top(s):
        if ":" in p:
            n, bs = p.split(":", 1)
            out.append((n.strip(), [b.strip() for b in split_top(bs, "+")]))
        else:
            out.append((p.strip(), []))
    return out


class Catalog:
    def __init__(self, repo, files=STD_FILES):
        self.repo = repo
        self.sigs = []             # every fn found in impl blocks / at top level (public or not)
        self.skipped = []          # (ident, reason)
        self.impls = []            # (trait name, owner pattern, impl_tparams, assoc)
        self.traits = {}           # name -> {"module":, "methods": [Sig templates with bodies], "assoc": [names]}
        self.decl = {}             # type/trait name -> module path
        self.globals = []          # (module, name, type)
        self.enums = {}            # name -> [variant names] for payload-free enums
        self.private_types = set()
        for f in files:
            p = os.path.join(repo, "pkgs", "std", f + ".dora")
            if os.path.exists(p):
                self._parse_file(f, p)
        self._inherit_defaults()

    # -- parsing ----------------------------------------------------------------------------
    def _parse_file(self, fname, path):
        raw = open(path, encoding="utf-8").read()
        s = blank_comments_and_strings(raw)
        module = "std" if fname == "std" else "std::" + fname
        i, n = 0, len(s)
        rx = re.compile(r"(?m)^((?:@\w+\s+)*)(pub\s+)?(impl|trait|class|struct|enum|fn|let|type|mod|use|const)\b")
        while True:
            m = rx.search(s, i)
            if not m:
                break
            kw, pub = m.group(3), bool(m.group(2))
            start = m.end()
            line = s.count("\n", 0, m.start()) + 1
            if kw in ("class", "struct", "enum", "trait"):
                nm = re.match(r"\s*([A-Za-z_]\w*)", s[start:])
                if nm:
                    self.decl[nm.group(1)] = module
                    if not pub:
                        self.private_types.add(nm.group(1))
            if kw in ("impl", "trait", "enum"):
                b = self._find_block(s, start)
                if b is None:
                    i = start
                    continue
                hdr, body_lo, body_hi = s[start:b[0]], b[0] + 1, b[1]
                if kw == "impl":
                    self._parse_impl(fname, module, hdr, s, body_lo, body_hi)
                elif kw == "trait":
                    self._parse_trait(fname, module, hdr, s, body_lo, body_hi, pub)
                else:
                    nm = re.match(r"\s*([A-Za-z_]\w*)\s*(\[[^\]]*\])?\s*$", hdr)
                    body = s[body_lo:body_hi]
                    if nm and "(" not in body and "{" not in body:
                        self.enums[nm.group(1)] = [v for v in (x.strip() for x in body.split(",")) if v]
                i = body_hi + 1
            elif kw == "fn":
                sig, end = self._parse_fn(fname, module, s, m.start(), start, [], None, None, {})
                if sig is not None:
                    sig.pub = pub
                    sig.internal = "@internal" in m.group(1)
                    sig.static = True
                    self.sigs.append(sig)
                i = end
            elif kw == "let" and pub:
                lm = re.match(r"\s*(?:mut\s+)?([A-Za-z_]\w*)\s*:\s*([^=;]+)=", s[start:])
                if lm:
                    try:
                        self.globals.append((module, lm.group(1), parse_type(lm.group(2))))
                    except TypeSyntax:
                        pass
                i = start
            elif kw in ("class", "struct"):
                # skip a body if there is one
                k = start
                while k < n and s[k] not in "{;\n":
                    if s[k] in "[(":
                        k = match_close(s, k, s[k], "]" if s[k] == "[" else ")")
                        if k < 0:
                            break
                    k += 1
                if 0 <= k < n and s[k] == "{":
                    e = match_close(s, k, "{", "}")
                    i = e + 1 if e > 0 else start
                else:
                    i = start
            else:
                i = start

    @staticmethod
    def _find_block(s, start):
        k, n = start, len(s)
        while k < n:
            c = s[k]
            if c in "[(":
                k = match_close(s, k, c, "]" if c == "[" else ")")
                if k < 0:
                    return None
            elif c == "{":
                e = match_close(s, k, "{", "}")
                return (k, e) if e > 0 else None
            elif c == ";":
                return None
            k += 1
        return None

    def _parse_impl(self, fname, module, hdr, s, lo, hi):
        hdr = hdr.strip()
        tparams = []
        if hdr.startswith("["):
            j = match_close(hdr, 0, "[", "]")
            tparams = parse_tparams(hdr[1:j])
            hdr = hdr[j + 1:].strip()
        parts = self._split_for(hdr)
        try:
            if len(parts) == 2:
                trait, owner = parse_type(parts[0]), parse_type(parts[1])
            else:
                trait, owner = None, parse_type(parts[0])
        except TypeSyntax:
            self.skipped.append(("impl %s@%s" % (hdr, fname), "impl header not understood"))
            return
        assoc = {}
        for am in re.finditer(r"(?m)^\s*type\s+(\w+)\s*=\s*([^;]+);", s[lo:hi]):
            try:
                assoc[am.group(1)] = parse_type(am.group(2))
            except TypeSyntax:
                pass
        if trait is not None:
            self.impls.append((short(trait[1]), trait, owner, tparams, assoc))
        for sig in self._parse_methods(fname, module, s, lo, hi, tparams, owner, trait, assoc):
            if trait is not None:
                sig.pub = True      # trait methods are as visible as the trait
            self.sigs.append(sig)

    @staticmethod
    def _split_for(hdr):
        depth = 0
        for m in re.finditer(r"[\[\(\]\)]|\bfor\b", hdr):
            t = m.group(0)
            if t in "[(":
                depth += 1
            elif t in "])":
                depth -= 1
            elif depth == 0:
                return [hdr[:m.start()].strip(), hdr[m.end():].strip()]
        return [hdr]

    def _parse_trait(self, fname, module, hdr, s, lo, hi, pub):
        nm = re.match(r"\s*([A-Za-z_]\w*)", hdr)
        if not nm:
            return
        name = nm.group(1)
        me = ("n", "Self", ())
        methods = self._parse_methods(fname, module, s, lo, hi, [], me, ("n", name, ()), {})
        self.traits[name] = {"module": module, "methods": methods, "pub": pub,
                             "assoc": re.findall(r"(?m)^\s*type\s+(\w+)\s*;", s[lo:hi])}

    def _parse_methods(self, fname, module, s, lo, hi, impl_tparams, owner, trait, assoc):
        out = []
        k = lo
        rx = re.compile(r"\bfn\b")
        while True:
            m = rx.search(s, k, hi)
            if not m:
                break
            # depth check: only declarations directly inside the block
            seg = s[lo:m.start()]
            if seg.count("{") != seg.count("}"):
                k = m.end()
                continue
            # modifiers: text since the previous ; } or {
            p = max(s.rfind(";", lo, m.start()), s.rfind("}", lo, m.start()), s.rfind("{", lo - 1, m.start()))
            mods = s[p + 1:m.start()]
            sig, end = self._parse_fn(fname, module, s, m.start(), m.end(), impl_tparams, owner, trait, assoc)
            if sig is not None:
                sig.pub = bool(re.search(r"\bpub\b", mods))
                sig.static = bool(re.search(r"\bstatic\b", mods))
                sig.internal = "@internal" in mods
                out.append(sig)
            k = max(end, m.end())
        return out

    def _parse_fn(self, fname, module, s, fn_at, after_kw, impl_tparams, owner, trait, assoc):
        m = re.match(r"\s*([A-Za-z_]\w*)\s*", s[after_kw:])
        if not m:
            return None, after_kw
        sig = Sig()
        sig.file, sig.module, sig.name = fname, module, m.group(1)
        sig.line = s.count("\n", 0, fn_at) + 1
        sig.owner, sig.trait, sig.impl_tparams, sig.assoc = owner, trait, list(impl_tparams), dict(assoc)
        k = after_kw + m.end()
        try:
            if s[k] == "[":
                j = match_close(s, k, "[", "]")
                sig.tparams = parse_tparams(s[k + 1:j])
                k = j + 1
            while s[k].isspace():
                k += 1
            if s[k] != "(":
                return None, k
            j = match_close(s, k, "(", ")")
            for p in split_top(s[k + 1:j]):
                if not p:
                    continue
                pn, pt = p.split(":", 1)
                pt = pt.strip()
                var = pt.endswith("...")
                if var:
                    pt = pt[:-3]
                sig.params.append((pn.strip(), parse_type(pt), var))
            k = j + 1
            # return type / where / body
            e = k
            depth = 0
            while e < len(s):
                c = s[e]
                if c in "[(":
                    depth += 1
                elif c in "])":
                    depth -= 1
                elif depth == 0 and c in "{;":
                    break
                e += 1
            tail = s[k:e]
            wm = re.search(r"\bwhere\b", tail)
            if wm:
                sig.where = tail[wm.end():].strip()
                tail = tail[:wm.start()]
            tail = tail.strip()
            if tail.startswith(":"):
                sig.ret = parse_type(tail[1:])
            if s[e] == "{":
                sig.has_body = True
                end = match_close(s, e, "{", "}")
                end = end + 1 if end > 0 else e + 1
            else:
                end = e + 1
            return sig, end
        except (TypeSyntax, IndexError, ValueError) as ex:
            self.skipped.append(("%s::%s@%s:%d" % (module, sig.name, fname, sig.line), "signature not understood (%s)" % ex))
            return None, k + 1

    def _inherit_defaults(self):
        """Trait default methods become callable methods of every type with an `impl Trait for T` in these sources."""
        for (tname, trait, owner, tparams, assoc) in self.impls:
            t = self.traits.get(tname)
            if not t:
                continue
            for dm in t["methods"]:
                if not dm.has_body or dm.static:
                    continue
                sig = Sig()
                sig.__dict__.update(dm.__dict__)
                sig.owner, sig.trait, sig.impl_tparams, sig.assoc = owner, trait, list(tparams), dict(assoc)
                sig.params, sig.tparams = list(dm.params), list(dm.tparams)
                clash = {n for n, _ in dm.tparams} & {n for n, _ in tparams}
                if clash:
                    # the trait method's own type parameter has the same name as one of the impl: rename the method's
                    ren = {n: ("n", n + "_m", ()) for n in clash}
                    sig.tparams = [(n + "_m" if n in clash else n, bs) for n, bs in dm.tparams]
                    sig.params = [(pn, subst(pt, ren), v) for pn, pt, v in dm.params]
                    sig.ret = subst(dm.ret, ren)
                    if dm.where:
                        w = dm.where
                        for n in clash:
                            w = re.sub(r"\b%s\b" % n, n + "_m", w)
                        sig.where = w
                sig.pub = t["pub"]
                sig.inherited = True
                self.sigs.append(sig)

    # -- queries ---------------------------------------------------------------------------------
    def implements(self, ty, trait):
        trait = short(trait)
        if trait == "Zero":     # derived automatically for types whose all-zero bit pattern is a value (traits.dora)
            return ty[0] == "n" and not ty[2] and short(ty[1]) in ("Int64", "Int32", "UInt8", "Float64", "Float32", "Bool", "Char")
        for (tname, _t, owner, tparams, _a) in self.impls:
            if tname == trait and unify(owner, ty, {n for n, _ in tparams}, {}):
                return True
        return False

    def implementors(self, trait):
        trait = short(trait)
        return [owner for (tname, _t, owner, tparams, _a) in self.impls if tname == trait and not tparams and owner[0] == "n" and not owner[2]]

    def assoc_type(self, ty, name):
        for (tname, _t, owner, tparams, assoc) in self.impls:
            if name in assoc:
                b = {}
                if unify(owner, ty, {n for n, _ in tparams}, b):
                    r = self.subst_proj(assoc[name], b)
                    return None if r is None else self.resolve(r, ty)
        return None

    def subst_proj(self, ty, b):
        """subst() that also resolves projections `X::Assoc` on substituted type parameters; None if unresolvable."""
        if ty[0] == "n":
            nm = ty[1]
            if "::" in nm and not ty[2]:
                head, last = nm.rsplit("::", 1)
                if head in b:
                    return self.assoc_type(b[head], last)
            if not ty[2] and nm in b:
                return b[nm]
            args = tuple(self.subst_proj(a, b) for a in ty[2])
            return None if any(a is None for a in args) else ("n", nm, args)
        if ty[0] == "t":
            args = tuple(self.subst_proj(a, b) for a in ty[1])
            return None if any(a is None for a in args) else ("t", args)
        args = tuple(self.subst_proj(a, b) for a in ty[1])
        r = self.subst_proj(ty[2], b)
        return None if r is None or any(a is None for a in args) else ("f", args, r)

    def resolve(self, ty, self_ty):
        """Replace Self and X::Assoc projections."""
        if ty[0] == "n":
            nm = ty[1]
            if nm == "Self" and self_ty is not None:
                return self_ty
            if "::" in nm and not ty[2]:
                head, last = nm.rsplit("::", 1)
                if head == "Self" and self_ty is not None:
                    r = self.assoc_type(self_ty, last)
                    if r is not None:
                        return r
            return ("n", nm, tuple(self.resolve(a, self_ty) for a in ty[2]))
        if ty[0] == "t":
            return ("t", tuple(self.resolve(a, self_ty) for a in ty[1]))
        return ("f", tuple(self.resolve(a, self_ty) for a in ty[1]), self.resolve(ty[2], self_ty))

    def resolve_projections(self, ty):
        """`Concrete::Item` style projections whose head was a substituted type parameter are not expressible after
        substitution; they are resolved before substitution by the generator (see Generator._bind)."""
        return ty

    def qual(self, name):
        s = short(name)
        if s in BARE or "::" in name and not name.startswith("Self"):
            return name if "::" in name else s
        if s in self.decl:
            return "%s::%s" % (self.decl[s], s)
        return name

    def tstr(self, ty):
        if ty[0] == "n":
            a = "[%s]" % ", ".join(self.tstr(x) for x in ty[2]) if ty[2] else ""
            return self.qual(ty[1]) + a
        if ty[0] == "t":
            return "(%s)" % ", ".join(self.tstr(x) for x in ty[1])
        return "(%s): %s" % (", ".join(self.tstr(x) for x in ty[1]), self.tstr(ty[2]))


# ---------------------------------------------------------------------------------------------------------------
# values

def _n(name, *args):
    return ("n", name, tuple(args))


I64_VALUES = [("MIN", "-9223372036854775808i64"), ("-1", "-1i64"), ("0", "0i64"), ("1", "1i64"), ("2^31", "2147483648i64"),
              ("2^32", "4294967296i64"), ("2^61+1", "2305843009213693953i64"), ("2^62", "4611686018427387904i64"),
              ("MAX", "9223372036854775807i64")]
I64_INDEXISH = [("2", "2i64"), ("999", "999i64"), ("1000", "1000i64"), ("65536", "65536i64")]
I32_VALUES = [("MIN", "-2147483648i32"), ("-1", "-1i32"), ("0", "0i32"), ("1", "1i32"), ("31", "31i32"), ("32", "32i32"),
              ("63", "63i32"), ("64", "64i32"), ("2^16", "65536i32"), ("0xD800", "55296i32"), ("0x110000", "1114112i32"),
              ("2^30", "1073741824i32"), ("MAX", "2147483647i32")]
U8_VALUES = [("0", "0u8"), ("127", "127u8"), ("128", "128u8"), ("255", "255u8")]
_HUGE64 = "17976931348623157" + "0" * 292 + ".0"
_TINY64 = "0." + "0" * 323 + "5"
_HUGE32 = "340282346638528859811704183484516925440.0f32"
_TINY32 = "0." + "0" * 39 + "1f32"
F64_VALUES = [("NaN", "(0.0/0.0)"), ("+inf", "(1.0/0.0)"), ("-inf", "(-1.0/0.0)"), ("+0", "0.0"), ("-0", "(-0.0)"),
              ("huge", _HUGE64), ("tiny", _TINY64), ("-1.5", "(-1.5)"), ("2^31", "2147483648.0"), ("2^63", "9223372036854775808.0"),
              ("-2^63-", "(-9223372036854777856.0)")]
F32_VALUES = [("NaN", "(0.0f32/0.0f32)"), ("+inf", "(1.0f32/0.0f32)"), ("-inf", "(-1.0f32/0.0f32)"), ("+0", "0.0f32"),
              ("-0", "(-0.0f32)"), ("huge", _HUGE32), ("tiny", _TINY32), ("-1.5", "(-1.5f32)"), ("2^31", "2147483648.0f32"),
              ("2^63", "9223372036854775808.0f32")]
CHAR_VALUES = [("NUL", "'\\0'"), ("a", "'a'"), ("U+D7FF", "'퟿'"), ("U+E000", "''"), ("U+10FFFF", "'\U0010ffff'")]
STR_VALUES = [("empty", '""'), ("1byte", '"a"'), ("multibyte", '"aä€\U0001d11eß"'), ("64KiB", "big_string()"),
              ("i64min", '"-9223372036854775808"'), ("i64max+1", '"9223372036854775808"'), ("float", '"1.5"'), ("nul", '"a\\0b"')]
BOOL_VALUES = [("true", "true"), ("false", "false")]

PRIMS = {"Int64": ("G_I64", I64_VALUES + I64_INDEXISH), "Int32": ("G_I32", I32_VALUES), "UInt8": ("G_U8", U8_VALUES),
         "Float64": ("G_F64", F64_VALUES), "Float32": ("G_F32", F32_VALUES), "Char": ("G_CH", CHAR_VALUES),
         "String": ("G_S", STR_VALUES), "Bool": ("G_B", BOOL_VALUES)}
BENIGN = {"Int64": [("3", "3i64"), ("1000", "1000i64")], "Int32": [("3", "3i32")], "UInt8": [("7", "7u8")], "Float64": [("2.5", "2.5")],
          "Float32": [("2.5", "2.5f32")], "Char": [("a", "'a'")], "String": [("1byte", '"a"'), ("multibyte", '"aä€\U0001d11eß"')],
          "Bool": [("true", "true")]}
FROM_INDEX = {"Int64": "i", "Int32": "i.to_int32()", "UInt8": "i.to_uint8()", "Float64": "i.to_float64()", "Float32": "i.to_float32()",
              "String": "i.to_string()", "Bool": "(i % 2 == 0)", "Char": "(97 + i % 26).to_char().get_or_panic()"}
ADDERS = ["push", "enqueue", "insert", "append_char", "append"]


class Val:
    __slots__ = ("label", "lit", "opq")

    def __init__(self, label, lit, opq=None):
        self.label, self.lit, self.opq = label, lit, opq or lit


class Template:
    """One instantiated call: callee + concrete receiver/parameter/return types."""

    def __init__(self, sig, recv, params, ret, targs, inst):
        self.sig, self.recv, self.params, self.ret, self.targs, self.inst = sig, recv, params, ret, targs, inst

    def key(self, cat):
        return "%s%s(%s)" % (self.sig.callee(), "<%s>" % cat.tstr(self.recv) if self.recv else "",
                             ",".join(("*" if v else "") + cat.tstr(t) for t, v in self.params))


class Case:
    def __init__(self, idx, template, labels, opaque):
        self.idx, self.template, self.labels, self.opaque = idx, template, labels, opaque
        self.argv = [idx, 0]


class BatchProgram:
    def __init__(self, name, source, cases):
        self.name, self._source, self.cases = name, source, cases

    def source(self):
        return self._source


class Generator:
    def __init__(self, cat, n_inst=3):
        self.cat = cat
        self.n_inst = n_inst
        self.helpers = {}        # name -> source text (emitted on demand)
        self.helper_deps = {}    # name -> set(helper names)
        self._values_cache = {}
        self._show_cache = {}
        self._building = set()
        self.uninstantiable = []  # (ident, reason)

    # -- helpers emitted into programs ----------------------------------------------------------
    def prelude(self):
        c = self.cat
        traits = sorted("%s::%s" % (t["module"], n) for n, t in c.traits.items() if t["pub"])
        lines = ["use %s;" % t for t in traits]
        lines.append("")
        lines.append("fn z(): Int64 { std::argv(1i32).to_int64().get_or_panic() }")
        lines.append("fn big_string(): String { let mut s = \"0123456789abcde\\n\"; let mut i = 0; while i < 12 { s = s + s; i = i + 1; } s }")
        for tname, (g, vals) in PRIMS.items():
            lines.append("let %s: Array[%s] = Array[%s]::new(%s);" % (g, tname, tname, ", ".join(e for _, e in vals)))
        return lines

    def need(self, name, text, deps=()):
        if name not in self.helpers:
            self.helpers[name] = text
            self.helper_deps[name] = set(deps)

    # -- values -------------------------------------------------------------------------------------
    def values(self, ty, hostile=True, depth=0):
        key = (ty, hostile)
        if key in self._values_cache:
            return self._values_cache[key]
        if key in self._building or depth > 3:
            return []
        self._building.add(key)
        try:
            v = self._values(ty, hostile, depth)
        finally:
            self._building.discard(key)
        self._values_cache[key] = v
        return v

    def _values(self, ty, hostile, depth):
        cat = self.cat
        if ty[0] == "t":
            if not ty[1]:
                return [Val("unit", "()")]
            parts = [self.values(e, False, depth + 1) for e in ty[1]]
            if any(not p for p in parts):
                return []
            n = max(len(p) for p in parts) if hostile else 1
            out = []
            for i in range(min(n, 3)):
                sel = [p[i % len(p)] for p in parts]
                out.append(Val("(%s)" % ",".join(s.label for s in sel), "(%s)" % ", ".join(s.lit for s in sel)))
            return out
        if ty[0] == "f":
            return self._lambdas(ty, depth)
        name, args = short(ty[1]), ty[2]
        if name in PRIMS and not args:
            if not hostile:
                return [Val(l, e) for l, e in BENIGN[name]]
            g, vals = PRIMS[name]
            return [Val(l, e, "%s(%di64 + z())" % (g, i)) for i, (l, e) in enumerate(vals)]
        ts = cat.tstr(ty)
        if name == "Option" and len(args) == 1:
            inner = self.values(args[0], False, depth + 1)
            out = [Val("None", "None[%s]" % cat.tstr(args[0]))]
            for v in inner[:2 if hostile else 1]:
                out.append(Val("Some(%s)" % v.label, "Some[%s](%s)" % (cat.tstr(args[0]), v.lit)))
            return out
        if name == "Result" and len(args) == 2:
            a, b = self.values(args[0], False, depth + 1), self.values(args[1], False, depth + 1)
            targs = "%s, %s" % (cat.tstr(args[0]), cat.tstr(args[1]))
            out = []
            if a:
                out.append(Val("Ok(%s)" % a[0].label, "Ok[%s](%s)" % (targs, a[0].lit)))
            if b:
                out.append(Val("Err(%s)" % b[0].label, "Err[%s](%s)" % (targs, b[0].lit)))
            return out
        if name in cat.enums and not args:
            q = cat.qual(name)
            return [Val(v, "%s::%s" % (q, v)) for v in cat.enums[name]][: None if hostile else 1]
        if name in ("Array", "Vec") and len(args) == 1:
            inner = self.values(args[0], False, depth + 1)
            if not inner:
                return []
            out = [Val("empty", "%s::new()" % ts), Val("1elem", "%s::new(%s)" % (ts, inner[0].lit))]
            h = "mk_%s_1000" % mangle(ts)
            fi = self._from_index(args[0])
            if name == "Array":
                body = "let a = %s::fill(1000, %s);" % (ts, inner[-1].lit)
                if fi:
                    body += " let mut i = 0; while i < 1000 { if i %% 7 != 3 { a(i) = %s; } i = i + 1; }" % fi
                self.need(h, "fn %s(): %s { %s a }" % (h, ts, body))
            else:
                el = fi or inner[-1].lit
                self.need(h, "fn %s(): %s { let a = %s::new(); let mut i = 0; while i < 1000 { a.push(%s); i = i + 1; } a }" % (h, ts, ts, el))
            out.append(Val("1000elems", "%s()" % h))
            return out if hostile else out[1:]
        # anything else: producers found in the catalogue (constructors with benign arguments, no-argument factories),
        # public globals of that type, plus a populated instance when the type has an adder method
        out = []
        for (module, gname, gty) in cat.globals:
            if gty == ty or (gty[0] == "n" and ty[0] == "n" and short(gty[1]) == name and gty[2] == args):
                out.append(Val(gname, "%s::%s" % (module, gname)))
        out += self._producers(ty, depth)
        pop = self._populated(ty, depth)
        if pop:
            out.append(pop)
        return out[: 4 if hostile else 2]

    def _from_index(self, ty):
        if ty[0] == "n" and not ty[2] and short(ty[1]) in FROM_INDEX:
            return FROM_INDEX[short(ty[1])]
        if ty[0] == "t" and ty[1]:
            parts = [self._from_index(e) for e in ty[1]]
            if all(parts):
                return "(%s)" % ", ".join(parts)
        return None

    def _lambdas(self, ty, depth):
        cat = self.cat
        params, ret = ty[1], ty[2]
        ps = ", ".join("p%d: %s" % (i, cat.tstr(t)) for i, t in enumerate(params))
        out = []
        # identity-like when a parameter has the return type
        for i, t in enumerate(params):
            if t == ret:
                out.append(Val("ret-p%d" % i, "|%s|: %s { p%d }" % (ps, cat.tstr(ret), i)))
                break
        if ret == UNIT:
            out.append(Val("noop", "|%s| { }" % ps))
            return out
        rv = self.values(ret, False, depth + 1)
        if short(ret[1]) == "Bool" if ret[0] == "n" else False:
            out.append(Val("const-true", "|%s|: Bool { true }" % ps))
            out.append(Val("const-false", "|%s|: Bool { false }" % ps))
            if params and params[0][0] == "n" and short(params[0][1]) == "Int64":
                out.append(Val("odd", "|%s|: Bool { p0 %% 2 != 0 }" % ps))
            return out
        fi = None
        if len(params) == 1 and params[0] == _n("Int64"):
            fi = self._from_index(ret)
        if fi:
            out.append(Val("from-index", "|%s|: %s { let i = p0; %s }" % (ps, cat.tstr(ret), fi)))
        for v in rv[:1]:
            out.append(Val("const-%s" % v.label, "|%s|: %s { %s }" % (ps, cat.tstr(ret), v.lit)))
        return out

    def _ret_pattern(self, sig):
        ret = sig.ret
        if ret[0] == "n" and not ret[2]:
            if ret[1] == "Self":
                return sig.owner
            if ret[1].startswith("Self::") and ret[1][6:] in sig.assoc:
                return sig.assoc[ret[1][6:]]
        if ret[0] == "n" and sig.owner is not None and "Self" in names_in(ret):
            return subst(ret, {"Self": sig.owner})
        return ret

    def _producers(self, ty, depth):
        """Expressions of type ty built from the catalogue: constructors with benign arguments, factories such as
        iter()/enumerate()/code_points() on benign receivers."""
        cat = self.cat
        out = []
        cands = []
        for sig in cat.sigs:
            if not sig.pub or sig.where or sig.callee() in DENY:
                continue
            if sig.owner is not None and sig.owner[0] == "n" and short(sig.owner[1]) in cat.private_types:
                continue
            ret = self._ret_pattern(sig)
            if ret is None or ret[0] != "n" or short(ret[1]) != short(ty[1]):
                continue
            if any(v for _, _, v in sig.params) and not sig.static:
                continue
            if not sig.static and (len(sig.params) > 1 or sig.name == "clone"):
                continue
            prio = 0 if (sig.static and sig.name == "new") else (1 if sig.static else 2 + len(sig.params))
            cands.append((prio, len(sig.params), sig.line, sig, ret))
        cands.sort(key=lambda c: c[:3])
        for _, _, _, sig, ret in cands:
            tvars = {n for n, _ in sig.impl_tparams} | {n for n, _ in sig.tparams}
            b = {}
            if not unify(ret, ty, tvars, b):
                continue
            if any(n not in b for n in tvars):
                continue
            try:
                t = self._make_template(sig, b)
            except _Unresolvable:
                continue
            if t is None or t.ret != ty:
                continue
            for label, e in self._call_exprs(t, depth + 1)[:2]:
                out.append(Val(label, e))
            if len(out) >= 3:
                break
        return out

    def _call_exprs(self, t, depth):
        """Benign call expressions for template t (used as value producers)."""
        cat = self.cat
        argsets = [[]]
        labels = [[]]
        for (pty, var) in t.params:
            vs = self.values(pty, False, depth)
            if not vs:
                return []
            if var:
                argsets = [a + [vs[0].lit, vs[-1].lit] for a in argsets]
                labels = [l + [vs[0].label + ".."] for l in labels]
            elif len(argsets) == 1 and len(vs) > 1:
                argsets = [argsets[0] + [vs[0].lit], argsets[0] + [vs[-1].lit]]
                labels = [labels[0] + [vs[0].label], labels[0] + [vs[-1].label]]
            else:
                argsets = [a + [vs[0].lit] for a in argsets]
                labels = [l + [vs[0].label] for l in labels]
        out = []
        if t.recv is None or t.sig.static:
            for a, l in zip(argsets, labels):
                out.append(("%s(%s)" % (t.sig.name, ",".join(l)), self._call_text(t, None, a)))
        else:
            rvs = self.values(t.recv, False, depth)
            for rv in rvs[:2]:
                out.append(("%s.%s()" % (rv.label, t.sig.name), self._call_text(t, rv.lit, argsets[0])))
        return out

    def _populated(self, ty, depth):
        """A helper that builds an instance with 1000 elements through the type's own adder method."""
        cat = self.cat
        name = short(ty[1])
        for adder in ADDERS:
            for sig in cat.sigs:
                if sig.name != adder or sig.static or not sig.pub or sig.owner is None or sig.owner[0] != "n" or short(sig.owner[1]) != name:
                    continue
                if sig.trait is not None or sig.tparams:
                    continue
                b = {}
                if not unify(sig.owner, ty, {n for n, _ in sig.impl_tparams}, b):
                    continue
                ptys = [subst(p, b) for _, p, _ in sig.params]
                fis = [self._from_index(p) for p in ptys]
                if not ptys or not all(fis):
                    continue
                base = [v for v in self._producers(ty, depth) if True]
                if not base:
                    return None
                ts = cat.tstr(ty)
                h = "mk_%s_pop" % mangle(ts)
                self.need(h, "fn %s(): %s { let o = %s; let mut i = 0; while i < 1000 { o.%s(%s); i = i + 3; } o }" % (
                    h, ts, base[-1].lit, adder, ", ".join(fis)))
                return Val("populated", "%s()" % h)
        return None

    # -- templates ----------------------------------------------------------------------------------
    def _candidates(self, bounds):
        cat = self.cat
        out = [_n(t) for t in BASE_TYPES if all(cat.implements(_n(t), b) for b in bounds)]
        if not out and bounds:
            out = [o for o in cat.implementors(bounds[0]) if all(cat.implements(o, b) for b in bounds[1:])
                   and short(o[1]) not in cat.private_types]
        return out

    def templates(self):
        cat = self.cat
        out = []
        seen = set()
        for sig in cat.sigs:
            ident = sig.ident()
            if sig.owner is not None and sig.owner[0] == "n" and short(sig.owner[1]) in cat.private_types:
                self.uninstantiable.append((ident, "method of a private type"))
                continue
            if not sig.pub:
                continue
            if sig.callee() in DENY:
                self.uninstantiable.append((ident, "excluded: " + DENY[sig.callee()]))
                continue
            preds = []
            if sig.where:
                try:
                    preds = self.parse_where(sig.where)
                except TypeSyntax:
                    self.uninstantiable.append((ident, "where clause not understood: " + sig.where))
                    continue
            if sig.owner is not None and sig.owner[0] != "n":
                self.uninstantiable.append((ident, "impl for a tuple type"))
                continue
            mnames = {n for n, _ in sig.tparams}
            cands = [self._candidates(bs) for _, bs in sig.impl_tparams]
            if any(not c for c in cands):
                self.uninstantiable.append((ident, "no concrete type satisfies the bounds of %s" % [n for (n, _), c in zip(sig.impl_tparams, cands) if not c]))
                continue
            n = self.n_inst if (sig.impl_tparams or sig.tparams) else 1
            made, why = 0, None
            for j in range(n):
                b = {name: cands[i][(j + i) % len(cands[i])] for i, (name, _) in enumerate(sig.impl_tparams)}
                recv = subst(sig.owner, b) if sig.owner is not None else None
                try:
                    for i, (name, bs) in enumerate(sig.tparams):
                        mine = [p for p in preds if p[0] == ("n", name, ())]
                        if mine:
                            mc = self._where_candidates(sig, b, recv, mine[0])
                            mc = [c for c in mc if all(self.cat.implements(c, bd) for bd in bs)]
                        else:
                            mc = self._candidates(bs)
                        if not mc:
                            raise _Unresolvable("no concrete type for method type parameter %s" % name)
                        b[name] = mc[(j + i) % len(mc)]
                    for p in preds:
                        if p[0][0] == "n" and p[0][1] in mnames and not p[0][2]:
                            continue
                        if not self._where_holds(sig, b, recv, p):
                            raise _Unresolvable("where clause does not hold for this instantiation: %s" % sig.where)
                    t = self._make_template(sig, b, inst=j)
                except _Unresolvable as ex:
                    why = why or str(ex)
                    continue
                if t is None:
                    continue
                k = t.key(cat)
                if k in seen:
                    made += 1
                    continue
                seen.add(k)
                out.append(t)
                made += 1
            if not made:
                self.uninstantiable.append((ident, why or "no instantiation"))
        return out

    def _conv(self, sig, b, recv, t):
        """Concrete type for pattern t of signature sig under binding b (projections and Self resolved)."""
        cat = self.cat

        def proj(x):
            if x[0] == "n":
                if "::" in x[1] and not x[2]:
                    head, last = x[1].rsplit("::", 1)
                    if head in b:
                        r = cat.assoc_type(b[head], last)
                        if r is None:
                            raise _Unresolvable("cannot resolve %s" % x[1])
                        return r
                    if head == "Self":
                        if last in sig.assoc:
                            return proj(sig.assoc[last])
                        r = cat.assoc_type(recv, last) if recv else None
                        if r is None:
                            raise _Unresolvable("cannot resolve %s" % x[1])
                        return r
                return ("n", x[1], tuple(proj(a) for a in x[2]))
            if x[0] == "t":
                return ("t", tuple(proj(a) for a in x[1]))
            return ("f", tuple(proj(a) for a in x[1]), proj(x[2]))
        r = subst(proj(t), b)
        r = cat.resolve(r, recv)
        bad = [n for n in names_in(r) if n == "Self" or n.startswith("Self::") or (short(n) not in cat.decl and short(n) not in BARE and "::" in n and n.split("::")[0] in b)]
        if bad:
            raise _Unresolvable("unresolved %s" % bad)
        for n in names_in(r):
            if short(n) in cat.private_types:
                raise _Unresolvable("mentions private type %s" % n)
            if short(n) not in cat.decl and short(n) not in BARE:
                raise _Unresolvable("unknown type %s" % n)
        return r

    def _make_template(self, sig, b, inst=0):
        recv = None
        if sig.owner is not None:
            recv = subst(sig.owner, b)
            if recv == ("n", "Self", ()):
                return None
        params = [(self._conv(sig, b, recv, t), var) for _, t, var in sig.params]
        ret = self._conv(sig, b, recv, sig.ret)
        targs = [subst(_n(n), b) for n, _ in sig.tparams]
        return Template(sig, recv, params, ret, targs, inst)

    # -- where clauses ------------------------------------------------------------------------------
    @staticmethod
    def parse_where(text):
        """`T: Iterator[Item=X], Self::Item: Stringable` -> [(lhs type, bound name, [positional types], {assoc: type})]"""
        out = []
        for part in split_top(text):
            if ":" not in part:
                raise TypeSyntax(part)
            # the first ':' that is not part of '::'
            m = re.search(r"(?<!:):(?!:)", part)
            if not m:
                raise TypeSyntax(part)
            lhs, rhs = parse_type(part[:m.start()]), part[m.end():].strip()
            bm = re.match(r"([A-Za-z_][\w:]*)\s*(\[(.*)\])?\s*$", rhs, re.S)
            if not bm:
                raise TypeSyntax(rhs)
            pos, named = [], {}
            if bm.group(3):
                for a in split_top(bm.group(3)):
                    if re.match(r"^\w+\s*=", a):
                        k, v = a.split("=", 1)
                        named[k.strip()] = parse_type(v)
                    else:
                        pos.append(parse_type(a))
            out.append((lhs, short(bm.group(1)), pos, named))
        return out

    def _where_candidates(self, sig, b, recv, pred):
        """Concrete types for a method type parameter constrained by `T: Trait[A]` / `T: Trait[Assoc=A]`."""
        cat = self.cat
        _lhs, bound, pos, named = pred
        pos_c = [self._conv(sig, b, recv, p) for p in pos]
        named_c = {k: self._conv(sig, b, recv, v) for k, v in named.items()}
        out = []
        for (tname, trait, owner, tparams, assoc) in cat.impls:
            if tname != bound or owner[0] != "n" or short(owner[1]) in cat.private_types:
                continue
            tv = {n for n, _ in tparams}
            bb = {}
            if len(trait[2]) != len(pos_c) or not all(unify(p, c, tv, bb) for p, c in zip(trait[2], pos_c)):
                continue
            ok = True
            for k, v in named_c.items():
                if k not in assoc or not unify(assoc[k], v, tv, bb):
                    ok = False
            if not ok or any(n not in bb for n in tv):
                continue
            # bounds of the impl's own type parameters
            if not all(cat.implements(bb[n], bd) for n, bds in tparams for bd in bds):
                continue
            out.append(subst(owner, bb))
        return out

    def _where_holds(self, sig, b, recv, pred):
        lhs, bound, pos, named = pred
        if pos or named:
            return False
        try:
            t = self._conv(sig, b, recv, lhs)
        except _Unresolvable:
            return False
        return self.cat.implements(t, bound)

    def _call_text(self, t, recv_expr, arg_exprs):
        cat = self.cat
        sig = t.sig
        ta = "[%s]" % ", ".join(cat.tstr(x) for x in t.targs) if t.targs else ""
        args = ", ".join(arg_exprs)
        if sig.owner is None:
            return "%s::%s%s(%s)" % (sig.module, sig.name, ta, args)
        if sig.static:
            return "%s::%s%s(%s)" % (cat.tstr(t.recv), sig.name, ta, args)
        return "%s.%s%s(%s)" % (recv_expr, sig.name, ta, args)

    # -- show functions -----------------------------------------------------------------------------
    def show(self, ty):
        """Name of a function `fn sh_X(v: X)` printing a value of type ty (emitted on demand)."""
        cat = self.cat
        ts = cat.tstr(ty)
        h = "sh_" + mangle(ts)
        if h in self.helpers or h in self._show_cache:
            return h
        self._show_cache[h] = True
        deps = set()

        def sub(t):
            n = self.show(t)
            deps.add(n)
            return n
        body = None
        if ty[0] == "t":
            if not ty[1]:
                body = 'println("()");'
            else:
                body = " ".join("%s(v.%d);" % (sub(e), i) for i, e in enumerate(ty[1]))
        elif ty[0] == "f":
            body = 'println("<lambda>");'
        else:
            name, args = short(ty[1]), ty[2]
            if name in ("Int64", "Int32", "UInt8", "Bool", "Float32", "Float64") and not args:
                body = "println(v.to_string());"
            elif name == "Char":
                body = 'println("char " + v.to_int32().to_string());'
            elif name == "Never":
                body = 'println("never");'
            elif name == "String":
                body = ('let n = v.size(); let mut h = 7; let mut i = 0; while i < n { h = h.wrapping_mul(31).wrapping_add(v.get_byte(i).to_int64()); i = i + 1; } '
                        'print("str " + n.to_string() + " " + h.to_string()); if n <= 160 { print(" " + v); } println("");')
            elif name == "Option" and len(args) == 1:
                body = 'match v { Some(x) => { print("Some "); %s(x); }, None => println("None") }' % sub(args[0])
            elif name == "Result" and len(args) == 2:
                body = 'match v { Ok(x) => { print("Ok "); %s(x); }, Err(e) => { print("Err "); %s(e); } }' % (sub(args[0]), sub(args[1]))
            elif name in cat.enums and not args:
                q = cat.qual(name)
                body = "match v { %s }" % ", ".join('%s::%s => println("%s")' % (q, x, x) for x in cat.enums[name])
            elif name in ("Array", "Vec") and len(args) == 1:
                e = sub(args[0])
                body = ('let n = v.size(); println("%s " + n.to_string()); let mut i = 0; '
                        'while i < n && i < 6 { %s(v(i)); i = i + 1; } '
                        'if n > 6 { i = n - 3; if i < 6 { i = 6; } while i < n { %s(v(i)); i = i + 1; } }') % (name.lower(), e, e)
            else:
                item = cat.assoc_type(ty, "Item") if cat.implements(ty, "Iterator") else None
                if item is not None:
                    try:
                        e = sub(item)
                        body = ('let mut k = 0; let mut more = true; while more && k < 2000 { let x = v.next(); '
                                'if x.is_some() { if k < 6 { %s(x.get_or_panic()); } k = k + 1; } else { more = false; } } '
                                'println("iter " + k.to_string() + " " + more.to_string());') % e
                    except _Unresolvable:
                        body = None
                if body is None:
                    parts = ['print("%s");' % name]
                    for m, fmt in (("size", None), ("capacity", None), ("is_empty", None)):
                        s = self._method_of(ty, m)
                        if s is not None and not s.params and s.ret in (_n("Int64"), _n("Bool"), _n("Int32")):
                            parts.append('print(" %s=" + v.%s().to_string());' % (m, m))
                    s = self._method_of(ty, "to_string")
                    if s is not None and not s.params and s.ret == _n("String") and name in ("StringBuffer",):
                        parts.append('print(" "); %s(v.to_string());' % sub(_n("String")))
                    else:
                        parts.append('println("");')
                    body = " ".join(parts)
        self.need(h, "fn %s(v: %s) { %s }" % (h, ts, body), deps)
        return h

    def _method_of(self, ty, mname):
        for sig in self.cat.sigs:
            if sig.name == mname and sig.pub and not sig.static and sig.owner is not None and sig.trait is None and not sig.where:
                b = {}
                if unify(sig.owner, ty, {n for n, _ in sig.impl_tparams}, b):
                    try:
                        t = self._make_template(sig, b)
                    except _Unresolvable:
                        continue
                    if t is not None:
                        r = Sig()
                        r.params, r.ret = t.params, t.ret
                        return r
        return None

    # -- cases --------------------------------------------------------------------------------------
    def value_lists(self, t):
        """Per position (receiver first, if any) the list of hostile values; None if some position has no value."""
        pos = []
        if t.recv is not None and not t.sig.static:
            pos.append(("recv", t.recv, False))
        for i, (pty, var) in enumerate(t.params):
            pos.append(("a%d" % i, pty, var))
        lists = []
        for (nm, ty, var) in pos:
            vs = self.values(ty, True)
            if not vs:
                return None, "no value of type %s" % self.cat.tstr(ty)
            if var:
                # 0, 1 and 3 variadic arguments
                vs = [Val("none", ""), Val(vs[0].label, vs[0].lit, vs[0].opq),
                      Val("3x", ", ".join(v.lit for v in (vs * 3)[:3]), ", ".join(v.opq for v in (vs * 3)[:3]))]
            lists.append((nm, ty, vs))
        return lists, None

    def combos(self, t, rng, budget):
        """Index tuples into the value lists: full cross product if it fits the budget, else an each-choice covering
        sample (every value of every position at least once) topped up with random tuples."""
        lists, why = self.value_lists(t)
        if lists is None:
            return None, why
        sizes = [len(vs) for _, _, vs in lists]
        total = 1
        for s in sizes:
            total *= s
        if not sizes:
            return [()], None
        if total <= budget:
            out = [()]
            for s in sizes:
                out = [c + (i,) for c in out for i in range(s)]
            return out, None
        out, seen = [], set()
        m = max(sizes)
        offs = [rng.randrange(s) for s in sizes]
        for k in range(m):
            c = tuple((k + o) % s for s, o in zip(sizes, offs))
            if c not in seen:
                seen.add(c)
                out.append(c)
        tries = 0
        while len(out) < budget and tries < budget * 4:
            tries += 1
            c = tuple(rng.randrange(s) for s in sizes)
            if c not in seen:
                seen.add(c)
                out.append(c)
        return out[:max(budget, m)], None

    def case_source(self, fname, t, combo, opaque):
        """Source of `fn <fname>()` performing the call + the labels of the chosen values."""
        cat = self.cat
        lists, _ = self.value_lists(t)
        lines, labels, args = [], [], []
        recv_var = None
        post = []
        for (nm, ty, vs), ci in zip(lists, combo):
            v = vs[ci]
            labels.append(v.label)
            e = v.opq if opaque else v.lit
            if nm == "recv":
                lines.append("    let recv: %s = %s;" % (cat.tstr(ty), e))
                recv_var = "recv"
                if self._observable(ty):
                    post.append(("recv", ty))
            else:
                var = any(p[1] for p in t.params) and e == "" and v.label == "none"
                if var:
                    continue
                if self._observable(ty) and not (ty[0] == "n" and short(ty[1]) in PRIMS):
                    lines.append("    let %s: %s = %s;" % (nm, cat.tstr(ty), e))
                    args.append(nm)
                    post.append((nm, ty))
                else:
                    args.append(e)
        call = self._call_text(t, recv_var, args)
        if t.ret == _n("Never"):
            lines.append("    %s;" % call)
        elif t.ret == UNIT:
            lines.append("    %s;" % call)
            lines.append('    println("()");')
        else:
            lines.append("    let r: %s = %s;" % (cat.tstr(t.ret), call))
            lines.append("    %s(r);" % self.show(t.ret))
        for nm, ty in post:
            lines.append("    %s(%s);" % (self.show(ty), nm))
        return "fn %s() {\n%s\n}\n" % (fname, "\n".join(lines)), labels

    def _observable(self, ty):
        """Reference types whose state after the call is worth printing."""
        if ty[0] != "n":
            return False
        n = short(ty[1])
        return n in ("Array", "Vec") or (n in self.cat.decl and n not in self.cat.enums and n not in BARE and n not in ("OpenFile",))

    def _closure(self, names):
        out, todo = [], list(names)
        seen = set()
        while todo:
            n = todo.pop()
            if n in seen or n not in self.helpers:
                continue
            seen.add(n)
            out.append(n)
            todo += list(self.helper_deps.get(n, ()))
            # helpers referenced textually (mk_* inside values, sh_* inside sh_*)
            todo += [m for m in re.findall(r"\b(?:mk|sh)_\w+", self.helpers[n]) if m != n]
        return sorted(out)

    def assemble(self, case_sources):
        """case_sources: [(fname, text)] -> (program text, {fname: (first line, last line)})"""
        body = "\n".join(t for _, t in case_sources)
        used = self._closure(set(re.findall(r"\b(?:mk|sh)_\w+", body)))
        lines = list(self.prelude())
        helper_lines = {}
        for h in used:
            helper_lines[h] = len(lines) + 1
            lines.append(self.helpers[h])
        lines.append("")
        spans = {}
        for fname, text in case_sources:
            lo = len(lines) + 1
            lines += text.rstrip("\n").split("\n")
            spans[fname] = (lo, len(lines))
        lines.append("")
        lines.append("fn main() {")
        lines.append("    let k = std::argv(0i32).to_int64().get_or_panic();")
        for i, (fname, _) in enumerate(case_sources):
            lines.append("    %sif k == %d { %s(); }" % ("" if i == 0 else "else ", i, fname))
        lines.append("    else { std::exit(99i32); }" if case_sources else "")
        lines.append("}")
        return "\n".join(lines) + "\n", spans, helper_lines

    # -- validation ---------------------------------------------------------------------------------
    def validate(self, templates, check_fn, rng, chunk=400, rounds=6):
        """Keep the templates whose call compiles. check_fn(source text) -> (ok, [error line numbers], raw text).
        One probe case per template (benign-ish first combination); templates whose case (or whose helpers) draw front-end
        errors are dropped and recorded in self.uninstantiable."""
        good = []
        for lo in range(0, len(templates), chunk):
            part = list(templates[lo:lo + chunk])
            for _ in range(rounds):
                srcs, owner = [], {}
                for i, t in enumerate(part):
                    cs, why = self.combos(t, rng, 1)
                    if cs is None:
                        self.uninstantiable.append((t.sig.ident(), why))
                        continue
                    fname = "case_%d" % i
                    try:
                        text, _ = self.case_source(fname, t, cs[0], False)
                    except _Unresolvable as ex:
                        self.uninstantiable.append((t.sig.ident(), str(ex)))
                        continue
                    srcs.append((fname, text))
                    owner[fname] = t
                part = [owner[f] for f, _ in srcs]
                if not srcs:
                    break
                prog, spans, hl = self.assemble(srcs)
                ok, errlines, raw = check_fn(prog)
                if ok:
                    good += part
                    break
                bad = set()
                bad_helpers = set()
                hstarts = sorted((ln, h) for h, ln in hl.items())
                for ln in errlines:
                    hit = False
                    for f, (a, b) in spans.items():
                        if a <= ln <= b:
                            bad.add(f)
                            hit = True
                            break
                    if not hit:
                        for l0, h in hstarts:
                            if l0 == ln:
                                bad_helpers.add(h)
                if bad_helpers:
                    for f, text in srcs:
                        used = set(self._closure(set(re.findall(r"\b(?:mk|sh)_\w+", text))))
                        if used & bad_helpers:
                            bad.add(f)
                if not bad:
                    # cannot attribute the errors: give up on this chunk
                    for t in part:
                        self.uninstantiable.append((t.sig.ident(), "probe program rejected, errors not attributable: %s" % raw[-300:]))
                    part = []
                    break
                for f in bad:
                    t = owner[f]
                    msg = ""
                    a, b = spans[f]
                    mm = re.search(r"error: ([^\n]*)\n[^\n]*:(%s):" % "|".join(str(x) for x in range(a, b + 1)), raw)
                    if mm:
                        msg = mm.group(1)
                    self.uninstantiable.append((t.sig.ident() + " " + t.key(self.cat), "front end rejects the instantiated call: %s" % msg))
                part = [owner[f] for f, _ in srcs if f not in bad]
            else:
                for t in part:
                    self.uninstantiable.append((t.sig.ident(), "probe did not converge"))
        return good

    # -- programs -----------------------------------------------------------------------------------
    def probe_sources(self, templates, rng):
        """One benign-ish case per template: [(fname, text, template)]"""
        out = []
        for i, t in enumerate(templates):
            cs, _ = self.combos(t, rng, 1)
            if cs is None:
                continue
            text, _ = self.case_source("case_%d" % i, t, cs[0], False)
            out.append(("case_%d" % i, text, t))
        return out

    def isolate(self, srcs, fails):
        """Smallest failing subsets (single cases) of srcs [(fname, text, ...)] under fails(program text) -> bool."""
        def rec(sel):
            if not sel or not fails(self.assemble([(s[0], s[1]) for s in sel])[0]):
                return []
            if len(sel) == 1:
                return list(sel)
            h = len(sel) // 2
            return rec(sel[:h]) + rec(sel[h:])
        return rec(list(srcs))

    def programs(self, templates, rng, per_template, cases_per_program=60, max_cases=None, shuffle=True):
        """-> [BatchProgram]; per_template = budget of value combinations per template."""
        allc = []
        for t in templates:
            cs, why = self.combos(t, rng, per_template)
            if cs is None:
                continue
            for c in cs:
                allc.append((t, c, rng.random() < 0.5))
        if shuffle:
            rng.shuffle(allc)
        if max_cases is not None:
            allc = allc[:max_cases]
        progs = []
        for pi in range(0, len(allc), cases_per_program):
            chunk = allc[pi:pi + cases_per_program]
            srcs, cases = [], []
            for i, (t, c, opq) in enumerate(chunk):
                fname = "case_%d" % i
                text, labels = self.case_source(fname, t, c, opq)
                srcs.append((fname, text))
                cases.append(Case(i, t, labels, opq))
            src, spans, _ = self.assemble(srcs)
            bp = BatchProgram("s%04d" % (pi // cases_per_program), src, cases)
            bp.spans = spans
            bp.srcs = srcs
            progs.append(bp)
        return progs


class _Unresolvable(Exception):
    pass
