"""Runner for the programs shipped in the repository (test/rt/**, bench/*), reusable by several checks.

The annotation language is the one of the repository's own runner (tools/pytester/src/pytester/tests.py):
lines starting with `//=` anywhere in the file:

    //= error [div0|assert|array|nil|cast|oom|stack-overflow|overflow|shift | code N]   expected failure (+ exit status)
    //= args A B ...            program arguments            (optional trailing `if|unless boots|cannon`)
    //= compile-args "..."      arguments of `dora compile`  (dito)
    //= runtime-args "..."      runtime flags -> env DORA_FLAGS (dito)
    //= file PATH               compile PATH (relative to the repository root) instead of the annotated file
    //= ignore | flaky | platform EXPR | boots | config NAME | timeout N
    <name>.stdout / <name>.stderr next to the file: expected exact output
    `// CHECK...:` lines: FileCheck directives (need --emit-graph output; not evaluated here)

API
    progs = corpus.list_programs()                 # every test/rt program + bench programs, as Program objects
    good  = [p for p in progs if p.exclusion is None]
    p.rel, p.source, p.args_for(cfg), p.compile_args_for(cfg), p.dora_flags(cfg), p.expect, p.configs, p.timeout
    corpus.exclusions(progs) -> [(rel, reason)]
    built = corpus.compile_programs(dirname, items)     # items: [(tag, Program, source_path or None)]
    corpus.run_built(...), corpus.check_expectation(p, outcome) -> None | reason

Programs are compiled from their location inside the repository (read only) but *run* in a scratch working directory
that mirrors the data files next to the program (test/rt/io/*.txt ...), so that programs writing files never touch /repo.
"""
import os
import re
import shlex
import shutil

from . import execu
from .core import REPO, scratch

ERROR_NAME_TO_CODE = {"div0": 101, "assert": 102, "array": 103, "nil": 104, "cast": 105, "oom": 106,
                      "stack-overflow": 107, "overflow": 109, "shift": 110}
CONFIGS = ("boots", "cannon")
FILECHECK_RE = re.compile(r"//\s*CHECK(?:-[A-Z0-9_]+)?:")

# smallest meaningful arguments for bench programs that no test/rt file wraps (bench/<dir>/<file>: args)
BENCH_ARGS = {
    "bench/mandelbrot/mandelbrot.dora": ["16"],
    "bench/alloc/alloc.dora": ["2"],
    "bench/falsesharing/falsesharing.dora": ["2", "1000"],
    "bench/gc/alloc_garbage.dora": [],
    "bench/gc/alloc_linked_list.dora": [],
    "bench/binarytrees/binarytrees.dora": ["6"],
    "bench/binarytrees/binarytrees-mt.dora": ["8", "2"],
    "bench/fannkuchredux/fannkuchredux.dora": ["5"],
    "bench/nbody/nbody.dora": ["10"],
    "bench/richards/richards.dora": ["1"],
    "bench/splunc/splunc.dora": ["1234", "100", "100", "5"],
    "bench/splay/splay.dora": ["123", "1000", "5"],
    "bench/gcbench/gcbench.dora": ["4"],
    "bench/gcold/gcold.dora": ["4", "1", "8", "2", "100"],
}

# content patterns that make a program's observable behaviour depend on wall-clock time / interleaving / environment
CONTENT_EXCLUSIONS = [
    (re.compile(r"\bsleep\s*\("), "sleeps (timing dependent)"),
    (re.compile(r"\btimestamp\s*\("), "reads the clock (prints or computes with timings)"),
    (re.compile(r"\bTcp(Listener|Stream)\b"), "needs a network peer"),
]


def read_cmdline(text):
    """Same tokenisation as the repository runner (quotes group, \\n and \\t inside quotes)."""
    args, cur, in_quote, esc = [], [], False, False
    for ch in text:
        if esc:
            cur.append({"n": "\n", "t": "\t"}.get(ch, ch))
            esc = False
            continue
        if ch == "\\" and in_quote:
            esc = True
            continue
        if ch == '"':
            if in_quote:
                args.append("".join(cur))
                cur, in_quote = [], False
            elif not cur:
                in_quote = True
            else:
                cur.append(ch)
            continue
        if ch.isspace() and not in_quote:
            if cur:
                args.append("".join(cur))
                cur = []
            continue
        cur.append(ch)
    if cur:
        args.append("".join(cur))
    return args


class Expect:
    __slots__ = ("fail", "code", "stdout", "stderr", "filecheck")

    def __init__(self):
        self.fail, self.code, self.stdout, self.stderr, self.filecheck = False, None, None, None, False

    def as_dict(self):
        return {"fail": self.fail, "code": self.code, "has_stdout": self.stdout is not None, "has_stderr": self.stderr is not None}


class Program:
    """One runnable repository program with its annotations."""

    def __init__(self, rel, repo=REPO):
        self.repo = repo
        self.rel = rel                          # identity: path of the annotated file relative to the repository root
        self.path = os.path.join(repo, rel)
        self.source_rel = rel                   # file that is compiled (//= file)
        self._args, self._cargs, self._rargs = [], [], []   # [(args, (kind, config) | None)]
        self.expect = Expect()
        self.timeout = None
        self.required_config = None
        self.ignore = self.flaky = False
        self.exclusion = None
        self.kind = "rt"
        self.dropped_compile_args = []
        self.unknown_directives = []

    # --- per configuration views -----------------------------------------------------
    @staticmethod
    def _for(entries, cfg):
        out = []
        for args, cond in entries:
            if cond is None or (cond[0] == "if") == (cond[1] == cfg):
                out += args
        return out

    @property
    def source(self):
        return os.path.join(self.repo, self.source_rel)

    @property
    def configs(self):
        return (self.required_config,) if self.required_config else CONFIGS

    def args_for(self, cfg="boots"):
        return self._for(self._args, cfg)

    def compile_args_for(self, cfg="boots"):
        """`dora compile` arguments; --emit-graph* (compile-time debug output) is dropped, see dropped_compile_args."""
        out = []
        for a in self._for(self._cargs, cfg):
            if a.startswith("--emit-graph") or a.startswith("--emit-"):
                if a not in self.dropped_compile_args:
                    self.dropped_compile_args.append(a)
                continue
            out.append(a)
        return out

    def runtime_args_for(self, cfg="boots"):
        return self._for(self._rargs, cfg)

    def dora_flags(self, cfg="boots"):
        r = self.runtime_args_for(cfg)
        return " ".join(shlex.quote(a) for a in r) if r else None

    def text(self):
        try:
            with open(self.source, encoding="utf-8", errors="replace") as f:
                return f.read()
        except OSError:
            return ""

    def needs_files(self):
        return bool(re.search(r"\bio::|\bFile\b|\bDirectory\b|snapshot", self.text())) or "mandelbrot" in self.source_rel

    def describe(self):
        return {"program": self.rel, "source": self.source_rel, "args": self.args_for(), "compile_args": self.compile_args_for(),
                "runtime_args": self.runtime_args_for(), "expect": self.expect.as_dict(), "configs": list(self.configs)}


def _cond_args(arguments):
    cond = None
    if len(arguments) >= 2 and arguments[-2] in ("if", "unless") and arguments[-1] in CONFIGS:
        cond = (arguments[-2], arguments[-1])
        arguments = arguments[:-2]
    out = []
    for s in arguments:
        out += shlex.split(s)
    return out, cond


def parse_program(rel, repo=REPO):
    p = Program(rel, repo)
    try:
        with open(p.path, encoding="utf-8") as f:
            lines = f.read().splitlines()
    except (OSError, UnicodeDecodeError) as e:
        p.exclusion = "unreadable: %s" % e
        return p
    for raw in lines:
        if not p.expect.filecheck and FILECHECK_RE.search(raw):
            p.expect.filecheck = True
        line = raw.strip()
        if not line.startswith("//="):
            continue
        a = read_cmdline(line[3:].strip())
        if not a:
            continue
        kw = a[0]
        if kw == "error":
            p.expect.fail = True
            if len(a) >= 3 and a[1] == "code":
                p.expect.code = int(a[2])
            elif len(a) >= 2:
                p.expect.code = ERROR_NAME_TO_CODE.get(a[1])
                if p.expect.code is None:
                    p.unknown_directives.append(line)
        elif kw == "platform":
            ctx = {"arch": "x64", "os": "linux", "linux": True, "macos": False, "windows": False, "unix": True, "x64": True, "arm64": False}
            try:
                if not eval(a[1], {"__builtins__": {}}, ctx):
                    p.ignore = True
                    p.exclusion = "platform %s" % a[1]
            except Exception:
                p.unknown_directives.append(line)
        elif kw == "file":
            p.source_rel = a[1]
        elif kw == "ignore":
            p.ignore = True
        elif kw == "args":
            p._args.append(_cond_args(a[1:]))
        elif kw == "compile-args":
            p._cargs.append(_cond_args(a[1:]))
        elif kw == "runtime-args":
            p._rargs.append(_cond_args(a[1:]))
        elif kw == "boots":
            p.required_config = "boots"
        elif kw == "config":
            p.required_config = a[1] if len(a) > 1 else None
        elif kw == "timeout":
            p.timeout = int(a[1])
        elif kw == "flaky":
            p.flaky = True
        else:
            p.unknown_directives.append(line)
    base = os.path.splitext(p.path)[0]
    for ext in ("stdout", "stderr"):
        if os.path.exists(base + "." + ext):
            with open(base + "." + ext, encoding="utf-8") as f:
                setattr(p.expect, ext, f.read())
    if p.exclusion is None:
        p.exclusion = _exclusion(p)
    return p


def _exclusion(p):
    if p.ignore:
        return "//= ignore"
    if p.flaky:
        return "//= flaky"
    if p.unknown_directives:
        return "unknown directive: %s" % p.unknown_directives[0]
    if not os.path.exists(p.source):
        return "source file missing: %s" % p.source_rel
    t = p.text()
    for rx, why in CONTENT_EXCLUSIONS:
        if rx.search(t):
            return why
    if not re.search(r"\bfn\s+main\s*\(", t):
        return "no main function"
    return None


def list_programs(repo=REPO, rt=True, bench=True):
    """All programs under test/rt (sorted) and bench/ (with their smallest arguments)."""
    out = []
    if rt:
        root = os.path.join(repo, "test", "rt")
        rels = []
        for d, dirs, files in os.walk(root):
            dirs.sort()
            for f in sorted(files):
                if f.endswith(".dora"):
                    rels.append(os.path.relpath(os.path.join(d, f), repo))
        for rel in sorted(rels):
            out.append(parse_program(rel, repo))
    if bench:
        root = os.path.join(repo, "bench")
        rels = []
        for d, dirs, files in os.walk(root):
            dirs.sort()
            for f in sorted(files):
                if f.endswith(".dora"):
                    rels.append(os.path.relpath(os.path.join(d, f), repo))
        for rel in sorted(rels):
            p = parse_program(rel, repo)
            p.kind = "bench"
            if rel in BENCH_ARGS:
                p._args = [(list(BENCH_ARGS[rel]), None)]
            elif p.exclusion is None:
                p.exclusion = "bench program without a known small argument list"
            out.append(p)
    return out


def exclusions(progs):
    return [(p.rel, p.exclusion) for p in progs if p.exclusion is not None]


# --- building and running --------------------------------------------------------------------------------------

class BuiltProgram:
    def __init__(self, tag, prog, src):
        self.tag, self.prog, self.src = tag, prog, src
        self.exes = {}      # cfg -> path
        self.errors = {}    # cfg -> CompileResult


def compile_programs(dirname, items, configs=CONFIGS, timeout=600, workers=None):
    """items: [(tag, Program, source_path or None)] -> {tag: BuiltProgram}, scratch dir.
    `source_path` overrides the program's source (mutants). A program restricted to one configuration (//= boots) is still
    built with every requested generator: the restriction is a statement about the repository's CI, not about the language."""
    d = scratch(dirname)
    tmpd = os.path.join(d, "tmp")
    os.makedirs(tmpd, exist_ok=True)
    res, jobs = {}, []
    for i, (tag, p, src) in enumerate(items):
        res[tag] = BuiltProgram(tag, p, src or p.source)
        for cfg in configs:
            # like the repository's runner: path relative to the repository root (it shows up in stack traces / .stderr files)
            jobs.append((i, tag, p, src or p.source_rel, cfg))

    def one(j):
        i, tag, p, src, cfg = j
        out = os.path.join(d, "x%05d.%s" % (i, cfg))
        r = execu.compile_dora(src, out, backend=cfg, extra=p.compile_args_for(cfg), timeout=timeout,
                               env={"TMPDIR": tmpd}, cwd=p.repo)
        return j, out, r

    for (i, tag, p, src, cfg), out, r in execu.pmap(one, jobs, workers):
        if r.ok and os.path.exists(out):
            res[tag].exes[cfg] = out
        else:
            res[tag].errors[cfg] = r
    return res, d


def make_cwd(base, tag, prog):
    """Working directory for one run. Programs that touch files get a private mirror of the data files next to them."""
    if not prog.needs_files():
        d = os.path.join(base, "cwd", "shared")
        os.makedirs(d, exist_ok=True)
        return d
    d = os.path.join(base, "cwd", tag)
    shutil.rmtree(d, ignore_errors=True)
    for rel in {os.path.dirname(prog.rel), os.path.dirname(prog.source_rel)}:
        src = os.path.join(prog.repo, rel)
        dst = os.path.join(d, rel)
        os.makedirs(dst, exist_ok=True)
        for f in os.listdir(src):
            a = os.path.join(src, f)
            if os.path.isfile(a) and not f.endswith((".dora", ".java", ".js", ".go", ".pl", ".log", ".md")) and os.path.getsize(a) < (1 << 20):
                shutil.copy(a, os.path.join(dst, f))
    return d


def run_built(base, built, cfg, timeout=None, tagsuffix=""):
    """Run one built program with its annotated arguments and runtime flags -> Outcome."""
    p = built.prog
    env = {}
    fl = p.dora_flags(cfg)
    if fl:
        env["DORA_FLAGS"] = fl
    cwd = make_cwd(base, "%s.%s%s" % (re.sub(r"[^A-Za-z0-9_.-]", "_", built.tag), cfg, tagsuffix), p)
    return execu.run_cmd([built.exes[cfg]] + p.args_for(cfg), timeout=timeout or p.timeout or 60, env=env, cwd=cwd)


def check_expectation(p, o):
    """Does outcome `o` match the annotations of `p`? -> None or a reason (same rules as the repository runner)."""
    if o.cls == "timeout":
        return "timeout"
    status = o.status if o.status is not None else -(o.sig or 0)
    if p.expect.fail:
        if status == 0:
            return "expected failure (exited with 0)"
        if p.expect.code is not None and status != p.expect.code:
            return "expected status %s, got %s" % (p.expect.code, status)
    elif status != 0:
        return "expected success, got %s" % o.key()
    if p.expect.stdout is not None and p.expect.stdout != o.stdout.decode("utf-8", "replace").replace("\\", "/"):
        return "stdout does not match the .stdout file"
    if p.expect.stderr is not None and p.expect.stderr != o.stderr.decode("utf-8", "replace").replace("\\", "/"):
        return "stderr does not match the .stderr file"
    return None
