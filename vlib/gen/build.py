"""Seeded recursive builder of well-typed, closed, terminating Dora programs in the IR of ir.py.

Programs are *argv-dispatched batches*: N independent case functions; main reads the case number (and the case's integer
inputs) from argv. Features enter through a mask so that they can be burned in one at a time.
"""
import math

from . import ir
from .ir import (ARITH, BOOL, CHAR, F32, F64, INT32, INT64, STR, UINT8, UNIT, ArrayT, LambdaT, OptionT, TupleT, VecT)
from .values import Fatal, Trap, Undefined, Exit, Cell, f32

ALL_FEATURES = ("float", "string", "tuple", "struct", "class", "enum", "option", "array", "vec", "lambda", "generic", "trait",
                "traitobj", "global", "manyargs", "recursion", "char_u8", "wrapping", "shift", "match_int", "loops", "letpattern")

I32_EDGE = [-(1 << 31), -(1 << 31) + 1, -65536, -129, -128, -1, 0, 1, 2, 7, 31, 32, 127, 128, 255, 256, 65535, (1 << 31) - 2, (1 << 31) - 1]
I64_EDGE = [-(1 << 63), -(1 << 63) + 1, -(1 << 32), -(1 << 31) - 1, -(1 << 31), -1, 0, 1, 3, 63, 64, (1 << 31) - 1, 1 << 31, (1 << 32) - 1,
            1 << 32, (1 << 53) + 1, (1 << 62), (1 << 63) - 2, (1 << 63) - 1]
F64_EDGE = [0.0, -0.0, 1.0, -1.0, 0.5, 0.1, 1e-7, 1.5, 2.5, 3.0, 1e10, 123456.789, 1e21, 1.7976931348623157e308, 5e-324, 2.2250738585072014e-308,
            math.inf, -math.inf, math.nan, 9007199254740993.0, 0.30000000000000004]
F32_EDGE = [0.0, -0.0, 1.0, -1.0, 0.5, f32(0.1), 1.5, 2.5, 16777216.0, f32(3.4028234663852886e38), f32(1e-45), math.inf, -math.inf, math.nan, f32(1e10)]
STRS = ["", "a", "abc", "hello world", "äöü", "€", "😀", "x\ny", "tab\there", "quote\"q", "$dollar", "back\\slash", "A" * 40]
CHARS = [ord(c) for c in "aZ0 _~"] + [10, 0xe4, 0x20ac, 0x1f600, 0x7f]


class Scope:
    def __init__(self, parent=None, fn=None):
        self.vars = []   # (name, ty, mutable)
        self.parent = parent
        self.fn = fn if fn is not None else (parent.fn if parent else None)
        self.in_loop = parent.in_loop if parent else False

    def all(self):
        s, out = self, []
        while s is not None:
            out.extend(s.vars)
            s = s.parent
        return out

    def of_type(self, ty, mutable=None):
        return [v for v in self.all() if v[1] == ty and (mutable is None or v[2] == mutable)]

    def add(self, name, ty, mutable):
        self.vars.append((name, ty, mutable))


class FnCtx:
    def __init__(self, ret, self_ty=None, self_mut=False, fuel=None):
        self.ret, self.self_ty, self.self_mut, self.fuel = ret, self_ty, self_mut, fuel
        self.counter = 0


class Case:
    def __init__(self, idx, fn, inputs):
        self.idx, self.fn, self.inputs = idx, fn, inputs
        self.expect = None   # (stdout, exit kind, first stderr line)


class Program:
    def __init__(self):
        self.aggs, self.enums, self.traits, self.fns, self.globals, self.cases = [], [], [], [], [], []
        self.argv_mode = True
        self.features = ()

    def source(self):
        out = ["use std::string::Stringable;\n"]
        for d in self.enums:
            out.append(d.src())
        for d in self.aggs:
            out.append(d.src())
        for d in self.traits:
            out.append(d.src())
        for d in self.globals:
            out.append(d.src())
        for f in self.fns:
            out.append(f.src() + "\n")
        for c in self.cases:
            out.append(c.fn.src() + "\n")
        main = ["fn main() {", "    let c = std::argv(0i32).to_int64().get_or_panic();"]
        for c in self.cases:
            if self.argv_mode:
                args = ", ".join("std::argv(%di32).to_int64().get_or_panic()" % (i + 1) for i in range(len(c.inputs)))
            else:
                args = ", ".join(ir.lit_src(v, INT64) for v in c.inputs)
            main.append("    if c == %d { %s(%s); }" % (c.idx, c.fn.name, args))
        main.append("}")
        out.append("\n".join(main) + "\n")
        return "\n".join(out)

    def run_case(self, case, max_steps=300000):
        """Reference interpretation: returns (stdout str, kind, first stderr line) or raises Undefined."""
        st = ir.State(case.inputs, max_steps)
        for g in self.globals:
            st.globals[g.name] = Cell(g.init.ev(st, {}))
        kind, err = "ok(0)", ""
        try:
            case.fn.invoke(st, list(case.inputs))
        except Trap as t:
            from ..execu import TRAP_MSG
            kind, err = "trap(%s)" % t.kind, TRAP_MSG[t.kind]
        except Fatal as f:
            kind, err = "fatal(1)", ("fatal error: " + f.msg) if not f.msg.startswith("unreachable") else f.msg
        except Exit as e:
            kind = "ok(%d)" % e.status
        except RecursionError:
            raise Undefined("interpreter recursion")
        return "".join(st.out), kind, err


class Gen:
    def __init__(self, rng, features=ALL_FEATURES, size=1.0):
        self.r = rng
        self.f = set(features)
        self.size = size
        self.p = Program()
        self.p.features = tuple(sorted(self.f))
        self.uid = 0
        self.scalar_types = [INT32, INT64, BOOL]
        if "float" in self.f:
            self.scalar_types += [F64, F32]
        if "char_u8" in self.f:
            self.scalar_types += [CHAR, UINT8]
        if "string" in self.f:
            self.scalar_types += [STR]
        self.impls = {}    # trait name -> {type src -> ImplDecl}

    # -------------------------------------------------------------------------------------------------------
    def fresh(self, prefix="v"):
        self.uid += 1
        return "%s%d" % (prefix, self.uid)

    def chance(self, p):
        return self.r.random() < p

    def pick(self, xs):
        return xs[self.r.randrange(len(xs))]

    def wpick(self, pairs):
        tot = sum(w for w, _ in pairs)
        x = self.r.random() * tot
        for w, v in pairs:
            x -= w
            if x <= 0:
                return v
        return pairs[-1][1]

    # -------------------------------------------------------------------------------------------------------
    # types
    def rand_scalar(self):
        return self.pick(self.scalar_types)

    def rand_type(self, depth=0, allow_ref=True):
        opts = [(6, "scalar")]
        if depth < 2:
            if "tuple" in self.f:
                opts.append((1.5, "tuple"))
            if "option" in self.f:
                opts.append((1, "option"))
            if "array" in self.f and allow_ref:
                opts.append((1, "array"))
            if "vec" in self.f and allow_ref:
                opts.append((0.5, "vec"))
        if self.p.aggs:
            opts.append((2, "agg"))
        if self.p.enums:
            opts.append((1.5, "enum"))
        k = self.wpick(opts)
        if k == "scalar":
            return self.rand_scalar()
        if k == "tuple":
            return TupleT([self.rand_type(depth + 1) for _ in range(self.r.randrange(2, 4))])
        if k == "option":
            return OptionT(self.rand_type(depth + 1))
        if k == "array":
            return ArrayT(self.rand_type(depth + 1))
        if k == "vec":
            return VecT(self.rand_type(depth + 1))
        if k == "agg":
            cands = [a for a in self.p.aggs if allow_ref or not a.is_class]
            return self.pick(cands).ty if cands else self.rand_scalar()
        return self.pick(self.p.enums).ty

    # -------------------------------------------------------------------------------------------------------
    # literals
    def lit(self, ty):
        k = ty.kind
        r = self.r
        if k == "Int32":
            v = self.pick(I32_EDGE) if self.chance(0.2) else r.randrange(-20, 60)
            return ir.Lit(v, ty)
        if k == "Int64":
            v = self.pick(I64_EDGE) if self.chance(0.2) else r.randrange(-20, 100)
            return ir.Lit(v, ty)
        if k == "UInt8":
            return ir.Lit(self.pick([0, 1, 127, 128, 255, r.randrange(256)]), ty)
        if k == "Bool":
            return ir.Lit(self.chance(0.5), ty)
        if k == "Char":
            return ir.Lit(self.pick(CHARS), ty)
        if k == "Float64":
            v = self.pick(F64_EDGE) if self.chance(0.3) else round(r.uniform(-50, 50), r.randrange(0, 4))
            return ir.Lit(v, ty)
        if k == "Float32":
            v = self.pick(F32_EDGE) if self.chance(0.3) else f32(round(r.uniform(-50, 50), r.randrange(0, 3)))
            return ir.Lit(v, ty)
        if k == "String":
            return ir.Lit(self.pick(STRS), ty)
        raise ValueError(k)

    # -------------------------------------------------------------------------------------------------------
    # expressions
    def expr(self, ty, sc, d=0):
        """An expression of static type `ty`."""
        k = ty.kind
        maxd = 3
        leaf = d >= maxd or self.chance(0.25 + 0.12 * d)
        cands = sc.of_type(ty)
        if leaf:
            if cands and self.chance(0.7):
                n = self.pick(cands)
                return ir.Var(n[0], ty)
            return self.leaf(ty, sc, d)
        prods = self.productions(ty, sc, d)
        if cands:
            prods.append((3, lambda: ir.Var(self.pick(cands)[0], ty)))
        prods.append((1.5, lambda: self.leaf(ty, sc, d)))
        # generic productions available for every type
        if d < 2:
            prods.append((0.7, lambda: ir.IfExpr(self.expr(BOOL, sc, d + 1), self.expr(ty, sc, d + 1), self.expr(ty, sc, d + 1), ty)))
        fns = [f for f in self.p.fns if f.ret == ty and not f.type_params and f is not getattr(sc.fn, "decl", None)]
        if fns:
            prods.append((2.5, lambda: self.call(self.pick(fns), sc, d)))
        for v in sc.all():
            vt = v[1]
            if vt.kind == "Tuple" and ty in vt.elems:
                prods.append((1, lambda v=v, vt=vt: ir.TupleGet(ir.Var(v[0], vt), self.pick([i for i, e in enumerate(vt.elems) if e == ty]))))
            if vt.kind in ("Struct", "Class"):
                idxs = [i for i, f in enumerate(vt.decl.fields) if f[1] == ty]
                if idxs:
                    prods.append((1.2, lambda v=v, vt=vt, idxs=idxs: ir.FieldGet(ir.Var(v[0], vt), self.pick(idxs))))
                ms = [m for m in vt.decl.methods if m.ret == ty and not m.is_static and not m.mutating]
                if ms and d < 2:
                    prods.append((1.2, lambda v=v, vt=vt, ms=ms: self.method_call(ir.Var(v[0], vt), self.pick(ms), sc, d)))
            if vt.kind in ("Array", "Vec") and vt.elem == ty:
                prods.append((1, lambda v=v, vt=vt: ir.Index(ir.Var(v[0], vt), self.index_expr(sc))))
            if vt.kind == "Option" and vt.elem == ty:
                prods.append((0.8, lambda v=v, vt=vt: ir.OptionMethod(ir.Var(v[0], vt), "unwrap_or", [self.expr(ty, sc, d + 1)], ty)
                              if self.chance(0.8) else ir.OptionMethod(ir.Var(v[0], vt), "get_or_panic", [], ty)))
            if vt.kind == "Enum" and d < 2 and "enum" in self.f:
                prods.append((0.8, lambda v=v, vt=vt: self.match_enum(ir.Var(v[0], vt), ty, sc, d)))
            if vt.kind == "Lambda" and vt.ret == ty and d < 2:
                prods.append((1.5, lambda v=v, vt=vt: ir.LambdaCall(ir.Var(v[0], vt), [self.expr(p, sc, d + 1) for p in vt.params])))
            if vt.kind == "TraitObj" and d < 2:
                for mi, m in enumerate(vt.decl.methods):
                    if m.ret == ty:
                        prods.append((1.2, lambda v=v, vt=vt, mi=mi, m=m: ir.TraitCall(ir.Var(v[0], vt), vt.decl, mi,
                                                                                         [self.expr(p[1], sc, d + 1) for p in m.params])))
            if vt.kind == "TypeParam" and d < 2 and getattr(vt, "bound", None) is not None:
                for mi, m in enumerate(vt.bound.methods):
                    if m.ret == ty:
                        prods.append((3, lambda v=v, vt=vt, mi=mi, m=m: ir.TraitCall(ir.Var(v[0], vt), vt.bound, mi,
                                                                                       [self.expr(p[1], sc, d + 1) for p in m.params])))
        if "generic" in self.f and d < 2:
            gfs = [f for f in self.p.fns if f.type_params and f.ret == ty]
            if gfs:
                prods.append((1.5, lambda: self.generic_call(self.pick(gfs), sc, d)))
        return self.wpick(prods)()

    def index_expr(self, sc):
        cands = sc.of_type(INT64)
        if cands and self.chance(0.5):
            return ir.Var(self.pick(cands)[0], INT64)
        return ir.Lit(self.pick([0, 0, 1, 1, 2, 3, 5, -1, 1 << 40]), INT64)

    def leaf(self, ty, sc, d):
        k = ty.kind
        if k in ("Int32", "Int64", "UInt8", "Bool", "Char", "Float64", "Float32", "String"):
            return self.lit(ty)
        if k == "Tuple":
            return ir.TupleNew([self.expr(e, sc, d + 1) for e in ty.elems])
        if k in ("Struct", "Class"):
            statics = [m for m in ty.decl.methods if m.is_static and m.ret == ty]
            if statics and self.chance(0.3):
                m = self.pick(statics)
                return ir.MethodCall(None, m, [self.expr(p[1], sc, d + 1) for p in m.params])
            return ir.StructNew(ty.decl, [self.expr(f[1], sc, d + 1) for f in ty.decl.fields])
        if k == "Enum":
            vi = self.r.randrange(len(ty.decl.variants))
            return ir.EnumNew(ty.decl, vi, [self.expr(t, sc, d + 1) for t in ty.decl.variants[vi][1]])
        if k == "Option":
            if self.chance(0.3):
                return ir.NoneNew(ty.elem)
            return ir.SomeNew(self.expr(ty.elem, sc, d + 1))
        if k == "Array":
            if self.chance(0.2) and ty.elem.kind in ("Int32", "Int64", "Bool", "Float64"):
                return ir.ArrayFill(ty.elem, ir.Lit(self.r.randrange(0, 6), INT64), self.expr(ty.elem, sc, d + 1))
            return ir.ArrayNew(ty.elem, [self.expr(ty.elem, sc, d + 2) for _ in range(self.r.randrange(0, 5))])
        if k == "Vec":
            return ir.ArrayNew(ty.elem, [self.expr(ty.elem, sc, d + 2) for _ in range(self.r.randrange(0, 4))], vec=True)
        if k == "Lambda":
            return self.lambda_new(ty, sc, d)
        if k == "TraitObj":
            impls = list(self.impls.get(ty.decl.name, {}).values())
            impls = [i for i in impls if i.for_ty.kind in ("Struct", "Class")]
            impl = self.pick(impls)
            return ir.AsTrait(self.expr(impl.for_ty, sc, d + 1), ty.decl, impl, ty)
        if k == "TypeParam":
            cands = sc.of_type(ty)
            return ir.Var(self.pick(cands)[0], ty)
        raise ValueError("leaf " + k)

    def productions(self, ty, sc, d):
        k = ty.kind
        P = []
        e = lambda t: self.expr(t, sc, d + 1)
        if k in ("Int32", "Int64"):
            P.append((5, lambda: ir.Bin(self.wpick([(4, "+"), (3, "-"), (3, "*"), (1.2, "/"), (1.2, "%"), (0.7, "|"), (0.7, "&"), (0.7, "^")]), e(ty), e(ty), ty)))
            P.append((0.6, lambda: ir.Un(self.pick(["-", "!"]), e(ty), ty)))
            if "shift" in self.f:
                P.append((0.8, lambda: ir.Bin(self.pick(["<<", ">>", ">>>"]), e(ty),
                                              ir.Lit(self.pick([0, 1, 3, 7, 31, 32, 63, 64, -1]), INT32) if self.chance(0.7) else e(INT32), ty)))
            if "wrapping" in self.f:
                P.append((0.8, lambda: ir.Builtin(e(ty), self.pick(["wrapping_add", "wrapping_sub", "wrapping_mul"]), [e(ty)], ty)))
                P.append((0.3, lambda: ir.Builtin(e(ty), self.pick(["wrapping_neg", "abs"]), [], ty)))
                P.append((0.4, lambda: ir.TupleGet(ir.Builtin(e(ty), self.pick(["overflowing_add", "overflowing_sub", "overflowing_mul"]), [e(ty)], TupleT([ty, BOOL])), 0)))
                P.append((0.3, lambda: ir.Builtin(None, self.pick(["min", "max"]), [e(ty), e(ty)], ty, static_on=ty)))
            other = INT64 if k == "Int32" else INT32
            P.append((0.8, lambda: ir.Builtin(e(other), "to_int32" if k == "Int32" else "to_int64", [], ty)))
            if "char_u8" in self.f:
                P.append((0.3, lambda: ir.Builtin(e(self.pick([UINT8, CHAR])), "to_int32" if k == "Int32" else "to_int64", [], ty)))
            P.append((0.3, lambda: ir.Builtin(e(BOOL), "to_int32" if k == "Int32" else "to_int64", [], ty)))
            if "float" in self.f:
                P.append((0.3, lambda: ir.Builtin(e(self.pick([F64, F32])), "to_int32" if k == "Int32" else "to_int64", [], ty)))
            if k == "Int64":
                for v in sc.all():
                    if v[1].kind in ("Array", "Vec"):
                        P.append((0.8, lambda v=v: ir.SeqLen(ir.Var(v[0], v[1]))))
                if "string" in self.f:
                    P.append((0.4, lambda: ir.Builtin(e(STR), "size", [], INT64)))
            if "match_int" in self.f and d < 2:
                P.append((0.5, lambda: self.match_int(ty, sc, d)))
        elif k == "UInt8":
            P.append((2, lambda: ir.Builtin(e(self.pick([INT32, INT64])), "to_uint8", [], ty)))
        elif k == "Bool":
            def cmp():
                t = self.pick([INT32, INT64] + ([F64, F32] if "float" in self.f else []) + ([CHAR, UINT8] if "char_u8" in self.f else [])
                              + ([STR] if "string" in self.f else []))
                ops = ["==", "!=", "<", "<=", ">", ">="]
                return ir.Bin(self.pick(ops), e(t), e(t), BOOL)
            P.append((5, cmp))
            P.append((2, lambda: ir.Bin(self.pick(["&&", "||"]), e(BOOL), e(BOOL), BOOL)))
            P.append((1, lambda: ir.Un("!", e(BOOL), BOOL)))
            P.append((0.3, lambda: ir.Bin(self.pick(["==", "!="]), e(BOOL), e(BOOL), BOOL)))
            if "wrapping" in self.f:
                t = self.pick([INT32, INT64])
                P.append((0.4, lambda t=t: ir.TupleGet(ir.Builtin(e(t), self.pick(["overflowing_add", "overflowing_mul"]), [e(t)], TupleT([t, BOOL])), 1)))
            if "float" in self.f:
                P.append((0.3, lambda: ir.Builtin(e(self.pick([F64, F32])), "is_nan", [], BOOL)))
            for v in sc.all():
                if v[1].kind == "Option":
                    P.append((1, lambda v=v: ir.OptionMethod(ir.Var(v[0], v[1]), self.pick(["is_some", "is_none"]), [], BOOL)))
                    P.append((0.7, lambda v=v: ir.IsExpr(ir.Var(v[0], v[1]), ir.Pattern("variant", decl=None, vi=0, subs=[ir.Pattern("wild")])
                                                         if self.chance(0.5) else ir.Pattern("variant", decl=None, vi=1, subs=[]))))
                if v[1].kind == "Enum":
                    def isenum(v=v):
                        decl = v[1].decl
                        vi = self.r.randrange(len(decl.variants))
                        return ir.IsExpr(ir.Var(v[0], v[1]), ir.Pattern("variant", decl=decl, vi=vi, subs=[ir.Pattern("wild") for _ in decl.variants[vi][1]]))
                    P.append((1, isenum))
                if v[1].kind in ("Class", "Array"):
                    others = [w for w in sc.of_type(v[1])]
                    if others:
                        P.append((0.6, lambda v=v, others=others: ir.Identical(ir.Var(v[0], v[1]), ir.Var(self.pick(others)[0], v[1]), self.chance(0.3))))
        elif k in ("Float64", "Float32"):
            P.append((5, lambda: ir.Bin(self.pick(["+", "-", "*", "/"]), e(ty), e(ty), ty)))
            P.append((0.6, lambda: ir.Un("-", e(ty), ty)))
            P.append((1, lambda: ir.Builtin(e(self.pick([INT32, INT64])), "to_float64" if k == "Float64" else "to_float32", [], ty)))
            P.append((0.6, lambda: ir.Builtin(e(F32 if k == "Float64" else F64), "to_float64" if k == "Float64" else "to_float32", [], ty)))
            P.append((0.5, lambda: ir.Builtin(e(ty), self.pick(["abs", "sqrt"]), [], ty)))
        elif k == "String":
            def tmpl():
                parts = []
                for _ in range(self.r.randrange(1, 4)):
                    if self.chance(0.6):
                        parts.append(self.pick(["", "x=", " ", ",", "[", "]", "v:", "ä", "\n"]))
                    parts.append(e(self.rand_scalar()))
                if self.chance(0.5):
                    parts.append(self.pick(["", ";", "."]))
                return ir.Template(parts)
            P.append((3, tmpl))
            P.append((1.5, lambda: ir.Bin("+", e(STR), e(STR), STR)))
            P.append((1, lambda: ir.ToString(e(self.pick([t for t in self.scalar_types if t.kind != "String"])))))
        elif k == "Tuple":
            P.append((3, lambda: ir.TupleNew([e(t) for t in ty.elems])))
        elif k in ("Struct", "Class", "Enum", "Option", "Array", "Vec", "Lambda", "TraitObj"):
            P.append((3, lambda: self.leaf(ty, sc, d)))
        return P

    def call(self, fn, sc, d):
        return ir.Call(fn, [self.expr(p[1], sc, d + 1) for p in fn.params])

    def method_call(self, recv, m, sc, d):
        return ir.MethodCall(recv, m, [self.expr(p[1], sc, d + 1) for p in m.params])

    def match_enum(self, scrut, ty, sc, d):
        decl = scrut.ty.decl
        arms = []
        order = list(range(len(decl.variants)))
        self.r.shuffle(order)
        use_wild = self.chance(0.3) and len(order) > 1
        covered = order[:-1] if use_wild else order
        for vi in covered:
            sub, names = [], []
            for t in decl.variants[vi][1]:
                if self.chance(0.7):
                    n = self.fresh("b")
                    sub.append(ir.Pattern("bind", name=n, ty=t))
                    names.append((n, t))
                else:
                    sub.append(ir.Pattern("wild"))
            sc2 = Scope(sc)
            for n, t in names:
                sc2.add(n, t, False)
            pat = ir.Pattern("variant", decl=decl, vi=vi, subs=sub)
            if names and self.chance(0.25):
                # guarded arm followed by the unguarded one
                arms.append((pat, self.expr(BOOL, sc2, d + 1), self.expr(ty, sc2, d + 1)))
            arms.append((pat, None, self.expr(ty, sc2, d + 1)))
        if use_wild:
            arms.append((ir.Pattern("wild"), None, self.expr(ty, sc, d + 1)))
        return ir.MatchExpr(scrut, arms, ty)

    def match_int(self, ty, sc, d):
        t = self.pick([INT32, INT64])
        scrut = self.expr(t, sc, d + 1)
        arms, seen = [], set()
        for _ in range(self.r.randrange(1, 5)):
            v = self.pick([0, 1, 2, 3, 5, -1, 7, 100, (1 << 31) - 1])
            if v in seen:
                continue
            seen.add(v)
            arms.append((ir.Pattern("lit", value=v, ty=t), None, self.expr(ty, sc, d + 1)))
        arms.append((ir.Pattern("wild"), None, self.expr(ty, sc, d + 1)))
        return ir.MatchExpr(scrut, arms, ty)

    def lambda_new(self, ty, sc, d):
        params = [(self.fresh("p"), t) for t in ty.params]
        sc2 = Scope(sc, fn=FnCtx(ty.ret))
        sc2.in_loop = False
        for n, t in params:
            sc2.add(n, t, False)
        stmts = []
        # mutate a captured mutable scalar local now and then (captured mutable state)
        muts = [v for v in sc.all() if v[2] and v[1].kind in ("Int32", "Int64") and v[0] != "self"]
        if muts and self.chance(0.6):
            v = self.pick(muts)
            stmts.append(ir.Assign(ir.Var(v[0], v[1]), ir.Builtin(ir.Var(v[0], v[1]), "wrapping_add", [self.lit(v[1])], v[1])))
        tail = self.expr(ty.ret, sc2, d + 1)
        return ir.LambdaNew(params, ty.ret, ir.Block(stmts, tail))

    def generic_call(self, gf, sc, d):
        # gf.type_params: [(name, bound trait name)], gf.tp_types: TypeParamT objects; pick concrete types with impls
        targs, tmap = [], {}
        for tp in gf.tp_types:
            if tp.bound is not None:
                impl = self.pick(list(self.impls[tp.bound.name].values()))
                targs.append(impl.for_ty)
                tmap[tp.name] = (impl.for_ty, impl)
            else:
                t = self.rand_scalar()
                targs.append(t)
                tmap[tp.name] = (t, None)
        args = []
        for n, t in gf.params:
            if t.kind == "TypeParam":
                ct, impl = tmap[t.name]
                args.append(ir.Boxed(self.expr(ct, sc, d + 1), impl, t))
            else:
                args.append(self.expr(t, sc, d + 1))
        c = ir.Call(gf, args, targs=targs)
        if gf.ret.kind == "TypeParam":
            ct, _ = tmap[gf.ret.name]
            return ir.Unboxed(c, ct)
        return c

    # -------------------------------------------------------------------------------------------------------
    # statements
    def printable(self, sc):
        return [v for v in sc.all() if v[1].kind in ("Int32", "Int64", "UInt8", "Bool", "Char", "Float64", "Float32", "String") and v[0] != "self"]

    def print_stmt(self, sc, all_vars=False):
        vs = self.printable(sc)
        if not vs:
            return ir.Print(ir.Lit("-", STR))
        if not all_vars:
            self.r.shuffle(vs)
            vs = vs[:self.r.randrange(1, 4)]
        parts = []
        for v in vs:
            parts.append("%s=" % v[0] if not parts else " %s=" % v[0])
            parts.append(ir.Var(v[0], v[1]))
        return ir.Print(ir.Template(parts), newline=self.chance(0.9))

    def block(self, sc, n, tail_ty=None, d=0):
        sc2 = Scope(sc)
        stmts = []
        for _ in range(n):
            s = self.stmt(sc2, d)
            if s is not None:
                stmts.extend(s if isinstance(s, list) else [s])
        tail = self.expr(tail_ty, sc2, 1) if tail_ty is not None and tail_ty.kind != "Unit" else None
        return ir.Block(stmts, tail), sc2

    def stmt(self, sc, d):
        opts = [(5, "let"), (2.5, "assign"), (2, "print"), (1.2, "if")]
        if "loops" in self.f and d < 2:
            opts += [(0.9, "while"), (0.7, "for")]
        if sc.in_loop:
            opts += [(0.3, "breakif")]
        opts += [(0.4, "assert"), (0.5, "call"), (0.6, "store"), (0.3, "retif")]
        if "class" in self.f and "array" in self.f and any(a.is_class and a.fields for a in self.p.aggs):
            opts += [(0.5, "aliasburst")]
        k = self.wpick(opts)
        r = self.r
        if k == "let":
            ty = self.rand_type()
            if "lambda" in self.f and self.chance(0.08):
                ty = LambdaT([self.rand_scalar() for _ in range(r.randrange(0, 3))], self.rand_scalar())
            if "traitobj" in self.f and self.p.traits and self.chance(0.08):
                tr = self.pick(self.p.traits)
                if any(i.for_ty.kind in ("Struct", "Class") for i in self.impls.get(tr.name, {}).values()) and tr.object_safe:
                    ty = tr.ty
            name = self.fresh()
            init = self.expr(ty, sc)
            if "letpattern" in self.f and ty.kind == "Tuple" and self.chance(0.3):
                subs = []
                names = []
                for t in ty.elems:
                    if self.chance(0.8):
                        n = self.fresh()
                        subs.append(ir.Pattern("bind", name=n, ty=t))
                        names.append((n, t))
                    else:
                        subs.append(ir.Pattern("wild"))
                st = ir.Let(None, ty, False, init, pattern=ir.Pattern("tuple", subs=subs))
                for n, t in names:
                    sc.add(n, t, False)
                return st
            mut = self.chance(0.5)
            st = ir.Let(name, ty, mut, init)
            sc.add(name, ty, mut)
            return st
        if k == "assign":
            muts = [v for v in sc.all() if v[2] and v[0] != "self" and v[1].kind != "TypeParam"]
            if sc.fn and sc.fn.self_ty is not None and (sc.fn.self_mut or sc.fn.self_ty.kind == "Class"):
                # assign to a field of self
                decl = sc.fn.self_ty.decl
                if decl.fields and self.chance(0.5):
                    fi = r.randrange(len(decl.fields))
                    return ir.Assign(ir.FieldGet(ir.Var("self", sc.fn.self_ty), fi), self.expr(decl.fields[fi][1], sc))
            if not muts:
                return None
            v = self.pick(muts)
            vt = v[1]
            if vt.kind in ("Struct",) and vt.decl.fields and self.chance(0.5):
                fi = r.randrange(len(vt.decl.fields))
                return ir.Assign(ir.FieldGet(ir.Var(v[0], vt), fi), self.expr(vt.decl.fields[fi][1], sc))
            if vt.kind in ("Int32", "Int64") and self.chance(0.3):
                return ir.Assign(ir.Var(v[0], vt), self.expr(vt, sc, 1), op=self.pick(["+", "-", "*"]))
            ms = [m for m in getattr(getattr(vt, "decl", None), "methods", []) if getattr(m, "mutating", False)] if vt.kind == "Struct" else []
            if ms and self.chance(0.6):
                m = self.pick(ms)
                return ir.ExprStmt(self.method_call(ir.Var(v[0], vt), m, sc, 0))
            return ir.Assign(ir.Var(v[0], vt), self.expr(vt, sc))
        if k == "store":
            tg = [v for v in sc.all() if v[1].kind in ("Array", "Vec", "Class")]
            if "global" in self.f and self.p.globals and self.chance(0.4):
                g = self.pick(self.p.globals)
                return ir.Assign(ir.GlobalVar(g.name, g.ty), self.expr(g.ty, sc, 1))
            if not tg:
                return None
            v = self.pick(tg)
            vt = v[1]
            if vt.kind == "Class":
                if not vt.decl.fields:
                    return None
                fi = r.randrange(len(vt.decl.fields))
                return ir.Assign(ir.FieldGet(ir.Var(v[0], vt), fi), self.expr(vt.decl.fields[fi][1], sc))
            if vt.elem.kind == "Class" and vt.elem.decl.fields and self.chance(0.5):
                # write a field through the element: the object may also be reachable through other references
                fi = r.randrange(len(vt.elem.decl.fields))
                return ir.Assign(ir.FieldGet(ir.Index(ir.Var(v[0], vt), self.index_expr(sc)), fi), self.expr(vt.elem.decl.fields[fi][1], sc, 1))
            if vt.kind == "Vec" and self.chance(0.5):
                return ir.VecPush(ir.Var(v[0], vt), self.expr(vt.elem, sc, 1))
            return ir.Assign(ir.Index(ir.Var(v[0], vt), self.index_expr(sc)), self.expr(vt.elem, sc, 1))
        if k == "aliasburst":
            return self.alias_burst(sc)
        if k == "print":
            return self.print_stmt(sc)
        if k == "if":
            a, _ = self.block(sc, r.randrange(1, 4), d=d + 1)
            b = None
            if self.chance(0.5):
                b, _ = self.block(sc, r.randrange(1, 3), d=d + 1)
            return ir.If(self.expr(BOOL, sc, 1), a, b)
        if k == "while":
            cnt = self.fresh("i")
            n = r.randrange(0, 6)
            sc.add(cnt, INT64, True)
            sc2 = Scope(sc)
            sc2.in_loop = True
            body, _ = self.block(sc2, r.randrange(1, 4), d=d + 1)
            # increment first so that `continue` cannot loop forever
            body.stmts.insert(0, ir.Assign(ir.Var(cnt, INT64), ir.Bin("+", ir.Var(cnt, INT64), ir.Lit(1, INT64), INT64)))
            # the counter must not be assigned by the body
            self._forbid_assign(body, cnt)
            return [ir.Let(cnt, INT64, True, ir.Lit(0, INT64)), ir.While(ir.Bin("<", ir.Var(cnt, INT64), ir.Lit(n, INT64), BOOL), body)]
        if k == "for":
            seqs = [v for v in sc.all() if v[1].kind in ("Array", "Vec")]
            var = self.fresh("e")
            sc2 = Scope(sc)
            sc2.in_loop = True
            if seqs and self.chance(0.5):
                v = self.pick(seqs)
                sc2.add(var, v[1].elem, False)
                body, _ = self.block(sc2, r.randrange(1, 4), d=d + 1)
                self._forbid_push(body, v[0])
                return ir.ForIn(var, ir.Var(v[0], v[1]), body)
            sc2.add(var, INT64, False)
            body, _ = self.block(sc2, r.randrange(1, 4), d=d + 1)
            lo = r.randrange(-2, 3)
            return ir.ForRange(var, ir.Lit(lo, INT64), ir.Lit(lo + r.randrange(0, 6), INT64), body)
        if k == "breakif":
            return ir.If(self.expr(BOOL, sc, 2), ir.Block([self.print_stmt(sc), ir.Break() if self.chance(0.6) else ir.Continue()]))
        if k == "assert":
            return ir.Assert(self.expr(BOOL, sc, 1))
        if k == "call":
            fs = [f for f in self.p.fns if not f.type_params]
            if not fs:
                return None
            return ir.ExprStmt(self.call(self.pick(fs), sc, 0))
        if k == "retif":
            if sc.fn is None or sc.in_loop and self.chance(0.5):
                return None
            rt = sc.fn.ret
            if rt.kind == "TypeParam":
                return None
            val = None if rt.kind == "Unit" else self.expr(rt, sc, 1)
            return ir.If(self.expr(BOOL, sc, 2), ir.Block([self.print_stmt(sc), ir.Return(val)]))
        return None

    def alias_burst(self, sc):
        """One object reachable through several references (local, array element, reloaded element, second local), field
        writes through one of them and reads through another, without calls in between: aims at load/store elimination."""
        r = self.r
        cls = self.pick([a for a in self.p.aggs if a.is_class and a.fields])
        ct = cls.ty
        scal = [i for i, f in enumerate(cls.fields) if f[1].kind in ("Int32", "Int64", "Bool", "Float64", "Float32", "String", "Char", "UInt8")]
        if not scal:
            return None
        fi = self.pick(scal)
        ft = cls.fields[fi][1]
        o, a, b = self.fresh(), self.fresh(), self.fresh()
        out = [ir.Let(o, ct, False, ir.StructNew(cls, [self.expr(f[1], sc, 2) for f in cls.fields]))]
        sc.add(o, ct, False)
        others = sc.of_type(ct)
        elems = [ir.Var(o, ct)] + [ir.Var(self.pick(others)[0], ct) for _ in range(r.randrange(0, 3))]
        r.shuffle(elems)
        pos = next(i for i, e in enumerate(elems) if e.name == o)
        arr_t = ArrayT(ct)
        out.append(ir.Let(a, arr_t, False, ir.ArrayNew(ct, elems)))
        sc.add(a, arr_t, False)
        if self.chance(0.7):
            out.append(ir.Let(b, ct, False, ir.Index(ir.Var(a, arr_t), ir.Lit(pos, INT64))))
            sc.add(b, ct, False)
            refs = [ir.Var(o, ct), ir.Var(b, ct), ir.Index(ir.Var(a, arr_t), ir.Lit(pos, INT64))]
        else:
            refs = [ir.Var(o, ct), ir.Index(ir.Var(a, arr_t), ir.Lit(pos, INT64))]
        for _ in range(r.randrange(1, 4)):
            w, rd = self.pick(refs), self.pick(refs)
            if self.chance(0.5):
                # read first so that the value is cached
                n0 = self.fresh()
                out.append(ir.Let(n0, ft, False, ir.FieldGet(self.pick(refs), fi)))
                sc.add(n0, ft, False)
            out.append(ir.Assign(ir.FieldGet(w, fi), self.expr(ft, sc, 2)))
            n1 = self.fresh()
            out.append(ir.Let(n1, ft, self.chance(0.3), ir.FieldGet(rd, fi)))
            sc.add(n1, ft, False)
        return out

    def _walk_stmts(self, block, fn):
        keep = []
        for s in block.stmts:
            if fn(s):
                keep.append(s)
            for sub in (getattr(s, "a", None), getattr(s, "b", None), getattr(s, "body", None)):
                if isinstance(sub, ir.Block):
                    self._walk_stmts(sub, fn)
        block.stmts = keep

    def _forbid_assign(self, block, name):
        first = [True]

        def ok(s):
            if isinstance(s, ir.Assign) and isinstance(s.lv, ir.Var) and s.lv.name == name:
                if first[0]:
                    first[0] = False
                    return True
                return False
            return True
        self._walk_stmts(block, ok)

    def _forbid_push(self, block, name):
        self._walk_stmts(block, lambda s: not (isinstance(s, ir.VecPush) and isinstance(s.v, ir.Var) and s.v.name == name))

    # -------------------------------------------------------------------------------------------------------
    # declarations
    def make_decls(self):
        r = self.r
        if "enum" in self.f:
            for i in range(r.randrange(1, 3)):
                vs = []
                for j in range(r.randrange(1, 5)):
                    payload = [self.rand_type(1, allow_ref=False) for _ in range(r.randrange(0, 3))] if self.chance(0.6) else []
                    vs.append(("V%d" % j, payload))
                self.p.enums.append(ir.EnumDecl("E%d" % i, vs))
        kinds = []
        if "struct" in self.f:
            kinds += [False] * r.randrange(1, 3)
        if "class" in self.f:
            kinds += [True] * r.randrange(1, 3)
        for i, is_class in enumerate(kinds):
            fields = [("f%d" % j, self.rand_type(1, allow_ref=is_class)) for j in range(r.randrange(1, 5))]
            decl = ir.AggDecl(("C%d" if is_class else "S%d") % i, fields, is_class)
            self.p.aggs.append(decl)
        if "global" in self.f:
            for i in range(r.randrange(1, 3)):
                t = self.pick([INT32, INT64, BOOL] + ([STR] if "string" in self.f else []))
                self.p.globals.append(ir.GlobalDecl("G%d" % i, t, self.lit(t)))
        # methods
        for decl in self.p.aggs:
            for j in range(r.randrange(0, 3)):
                self.make_method(decl, j)
        if "trait" in self.f:
            for i in range(r.randrange(1, 3)):
                self.make_trait(i)
        # free functions
        nf = r.randrange(2, 6)
        for i in range(nf):
            self.make_fn(i)
        if "generic" in self.f:
            for i in range(r.randrange(1, 3)):
                self.make_generic_fn(i)

    def fn_body(self, params, ret, ctx, nstmts):
        sc = Scope(fn=ctx)
        for n, t in params:
            sc.add(n, t, False)
        if ctx.self_ty is not None:
            sc.add("self", ctx.self_ty, False)
        body, sc2 = self.block(sc, nstmts, tail_ty=ret)
        if self.chance(0.4):
            body.stmts.append(self.print_stmt(sc2))
        return body

    def make_method(self, decl, j):
        r = self.r
        kind = self.wpick([(3, "plain"), (2 if not decl.is_class else 0, "mutating"), (1, "static")])
        ret = self.rand_scalar() if self.chance(0.8) else self.rand_type(1, allow_ref=False)
        params = [(self.fresh("a"), self.rand_scalar()) for _ in range(r.randrange(0, 3))]
        if kind == "static":
            ret = decl.ty
            ctx = FnCtx(ret)
        else:
            ctx = FnCtx(ret, self_ty=decl.ty, self_mut=(kind == "mutating"))
        m = ir.FnDecl("m%d" % j, params, ret, owner=decl, mutating=(kind == "mutating"), is_static=(kind == "static"), has_self=(kind != "static"))
        ctx.decl = m
        m.body = self.fn_body(params, ret, ctx, r.randrange(0, 3))
        decl.methods.append(m)

    def make_fn(self, i):
        r = self.r
        np = r.randrange(0, 4)
        params = [(self.fresh("a"), self.rand_type(1)) for _ in range(np)]
        if "manyargs" in self.f and self.chance(0.25):
            # >= 7 integer and >= 9 float arguments so that stack-passed arguments occur
            params = [(self.fresh("a"), self.pick([INT32, INT64])) for _ in range(r.randrange(7, 10))]
            if "float" in self.f:
                params += [(self.fresh("a"), self.pick([F64, F32])) for _ in range(r.randrange(9, 11))]
            r.shuffle(params)
        ret = self.rand_type(1) if self.chance(0.85) else UNIT
        f = ir.FnDecl("f%d" % i, params, ret)
        ctx = FnCtx(ret)
        ctx.decl = f
        if "recursion" in self.f and self.chance(0.2) and ret.kind in ("Int32", "Int64"):
            # explicit fuel parameter
            fuel = self.fresh("fuel")
            f.params = [(fuel, INT32)] + params
            sc = Scope(fn=ctx)
            for n, t in f.params:
                sc.add(n, t, False)
            base = self.expr(ret, sc, 2)
            rec_args = [ir.Bin("-", ir.Var(fuel, INT32), ir.Lit(1, INT32), INT32)] + [self.expr(t, sc, 2) for _, t in params]
            rec = ir.Bin(self.pick(["+", "-", "^"]), ir.Call(f, rec_args), self.expr(ret, sc, 2), ret)
            f.body = ir.Block([self.print_stmt(sc)] if self.chance(0.5) else [],
                              ir.IfExpr(ir.Bin("<=", ir.Var(fuel, INT32), ir.Lit(0, INT32), BOOL), base, rec, ret))
            f.fuel = True
        else:
            f.body = self.fn_body(params, ret, ctx, r.randrange(1, 5))
        self.p.fns.append(f)

    def make_trait(self, i):
        r = self.r
        name = "Tr%d" % i
        methods = []
        for j in range(r.randrange(1, 3)):
            params = [(self.fresh("a"), self.pick([INT32, INT64, BOOL])) for _ in range(r.randrange(0, 2))]
            ret = self.pick([INT32, INT64, BOOL] + ([STR] if "string" in self.f else []))
            methods.append(ir.FnDecl("t%d_%d" % (i, j), params, ret, has_self=True))
        tr = ir.TraitDecl(name, methods)
        tr.object_safe = True
        # last method may have a default body that only uses its params (and other trait methods through self)
        if len(methods) > 1 and self.chance(0.6):
            m = methods[-1]
            ctx = FnCtx(m.ret)
            sc = Scope(fn=ctx)
            for n, t in m.params:
                sc.add(n, t, False)
            tail = self.expr(m.ret, sc, 2)
            if methods[0].ret == m.ret and not methods[0].params and m.ret.kind in ("Int32", "Int64"):
                selft = ir.TypeParamT("Self")
                selft.bound = tr
                tail = ir.Bin("^", ir.TraitCall(ir.Var("self", selft), tr, 0, []), tail, m.ret)
            m.body = ir.Block([], tail)
        self.p.traits.append(tr)
        self.impls[name] = {}
        cands = [a.ty for a in self.p.aggs]
        r.shuffle(cands)
        for ty in cands[:r.randrange(1, 3)] or []:
            ms, written = [], []
            for m in methods:
                if m.body is not None and self.chance(0.5):
                    # use the default: for interpretation, bind the default body to this impl
                    d = ir.FnDecl(m.name, m.params, m.ret, body=m.body, has_self=True)
                    d.is_default = True
                    ms.append(d)
                    written.append(False)
                    continue
                ctx = FnCtx(m.ret, self_ty=ty, self_mut=False)
                params = [(self.fresh("a"), t) for _, t in m.params]
                d = ir.FnDecl(m.name, params, m.ret, has_self=True)
                ctx.decl = d
                d.body = self.fn_body(params, m.ret, ctx, r.randrange(0, 2))
                ms.append(d)
                written.append(True)
            impl = ir.ImplDecl(tr, ty, ms, written)
            tr.impls.append(impl)
            self.impls[name][ty.src()] = impl
        if not tr.impls:
            self.p.traits.pop()
            del self.impls[name]

    def make_generic_fn(self, i):
        r = self.r
        bounded = [t for t in self.p.traits] if "trait" in self.f else []
        tp = ir.TypeParamT("T")
        tp.bound = self.pick(bounded) if bounded and self.chance(0.7) else None
        params = [(self.fresh("a"), tp)] + [(self.fresh("a"), self.rand_scalar()) for _ in range(r.randrange(0, 3))]
        if tp.bound is None:
            ret = tp if self.chance(0.5) else self.rand_scalar()
        else:
            ret = self.rand_scalar()
        f = ir.FnDecl("g%d" % i, params, ret, type_params=[("T", tp.bound.name if tp.bound else None)])
        f.tp_types = [tp]
        ctx = FnCtx(ret)
        ctx.decl = f
        sc = Scope(fn=ctx)
        for n, t in params:
            sc.add(n, t, False)
        stmts = []
        for _ in range(r.randrange(0, 3)):
            s = self.stmt(sc, 1)
            if s is not None:
                stmts.extend(s if isinstance(s, list) else [s])
        tail = ir.Var(params[0][0], tp) if ret.kind == "TypeParam" else self.expr(ret, sc, 1)
        f.body = ir.Block(stmts, tail)
        self.p.fns.append(f)

    # -------------------------------------------------------------------------------------------------------
    def make_case(self, idx):
        r = self.r
        nin = r.randrange(1, 4)
        inputs = []
        for _ in range(nin):
            inputs.append(self.pick(I32_EDGE + I64_EDGE) if self.chance(0.15) else r.randrange(-6, 12))
        params = [("in%d" % i, INT64) for i in range(nin)]
        f = ir.FnDecl("case_%d" % idx, params, UNIT)
        ctx = FnCtx(UNIT)
        ctx.decl = f
        sc = Scope(fn=ctx)
        for n, t in params:
            sc.add(n, t, False)
        body, sc2 = self.block(sc, max(2, int(r.randrange(4, 12) * self.size)))
        body.stmts.append(self.print_stmt(sc2, all_vars=True))
        for g in self.p.globals:
            if g.ty.kind in ("Int32", "Int64", "Bool", "String"):
                body.stmts.append(ir.Print(ir.Template(["%s=" % g.name, ir.GlobalVar(g.name, g.ty)])))
        f.body = body
        return Case(idx, f, inputs)

    def program(self, ncases, argv_mode=True):
        self.p.argv_mode = argv_mode
        self.make_decls()
        idx = 0
        attempts = 0
        stats = {"discarded_undefined": 0}
        while idx < ncases and attempts < ncases * 6:
            attempts += 1
            saved_uid = self.uid
            c = self.make_case(idx)
            try:
                c.expect = self.p.run_case(c)
            except Undefined:
                stats["discarded_undefined"] += 1
                continue
            self.p.cases.append(c)
            idx += 1
        self.p.stats = stats
        return self.p
