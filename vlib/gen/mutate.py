"""Single-fault mutants of well-typed generated programs (C05): each mutator breaks exactly one static rule of a class whose
ill-typedness is unconditional. A mutator returns (class name, description) after editing the (deep-copied) program in place,
or None if the program offers no site for it."""
import copy

from . import ir
from .ir import BOOL, INT32, STR


def children(node):
    """(container, key) pairs for every IR child reachable from node's attributes."""
    out = []
    d = getattr(node, "__dict__", None)
    if not d:
        return out
    for k, v in d.items():
        if k in ("ty", "decl", "fn", "method", "trait", "impl", "owner", "static_on", "elem"):
            continue
        if isinstance(v, (ir.Expr, ir.Stmt, ir.Block)):
            out.append((d, k))
        elif isinstance(v, list):
            for i, x in enumerate(v):
                if isinstance(x, (ir.Expr, ir.Stmt, ir.Block)):
                    out.append((v, i))
                elif isinstance(x, tuple):   # match arms (pattern, guard, expr)
                    pass
    return out


def walk(root):
    """Yields (container, key, node) for all nodes below root (pre-order); match arms are handled specially."""
    stack = [(None, None, root)]
    while stack:
        c, k, n = stack.pop()
        yield c, k, n
        for (cc, kk) in children(n):
            stack.append((cc, kk, cc[kk]))
        if isinstance(n, ir.MatchExpr):
            for i, (p, g, e) in enumerate(n.arms):
                holder = {"e": e, "g": g}
                # arms are tuples: expose through a proxy list so that replacement works
                proxy = _ArmProxy(n, i)
                stack.append((proxy, "e", e))
                if g is not None:
                    stack.append((proxy, "g", g))
        if isinstance(n, ir.Template):
            for i, p in enumerate(n.parts):
                if isinstance(p, ir.Expr):
                    stack.append((n.parts, i, p))


class _ArmProxy:
    def __init__(self, m, i):
        self.m, self.i = m, i

    def __getitem__(self, k):
        p, g, e = self.m.arms[self.i]
        return e if k == "e" else g

    def __setitem__(self, k, v):
        p, g, e = self.m.arms[self.i]
        self.m.arms[self.i] = (p, g, v) if k == "e" else (p, v, e)


def all_bodies(p):
    """(label, FnDecl) of every function-like body in the program."""
    out = []
    for f in p.fns:
        out.append(("fn " + f.name, f))
    for a in p.aggs:
        for m in a.methods:
            out.append(("%s::%s" % (a.name, m.name), m))
    for t in p.traits:
        for i in t.impls:
            for m, w in zip(i.methods, i.written):
                if w:
                    out.append(("impl %s for %s::%s" % (t.name, i.for_ty.src(), m.name), m))
    for c in p.cases:
        out.append(("fn " + c.fn.name, c.fn))
    return out


def sites(p, pred):
    res = []
    for label, f in all_bodies(p):
        if f.body is None:
            continue
        for c, k, n in walk(f.body):
            if c is not None and pred(n):
                res.append((label, f, c, k, n))
    return res


# -------------------------------------------------------------------------------------------------------------
def m_type_mismatch(p, r):
    s = sites(p, lambda n: isinstance(n, (ir.If, ir.While, ir.Assert)))
    if not s:
        return None
    label, f, c, k, n = r.choice(s)
    if isinstance(n, ir.Assert):
        n.e = ir.Lit("not a bool", STR)
    else:
        n.c = ir.Lit("not a bool", STR)
    return "type-mismatch", "condition of %s in %s replaced by a String literal" % (type(n).__name__, label)


def m_nominal_mismatch(p, r):
    classes = [a for a in p.aggs]
    if len(classes) < 2:
        return None
    s = sites(p, lambda n: isinstance(n, ir.Let) and n.pattern is None and n.ty.kind in ("Struct", "Class"))
    if not s:
        return None
    label, f, c, k, n = r.choice(s)
    other = r.choice([a for a in classes if a.ty != n.ty])
    n.ty = other.ty    # declared type no longer matches the initialiser's nominal type
    return "type-mismatch", "let %s in %s declared as %s but initialised with a different nominal type" % (n.name, label, other.name)


def m_arg_count(p, r):
    s = sites(p, lambda n: isinstance(n, ir.Call) and not n.fn.type_params and len(n.fn.params) >= 1)
    s += sites(p, lambda n: isinstance(n, ir.MethodCall) and len(n.method.params) >= 1)
    if not s:
        return None
    label, f, c, k, n = r.choice(s)
    if r.random() < 0.5:
        i = r.randrange(len(n.args))
        del n.args[i]
        return "arg-count", "argument %d dropped at call in %s" % (i, label)
    i = r.randrange(len(n.args))
    n.args.insert(i, copy.deepcopy(n.args[i]))
    return "arg-count", "argument %d duplicated at call in %s" % (i, label)


def m_unknown_name(p, r):
    s = sites(p, lambda n: isinstance(n, ir.Var) and n.name != "self")
    if not s:
        return None
    label, f, c, k, n = r.choice(s)
    c[k] = ir.Var("undeclared_%d" % r.randrange(10 ** 6), n.ty)
    return "unknown-name", "use of %s in %s renamed to a fresh identifier" % (n.name, label)


class RawExpr(ir.Expr):
    def __init__(self, text, ty):
        self.text, self.ty = text, ty

    def src(self):
        return self.text

    def ev(self, st, env):
        raise ir.Undefined("raw")


class RawStmt(ir.Stmt):
    def __init__(self, text):
        self.text = text

    def src(self, ind):
        return ind + self.text

    def run(self, st, env):
        raise ir.Undefined("raw")


def m_inaccessible(p, r):
    # the printer adds `mod hidden { fn secret(): Int32 {...} pub fn open(): Int32 {...} }` to every C05 program
    s = sites(p, lambda n: isinstance(n, ir.Expr) and n.ty == INT32 and not isinstance(n, ir.Lit))
    if not s:
        return None
    label, f, c, k, n = r.choice(s)
    c[k] = RawExpr("hidden::secret()", INT32)
    return "inaccessible-name", "call of the non-pub function hidden::secret in %s" % label


def m_immutable_assign(p, r):
    # (a) reassign a non-mut let right after its declaration
    cands = []
    for label, f in all_bodies(p):
        if f.body is None:
            continue
        for c, k, n in walk(f.body):
            if isinstance(n, ir.Block):
                for i, s in enumerate(n.stmts):
                    if isinstance(s, ir.Let) and s.pattern is None and not s.mutable and s.ty.kind in ("Int32", "Int64", "Bool", "String", "Float64"):
                        cands.append((label, n, i, s))
    # (b) assign self.field in a non-mutating struct method
    cands_b = []
    for a in p.aggs:
        if a.is_class:
            continue
        for m in a.methods:
            if not m.mutating and not m.is_static and a.fields:
                cands_b.append((a, m))
    if cands_b and (not cands or r.random() < 0.3):
        a, m = r.choice(cands_b)
        fi = r.randrange(len(a.fields))
        m.body.stmts.insert(0, ir.Assign(ir.FieldGet(ir.Var("self", a.ty), fi), ir.FieldGet(ir.Var("self", a.ty), fi)))
        return "immutable-assign", "assignment to self.%s in non-mutating method %s::%s" % (a.fields[fi][0], a.name, m.name)
    if not cands:
        return None
    label, blk, i, s = r.choice(cands)
    if r.random() < 0.4:
        # the same fault inside a closure that captures the binding (plain or compound assignment)
        op = r.choice(["=", "="] + (["+="] if s.ty.kind in ("Int32", "Int64", "Float64") else []))
        blk.stmts.insert(i + 1, RawStmt("let zz_%s: (): () = ||: () { %s %s %s; };" % (s.name, s.name, op, s.name)))
        return "immutable-assign", "non-mut let %s reassigned (%s) inside a lambda that captures it, in %s" % (s.name, op, label)
    blk.stmts.insert(i + 1, ir.Assign(ir.Var(s.name, s.ty), ir.Var(s.name, s.ty)))
    return "immutable-assign", "non-mut let %s reassigned in %s" % (s.name, label)


def m_missing_return(p, r):
    cands = [(l, f) for l, f in all_bodies(p) if f.body is not None and f.body.tail is not None and f.ret.kind not in ("Unit", "TypeParam")
             and not isinstance(f.body.tail, ir.IfExpr)]
    if not cands:
        return None
    label, f = r.choice(cands)
    f.body.stmts.append(ir.ExprStmt(f.body.tail))
    f.body.tail = None
    return "missing-return", "tail expression of %s turned into a statement" % label


def m_unsatisfied_bound(p, r):
    s = sites(p, lambda n: isinstance(n, ir.Call) and n.fn.type_params and n.fn.tp_types[0].bound is not None)
    if not s:
        return None
    label, f, c, k, n = r.choice(s)
    n.targs = [INT32]    # Int32 never implements a generated trait
    for i, (pn, pt) in enumerate(n.fn.params):
        if pt.kind == "TypeParam":
            n.args[i] = ir.Lit(7, INT32)
    return "unsatisfied-bound", "generic call in %s instantiated with Int32, which lacks the bound" % label


def m_type_arg_count(p, r):
    s = sites(p, lambda n: isinstance(n, ir.Call) and n.fn.type_params and n.targs)
    if not s:
        return None
    label, f, c, k, n = r.choice(s)
    n.targs = list(n.targs) + [n.targs[0]]
    return "type-arg-count", "one type argument added at generic call in %s" % label


def m_non_exhaustive(p, r):
    def ok(n):
        if not isinstance(n, ir.MatchExpr):
            return False
        if n.scrut.ty.kind != "Enum" or len(n.scrut.ty.decl.variants) < 2:
            return False
        return all(pat.kind == "variant" for pat, g, e in n.arms)
    s = sites(p, ok)
    if not s:
        return None
    label, f, c, k, n = r.choice(s)
    vi = r.choice(sorted(set(pat.vi for pat, g, e in n.arms)))
    n.arms = [(pat, g, e) for pat, g, e in n.arms if pat.vi != vi]
    return "non-exhaustive-match", "all arms for variant %d removed from a match in %s" % (vi, label)


def m_missing_trait_method(p, r):
    cands = []
    for t in p.traits:
        for i in t.impls:
            for j, (m, w) in enumerate(zip(i.methods, i.written)):
                if w and t.methods[j].body is None:
                    cands.append((t, i, j))
    if not cands:
        return None
    t, i, j = r.choice(cands)
    i.written[j] = False
    return "missing-trait-method", "required method %s removed from impl %s for %s" % (t.methods[j].name, t.name, i.for_ty.src())


MUTATORS = [m_type_mismatch, m_nominal_mismatch, m_arg_count, m_unknown_name, m_inaccessible, m_immutable_assign, m_missing_return,
            m_unsatisfied_bound, m_type_arg_count, m_non_exhaustive, m_missing_trait_method]

HIDDEN_MOD = "mod hidden {\n    fn secret(): Int32 { 1i32 }\n    pub fn open(): Int32 { secret() + 1i32 }\n}\nfn use_hidden(): Int32 { hidden::open() }\n\n"


def mutant(p, r, which):
    """Returns (class, description, source) or None."""
    q = copy.deepcopy(p)
    res = which(q, r)
    if res is None:
        return None
    return res[0], res[1], HIDDEN_MOD + q.source()
