"""Typed IR of generated Dora programs: every node can print itself as Dora source (`src`) and evaluate itself under
the reference semantics (`ev`). The interpreter never parses Dora."""
import math

from .values import (Arr, Cell, Closure, Exit, Fatal, Obj, Trap, Undefined, checked, float_arith, float_to_int, f32, fmt_f32,
                     fmt_f64, int_div, int_mod, int_to_float, shift, wrap, RANGE, BITS)


# ------------------------------------------------------------------------------------------------------------
# Types
class T:
    kind = "?"

    def __eq__(self, o):
        return isinstance(o, T) and self.src() == o.src()

    def __hash__(self):
        return hash(self.src())

    def __repr__(self):
        return self.src()

    def is_int(self):
        return self.kind in ("Int32", "Int64")

    def is_float(self):
        return self.kind in ("Float32", "Float64")


class Prim(T):
    def __init__(self, name):
        self.kind = name

    def src(self):
        return self.kind


INT32, INT64, UINT8, BOOL, CHAR = Prim("Int32"), Prim("Int64"), Prim("UInt8"), Prim("Bool"), Prim("Char")
F32, F64, STR = Prim("Float32"), Prim("Float64"), Prim("String")


class UnitT(T):
    kind = "Unit"

    def src(self):
        return "()"


UNIT = UnitT()


class TupleT(T):
    kind = "Tuple"

    def __init__(self, elems):
        self.elems = list(elems)

    def src(self):
        return "(" + ", ".join(e.src() for e in self.elems) + ")"


class NamedT(T):
    """struct / class / enum / trait object declared in the program"""

    def __init__(self, kind, decl):
        self.kind, self.decl = kind, decl

    def src(self):
        return self.decl.name


class ArrayT(T):
    kind = "Array"

    def __init__(self, elem):
        self.elem = elem

    def src(self):
        return "Array[%s]" % self.elem.src()


class VecT(T):
    kind = "Vec"

    def __init__(self, elem):
        self.elem = elem

    def src(self):
        return "Vec[%s]" % self.elem.src()


class OptionT(T):
    kind = "Option"

    def __init__(self, elem):
        self.elem = elem

    def src(self):
        return "Option[%s]" % self.elem.src()


class LambdaT(T):
    kind = "Lambda"

    def __init__(self, params, ret):
        self.params, self.ret = list(params), ret

    def src(self):
        return "(%s): %s" % (", ".join(p.src() for p in self.params), self.ret.src())


class TypeParamT(T):
    kind = "TypeParam"

    def __init__(self, name):
        self.name = name

    def src(self):
        return self.name


# ------------------------------------------------------------------------------------------------------------
# Interpreter state
class State:
    def __init__(self, inputs, max_steps=200000):
        self.out = []
        self.inputs = inputs
        self.steps = 0
        self.max_steps = max_steps
        self.globals = {}
        self.depth = 0

    def tick(self, n=1):
        self.steps += n
        if self.steps > self.max_steps:
            raise Undefined("step budget exceeded")

    def write(self, s):
        self.out.append(s)


class BreakEx(Exception):
    pass


class ContinueEx(Exception):
    pass


class ReturnEx(Exception):
    def __init__(self, v):
        Exception.__init__(self)
        self.v = v


def to_string(v, ty):
    """The Stringable rules of the std sources for the types the generator prints."""
    k = ty.kind
    if k in ("Int32", "Int64", "UInt8"):
        return str(v)
    if k == "Bool":
        return "true" if v else "false"
    if k == "Char":
        return chr(v)
    if k == "Float64":
        return fmt_f64(v)
    if k == "Float32":
        return fmt_f32(v)
    if k == "String":
        return v
    raise Undefined("to_string of " + k)


# ------------------------------------------------------------------------------------------------------------
# Expressions
class Expr:
    ty = None

    def src(self):
        raise NotImplementedError

    def ev(self, st, env):
        raise NotImplementedError


def lit_src(v, ty):
    k = ty.kind
    if k == "Int32":
        if v == -(1 << 31):
            return "Int32::min_value()"
        return "%di32" % v if v >= 0 else "(-%di32)" % -v
    if k == "Int64":
        if v == -(1 << 63):
            return "Int64::min_value()"
        return "%d" % v if v >= 0 else "(-%d)" % -v
    if k == "UInt8":
        return "%du8" % v
    if k == "Bool":
        return "true" if v else "false"
    if k == "Char":
        c = chr(v)
        esc = {"\n": "\\n", "\t": "\\t", "\r": "\\r", "\\": "\\\\", "'": "\\'", "\0": "\\0"}
        return "'%s'" % esc.get(c, c)
    if k in ("Float64", "Float32"):
        suffix = "f32" if k == "Float32" else ""
        if v != v:
            return "%s::not_a_number()" % k
        if v == math.inf:
            return "%s::infinity_positive()" % k
        if v == -math.inf:
            return "%s::infinity_negative()" % k
        body = (fmt_f32(abs(v)) if k == "Float32" else fmt_f64(abs(v)))
        if k == "Float32" and abs(v) == 3.4028234663852886e38:
            # the shortest round-trip spelling 3.4028235e38 exceeds f32::MAX as a real number and is rejected by the
            # front end ("number does not fit"); this spelling rounds to the same value
            body = "340282340000000000000000000000000000000"
        if "." not in body:
            body += ".0"
        if math.copysign(1.0, v) < 0:
            return "(-%s%s)" % (body, suffix)
        return body + suffix
    if k == "String":
        out = []
        for ch in v:
            out.append({"\n": "\\n", "\t": "\\t", "\"": "\\\"", "\\": "\\\\", "$": "\\$", "\r": "\\r"}.get(ch, ch))
        return "\"" + "".join(out) + "\""
    raise ValueError(k)


class Lit(Expr):
    def __init__(self, v, ty):
        self.v, self.ty = v, ty

    def src(self):
        return lit_src(self.v, self.ty)

    def ev(self, st, env):
        return self.v


class Var(Expr):
    def __init__(self, name, ty):
        self.name, self.ty = name, ty

    def src(self):
        return self.name

    def ev(self, st, env):
        return env[self.name].v


class GlobalVar(Expr):
    def __init__(self, name, ty):
        self.name, self.ty = name, ty

    def src(self):
        return self.name

    def ev(self, st, env):
        return st.globals[self.name].v


ARITH = ("+", "-", "*", "/", "%")
BITOPS = ("|", "&", "^")
SHIFTS = ("<<", ">>", ">>>")
CMPS = ("==", "!=", "<", "<=", ">", ">=")


class Bin(Expr):
    def __init__(self, op, a, b, ty):
        self.op, self.a, self.b, self.ty = op, a, b, ty

    def src(self):
        return "(%s %s %s)" % (self.a.src(), self.op, self.b.src())

    def ev(self, st, env):
        st.tick()
        op = self.op
        if op == "&&":
            return bool(self.a.ev(st, env)) and bool(self.b.ev(st, env))
        if op == "||":
            return bool(self.a.ev(st, env)) or bool(self.b.ev(st, env))
        x = self.a.ev(st, env)
        y = self.b.ev(st, env)
        k = self.a.ty.kind
        if op in CMPS:
            if k == "String":
                x, y = x.encode("utf-8"), y.encode("utf-8")
            if op == "==":
                return x == y
            if op == "!=":
                return x != y
            if op == "<":
                return x < y
            if op == "<=":
                return x <= y
            if op == ">":
                return x > y
            return x >= y
        if k in ("Int32", "Int64"):
            if op == "+":
                return checked(x + y, k)
            if op == "-":
                return checked(x - y, k)
            if op == "*":
                return checked(x * y, k)
            if op == "/":
                return int_div(x, y, k)
            if op == "%":
                return int_mod(x, y, k)
            if op == "|":
                return x | y
            if op == "&":
                return x & y
            if op == "^":
                return x ^ y
            if op in SHIFTS:
                return shift(op, x, y, k)
        if k in ("Float32", "Float64"):
            return float_arith(op, x, y, k == "Float32")
        if k == "Bool":
            if op == "|":
                return x or y
            if op == "&":
                return x and y
            if op == "^":
                return x != y
        if k == "String" and op == "+":
            return x + y
        raise Undefined("bin %s on %s" % (op, k))


class Un(Expr):
    def __init__(self, op, a, ty):
        self.op, self.a, self.ty = op, a, ty

    def src(self):
        return "(%s%s)" % (self.op, self.a.src())

    def ev(self, st, env):
        st.tick()
        x = self.a.ev(st, env)
        k = self.ty.kind
        if self.op == "-":
            if k in ("Int32", "Int64"):
                return checked(-x, k)
            return -x
        if self.op == "!":
            if k == "Bool":
                return not x
            return ~x
        raise Undefined("un " + self.op)


class Builtin(Expr):
    """Method-style builtins on primitives: conversions, wrapping/overflowing arithmetic, abs, min/max, string size..."""

    def __init__(self, recv, name, args, ty, static_on=None):
        self.recv, self.name, self.args, self.ty, self.static_on = recv, name, list(args), ty, static_on

    def src(self):
        a = ", ".join(x.src() for x in self.args)
        if self.static_on is not None:
            return "%s::%s(%s)" % (self.static_on.src(), self.name, a)
        return "%s.%s(%s)" % (self.recv.src(), self.name, a)

    def ev(self, st, env):
        st.tick()
        n = self.name
        if self.static_on is not None:
            args = [a.ev(st, env) for a in self.args]
            k = self.static_on.kind
            if n == "min":
                return min(args)
            if n == "max":
                return max(args)
            if n == "max_value":
                return RANGE[k][1]
            if n == "min_value":
                return RANGE[k][0]
            raise Undefined(n)
        x = self.recv.ev(st, env)
        args = [a.ev(st, env) for a in self.args]
        k = self.recv.ty.kind
        if k in ("Int32", "Int64"):
            bits = BITS[k]
            if n == "to_int64":
                return x
            if n == "to_int32":
                return wrap(x, 32)
            if n == "to_uint8":
                return x & 255
            if n == "to_float64":
                return int_to_float(x, 53)
            if n == "to_float32":
                return int_to_float(x, 24)
            if n == "wrapping_add":
                return wrap(x + args[0], bits)
            if n == "wrapping_sub":
                return wrap(x - args[0], bits)
            if n == "wrapping_mul":
                return wrap(x * args[0], bits)
            if n == "wrapping_neg":
                return wrap(-x, bits)
            if n in ("overflowing_add", "overflowing_sub", "overflowing_mul"):
                r = {"overflowing_add": x + args[0], "overflowing_sub": x - args[0], "overflowing_mul": x * args[0]}[n]
                w = wrap(r, bits)
                return (w, w != r)
            if n == "abs":
                return wrap(abs(x), bits)   # std: (self ^ s).wrapping_sub(s), so MIN.abs() == MIN
            if n == "to_char_unchecked":
                return x
        if k == "UInt8":
            if n in ("to_int32", "to_int64"):
                return x
        if k == "Char":
            if n in ("to_int32", "to_int64"):
                return x
        if k == "Bool":
            if n in ("to_int32", "to_int64"):
                return 1 if x else 0
        if k in ("Float32", "Float64"):
            if n == "to_int32":
                return float_to_int(x, "Int32")
            if n == "to_int64":
                return float_to_int(x, "Int64")
            if n == "to_float64":
                return x
            if n == "to_float32":
                return f32(x)
            if n == "is_nan":
                return x != x
            if n == "abs":
                return abs(x)
            if n == "sqrt":
                if x < 0:
                    return math.nan
                if x != x or x == math.inf:
                    return x
                r = math.sqrt(x)
                return f32(r) if k == "Float32" else r
        if k == "String":
            if n == "size":
                return len(x.encode("utf-8"))
        raise Undefined("builtin %s on %s" % (n, k))


class ToString(Expr):
    ty = STR

    def __init__(self, a):
        self.a = a

    def src(self):
        return "%s.to_string()" % self.a.src()

    def ev(self, st, env):
        return to_string(self.a.ev(st, env), self.a.ty)


class Template(Expr):
    """String template "lit${e}lit..." -- parts are str or Expr"""
    ty = STR

    def __init__(self, parts):
        self.parts = parts

    def src(self):
        out = []
        for p in self.parts:
            if isinstance(p, str):
                out.append(lit_src(p, STR)[1:-1])
            else:
                out.append("${%s}" % p.src())
        return "\"" + "".join(out) + "\""

    def ev(self, st, env):
        st.tick()
        out = []
        for p in self.parts:
            if isinstance(p, str):
                out.append(p)
            else:
                out.append(to_string(p.ev(st, env), p.ty))
        return "".join(out)


class IfExpr(Expr):
    def __init__(self, c, a, b, ty):
        self.c, self.a, self.b, self.ty = c, a, b, ty

    def src(self):
        return "(if %s { %s } else { %s })" % (self.c.src(), self.a.src(), self.b.src())

    def ev(self, st, env):
        st.tick()
        return self.a.ev(st, env) if self.c.ev(st, env) else self.b.ev(st, env)


class TupleNew(Expr):
    def __init__(self, es):
        self.es = list(es)
        self.ty = TupleT([e.ty for e in es])

    def src(self):
        return "(" + ", ".join(e.src() for e in self.es) + ")"

    def ev(self, st, env):
        return tuple(e.ev(st, env) for e in self.es)


class TupleGet(Expr):
    def __init__(self, e, i):
        self.e, self.i, self.ty = e, i, e.ty.elems[i]

    def src(self):
        return "%s.%d" % (self.e.src(), self.i)

    def ev(self, st, env):
        return self.e.ev(st, env)[self.i]


class StructNew(Expr):
    """struct or class constructor with named arguments"""

    def __init__(self, decl, args):
        self.decl, self.args, self.ty = decl, list(args), decl.ty

    def src(self):
        return "%s(%s)" % (self.decl.name, ", ".join("%s = %s" % (f[0], a.src()) for f, a in zip(self.decl.fields, self.args)))

    def ev(self, st, env):
        st.tick()
        vals = [a.ev(st, env) for a in self.args]
        if self.decl.is_class:
            return Obj(self.decl, vals)
        return tuple(vals)


class FieldGet(Expr):
    def __init__(self, e, idx):
        self.e, self.idx = e, idx
        self.ty = e.ty.decl.fields[idx][1]

    def src(self):
        return "%s.%s" % (self.e.src(), self.e.ty.decl.fields[self.idx][0])

    def ev(self, st, env):
        v = self.e.ev(st, env)
        if isinstance(v, Obj):
            return v.f[self.idx]
        return v[self.idx]


class EnumNew(Expr):
    def __init__(self, decl, vi, args):
        self.decl, self.vi, self.args, self.ty = decl, vi, list(args), decl.ty

    def src(self):
        name = "%s::%s" % (self.decl.name, self.decl.variants[self.vi][0])
        if self.args:
            return "%s(%s)" % (name, ", ".join(a.src() for a in self.args))
        return name

    def ev(self, st, env):
        return (self.vi, tuple(a.ev(st, env) for a in self.args))


class SomeNew(Expr):
    def __init__(self, e):
        self.e, self.ty = e, OptionT(e.ty)

    def src(self):
        return "Some[%s](%s)" % (self.e.ty.src(), self.e.src())

    def ev(self, st, env):
        return (0, (self.e.ev(st, env),))


class NoneNew(Expr):
    def __init__(self, elem):
        self.ty = OptionT(elem)

    def src(self):
        return "None[%s]" % self.ty.elem.src()

    def ev(self, st, env):
        return (1, ())


class OptionMethod(Expr):
    def __init__(self, e, name, args, ty):
        self.e, self.name, self.args, self.ty = e, name, list(args), ty

    def src(self):
        return "%s.%s(%s)" % (self.e.src(), self.name, ", ".join(a.src() for a in self.args))

    def ev(self, st, env):
        st.tick()
        v = self.e.ev(st, env)
        args = [a.ev(st, env) for a in self.args]
        n = self.name
        if n == "is_some":
            return v[0] == 0
        if n == "is_none":
            return v[0] == 1
        if n == "get_or_panic":
            if v[0] == 1:
                raise Fatal("cannot unwrap None.")
            return v[1][0]
        if n == "unwrap_or":
            return v[1][0] if v[0] == 0 else args[0]
        raise Undefined(n)


class Pattern:
    """kinds: wild, bind(name, ty), lit(value, ty), variant(decl/None for Option, vi, subpatterns), tuple(subs)"""

    def __init__(self, kind, **kw):
        self.kind = kind
        self.__dict__.update(kw)

    def src(self):
        k = self.kind
        if k == "wild":
            return "_"
        if k == "bind":
            return self.name
        if k == "lit":
            s = lit_src(self.value, self.ty)
            return s[1:-1] if s.startswith("(-") else s
        if k == "variant":
            if self.decl is None:
                name = "Some" if self.vi == 0 else "None"
            else:
                name = "%s::%s" % (self.decl.name, self.decl.variants[self.vi][0])
            if self.subs:
                return "%s(%s)" % (name, ", ".join(s.src() for s in self.subs))
            return name
        if k == "tuple":
            return "(" + ", ".join(s.src() for s in self.subs) + ")"
        if k == "alt":
            return " | ".join(s.src() for s in self.subs)
        raise ValueError(k)

    def match(self, v, binds):
        k = self.kind
        if k == "wild":
            return True
        if k == "bind":
            binds[self.name] = v
            return True
        if k == "lit":
            return v == self.value
        if k == "variant":
            if v[0] != self.vi:
                return False
            return all(s.match(x, binds) for s, x in zip(self.subs, v[1]))
        if k == "tuple":
            return all(s.match(x, binds) for s, x in zip(self.subs, v))
        if k == "alt":
            return any(s.match(v, binds) for s in self.subs)
        raise ValueError(k)


class MatchExpr(Expr):
    """arms: (pattern, guard Expr or None, value Expr)"""

    def __init__(self, scrut, arms, ty):
        self.scrut, self.arms, self.ty = scrut, arms, ty

    def src(self):
        parts = []
        for p, g, e in self.arms:
            parts.append("%s%s => %s" % (p.src(), (" if " + g.src()) if g is not None else "", e.src()))
        return "(match %s { %s })" % (self.scrut.src(), ", ".join(parts))

    def ev(self, st, env):
        st.tick()
        v = self.scrut.ev(st, env)
        for p, g, e in self.arms:
            binds = {}
            if p.match(v, binds):
                env2 = dict(env)
                for n, x in binds.items():
                    env2[n] = Cell(x)
                if g is not None and not g.ev(st, env2):
                    continue
                return e.ev(st, env2)
        raise Fatal("unreachable code executed.")


class IsExpr(Expr):
    ty = BOOL

    def __init__(self, e, pat):
        self.e, self.pat = e, pat

    def src(self):
        return "(%s is %s)" % (self.e.src(), self.pat.src())

    def ev(self, st, env):
        return self.pat.match(self.e.ev(st, env), {})


class ArrayNew(Expr):
    def __init__(self, elem, es, vec=False):
        self.elem, self.es, self.vec = elem, list(es), vec
        self.ty = VecT(elem) if vec else ArrayT(elem)

    def src(self):
        return "%s[%s]::new(%s)" % ("Vec" if self.vec else "Array", self.elem.src(), ", ".join(e.src() for e in self.es))

    def ev(self, st, env):
        st.tick()
        return Arr([e.ev(st, env) for e in self.es])


class ArrayFill(Expr):
    def __init__(self, elem, n, v):
        self.elem, self.n, self.v, self.ty = elem, n, v, ArrayT(elem)

    def src(self):
        return "Array[%s]::fill(%s, %s)" % (self.elem.src(), self.n.src(), self.v.src())

    def ev(self, st, env):
        n = self.n.ev(st, env)
        v = self.v.ev(st, env)
        if n < 0 or n > 100000:
            raise Undefined("array length outside the subset")
        st.tick(n)
        return Arr([v] * n)


def oob(seq_ty):
    """Array: the documented trap; Vec: std's IndexGet/IndexSet call fatal_error (exit status 1)."""
    if seq_ty.kind == "Vec":
        raise Fatal("index out of bounds for vector")
    raise Trap("INDEX_OUT_OF_BOUNDS")


class Index(Expr):
    def __init__(self, a, i):
        self.a, self.i, self.ty = a, i, a.ty.elem

    def src(self):
        return "%s(%s)" % (self.a.src(), self.i.src())

    def ev(self, st, env):
        st.tick()
        a = self.a.ev(st, env)
        i = self.i.ev(st, env)
        if i < 0 or i >= len(a.v):
            oob(self.a.ty)
        return a.v[i]


class SeqLen(Expr):
    ty = INT64

    def __init__(self, a):
        self.a = a

    def src(self):
        return "%s.size()" % self.a.src()

    def ev(self, st, env):
        return len(self.a.ev(st, env).v)


class Identical(Expr):
    ty = BOOL

    def __init__(self, a, b, neg=False):
        self.a, self.b, self.neg = a, b, neg

    def src(self):
        return "(%s %s %s)" % (self.a.src(), "!==" if self.neg else "===", self.b.src())

    def ev(self, st, env):
        r = self.a.ev(st, env) is self.b.ev(st, env)
        return (not r) if self.neg else r


class Call(Expr):
    def __init__(self, fn, args, targs=None):
        self.fn, self.args, self.targs = fn, list(args), targs
        self.ty = fn.ret if targs is None else fn.ret_for(targs)

    def src(self):
        t = "" if not self.targs else "[%s]" % ", ".join(x.src() for x in self.targs)
        return "%s%s(%s)" % (self.fn.name, t, ", ".join(a.src() for a in self.args))

    def ev(self, st, env):
        st.tick()
        args = [a.ev(st, env) for a in self.args]
        return self.fn.invoke(st, args)


class MethodCall(Expr):
    """User method on struct/class (decl method). For `mutating` struct methods the receiver must be a Var."""

    def __init__(self, recv, method, args):
        self.recv, self.method, self.args, self.ty = recv, method, list(args), method.ret

    def src(self):
        if self.method.is_static:
            return "%s::%s(%s)" % (self.method.owner.name, self.method.name, ", ".join(a.src() for a in self.args))
        return "%s.%s(%s)" % (self.recv.src(), self.method.name, ", ".join(a.src() for a in self.args))

    def ev(self, st, env):
        st.tick()
        if self.method.is_static:
            args = [a.ev(st, env) for a in self.args]
            return self.method.invoke(st, args)
        selfv = self.recv.ev(st, env)
        args = [a.ev(st, env) for a in self.args]
        if self.method.mutating:
            r, newself = self.method.invoke_self(st, selfv, args, want_self=True)
            self.recv.assign(st, env, newself)
            return r
        return self.method.invoke_self(st, selfv, args)


class TraitCall(Expr):
    """Call through a trait: on a trait object (dynamic dispatch) or inside a generic function on a type parameter."""

    def __init__(self, recv, trait, mi, args):
        self.recv, self.trait, self.mi, self.args = recv, trait, mi, list(args)
        self.ty = trait.methods[mi].ret

    def src(self):
        return "%s.%s(%s)" % (self.recv.src(), self.trait.methods[self.mi].name, ", ".join(a.src() for a in self.args))

    def ev(self, st, env):
        st.tick()
        v = self.recv.ev(st, env)
        args = [a.ev(st, env) for a in self.args]
        # v is (impl, value) for trait objects and type-parameter values
        impl, inner = v
        m = impl.methods[self.mi]
        # a default method body sees `self` through the trait again
        return m.invoke_self(st, (impl, inner) if getattr(m, "is_default", False) else inner, args)


class AsTrait(Expr):
    def __init__(self, e, trait, impl, ty):
        self.e, self.trait, self.impl, self.ty = e, trait, impl, ty

    def src(self):
        return "(%s as %s)" % (self.e.src(), self.trait.name)

    def ev(self, st, env):
        return (self.impl, self.e.ev(st, env))


class Boxed(Expr):
    """Interpreter-only: wraps an argument passed for a bounded type parameter with its impl (no source effect)."""

    def __init__(self, e, impl, ty):
        self.e, self.impl, self.ty = e, impl, ty

    def src(self):
        return self.e.src()

    def ev(self, st, env):
        return (self.impl, self.e.ev(st, env))


class Unboxed(Expr):
    """Interpreter-only inverse of Boxed (result of a generic function returning its type parameter)."""

    def __init__(self, e, ty):
        self.e, self.ty = e, ty

    def src(self):
        return self.e.src()

    def ev(self, st, env):
        return self.e.ev(st, env)[1]


class LambdaNew(Expr):
    def __init__(self, params, ret, body):
        self.params, self.ret, self.body = params, ret, body
        self.ty = LambdaT([p[1] for p in params], ret)

    def src(self):
        return "|%s|: %s %s" % (", ".join("%s: %s" % (n, t.src()) for n, t in self.params), self.ret.src(), self.body.src_inline())

    def ev(self, st, env):
        return Closure(self, env)   # captures the cells (by reference), as Dora contexts do


class LambdaCall(Expr):
    def __init__(self, f, args):
        self.f, self.args, self.ty = f, list(args), f.ty.ret

    def src(self):
        return "%s(%s)" % (self.f.src(), ", ".join(a.src() for a in self.args))

    def ev(self, st, env):
        st.tick()
        c = self.f.ev(st, env)
        args = [a.ev(st, env) for a in self.args]
        env2 = dict(c.env)
        for (n, _), v in zip(c.lam.params, args):
            env2[n] = Cell(v)
        st.depth += 1
        if st.depth > 200:
            raise Undefined("call depth")
        try:
            return c.lam.body.run_value(st, env2)
        except ReturnEx as r:
            return r.v
        finally:
            st.depth -= 1


class BlockExpr(Expr):
    """{ stmts; tail } used as an expression (e.g. function bodies, lambda bodies)"""

    def __init__(self, block, ty):
        self.block, self.ty = block, ty

    def src(self):
        return self.block.src_inline()

    def ev(self, st, env):
        return self.block.run_value(st, dict(env))


# lvalues ------------------------------------------------------------------------------------------------------
def _var_assign(self, st, env, v):
    env[self.name].v = v


Var.assign = _var_assign


def _global_assign(self, st, env, v):
    st.globals[self.name].v = v


GlobalVar.assign = _global_assign


def _field_assign(self, st, env, v):
    base = self.e.ev(st, env)
    if isinstance(base, Obj):
        base.f[self.idx] = v
    else:
        nb = tuple(v if i == self.idx else x for i, x in enumerate(base))
        self.e.assign(st, env, nb)


FieldGet.assign = _field_assign


def _index_assign(self, st, env, v):
    a = self.a.ev(st, env)
    i = self.i.ev(st, env)
    if i < 0 or i >= len(a.v):
        oob(self.a.ty)
    a.v[i] = v


Index.assign = _index_assign


# ------------------------------------------------------------------------------------------------------------
# Statements
class Stmt:
    def src(self, ind):
        raise NotImplementedError

    def run(self, st, env):
        raise NotImplementedError


class Let(Stmt):
    def __init__(self, name, ty, mutable, init, pattern=None):
        self.name, self.ty, self.mutable, self.init, self.pattern = name, ty, mutable, init, pattern

    def src(self, ind):
        if self.pattern is not None:
            return "%slet %s = %s;" % (ind, self.pattern.src(), self.init.src())
        return "%slet %s%s: %s = %s;" % (ind, "mut " if self.mutable else "", self.name, self.ty.src(), self.init.src())

    def run(self, st, env):
        st.tick()
        v = self.init.ev(st, env)
        if self.pattern is not None:
            binds = {}
            self.pattern.match(v, binds)
            for n, x in binds.items():
                env[n] = Cell(x)
        else:
            env[self.name] = Cell(v)


class Assign(Stmt):
    def __init__(self, lv, e, op=None):
        self.lv, self.e, self.op = lv, e, op

    def src(self, ind):
        return "%s%s %s= %s;" % (ind, self.lv.src(), self.op or "", self.e.src())

    def run(self, st, env):
        st.tick()
        if self.op:
            # a op= b  ==  a = a op b, lvalue evaluated first
            cur = self.lv.ev(st, env)
            rhs = self.e.ev(st, env)
            v = Bin(self.op, Lit(cur, self.lv.ty), Lit(rhs, self.e.ty), self.lv.ty).ev(st, env)
        else:
            if isinstance(self.lv, Index):
                # array store: array and index are evaluated before the value
                a = self.lv.a.ev(st, env)
                i = self.lv.i.ev(st, env)
                v = self.e.ev(st, env)
                if i < 0 or i >= len(a.v):
                    oob(self.lv.a.ty)
                a.v[i] = v
                return
            v = self.e.ev(st, env)
        self.lv.assign(st, env, v)


class ExprStmt(Stmt):
    def __init__(self, e):
        self.e = e

    def src(self, ind):
        return "%s%s;" % (ind, self.e.src())

    def run(self, st, env):
        self.e.ev(st, env)


class Block:
    def __init__(self, stmts, tail=None):
        self.stmts, self.tail = list(stmts), tail

    def src(self, ind):
        lines = ["{"]
        for s in self.stmts:
            lines.append(s.src(ind + "    "))
        if self.tail is not None:
            lines.append(ind + "    " + self.tail.src())
        lines.append(ind + "}")
        return "\n".join(lines)

    def src_inline(self):
        parts = [s.src("") for s in self.stmts]
        if self.tail is not None:
            parts.append(self.tail.src())
        return "{ " + " ".join(parts) + " }"

    def run(self, st, env):
        for s in self.stmts:
            s.run(st, env)
        if self.tail is not None:
            return self.tail.ev(st, env)
        return None

    def run_value(self, st, env):
        return self.run(st, env)


class If(Stmt):
    def __init__(self, c, a, b=None):
        self.c, self.a, self.b = c, a, b

    def src(self, ind):
        s = "%sif %s %s" % (ind, self.c.src(), self.a.src(ind))
        if self.b is not None:
            s += " else %s" % self.b.src(ind)
        return s

    def run(self, st, env):
        st.tick()
        if self.c.ev(st, env):
            self.a.run(st, dict(env))
        elif self.b is not None:
            self.b.run(st, dict(env))


class While(Stmt):
    def __init__(self, c, body):
        self.c, self.body = c, body

    def src(self, ind):
        return "%swhile %s %s" % (ind, self.c.src(), self.body.src(ind))

    def run(self, st, env):
        while True:
            st.tick()
            if not self.c.ev(st, env):
                break
            try:
                self.body.run(st, dict(env))   # fresh cells per iteration for body-local lets
            except BreakEx:
                break
            except ContinueEx:
                continue


class ForRange(Stmt):
    def __init__(self, var, lo, hi, body):
        self.var, self.lo, self.hi, self.body = var, lo, hi, body

    def src(self, ind):
        return "%sfor %s in std::range(%s, %s) %s" % (ind, self.var, self.lo.src(), self.hi.src(), self.body.src(ind))

    def run(self, st, env):
        lo = self.lo.ev(st, env)
        hi = self.hi.ev(st, env)
        i = lo
        while i < hi:
            st.tick()
            env2 = dict(env)
            env2[self.var] = Cell(i)
            try:
                self.body.run(st, env2)
            except BreakEx:
                break
            except ContinueEx:
                pass
            i += 1


class ForIn(Stmt):
    def __init__(self, var, seq, body):
        self.var, self.seq, self.body = var, seq, body

    def src(self, ind):
        return "%sfor %s in %s %s" % (ind, self.var, self.seq.src(), self.body.src(ind))

    def run(self, st, env):
        a = self.seq.ev(st, env)
        i = 0
        while i < len(a.v):   # the length is re-read: pushes during iteration are visible (not generated)
            st.tick()
            env2 = dict(env)
            env2[self.var] = Cell(a.v[i])
            try:
                self.body.run(st, env2)
            except BreakEx:
                break
            except ContinueEx:
                pass
            i += 1


class Break(Stmt):
    def src(self, ind):
        return ind + "break;"

    def run(self, st, env):
        raise BreakEx()


class Continue(Stmt):
    def src(self, ind):
        return ind + "continue;"

    def run(self, st, env):
        raise ContinueEx()


class Return(Stmt):
    def __init__(self, e=None):
        self.e = e

    def src(self, ind):
        return "%sreturn%s;" % (ind, (" " + self.e.src()) if self.e is not None else "")

    def run(self, st, env):
        raise ReturnEx(self.e.ev(st, env) if self.e is not None else None)


class Print(Stmt):
    def __init__(self, e, newline=True):
        self.e, self.newline = e, newline

    def src(self, ind):
        return "%s%s(%s);" % (ind, "println" if self.newline else "print", self.e.src())

    def run(self, st, env):
        st.tick()
        s = self.e.ev(st, env)
        st.write(s + ("\n" if self.newline else ""))


class Assert(Stmt):
    def __init__(self, e):
        self.e = e

    def src(self, ind):
        return "%sassert(%s);" % (ind, self.e.src())

    def run(self, st, env):
        st.tick()
        if not self.e.ev(st, env):
            raise Trap("ASSERT")


class VecPush(Stmt):
    def __init__(self, v, e):
        self.v, self.e = v, e

    def src(self, ind):
        return "%s%s.push(%s);" % (ind, self.v.src(), self.e.src())

    def run(self, st, env):
        st.tick()
        a = self.v.ev(st, env)
        a.v.append(self.e.ev(st, env))


# ------------------------------------------------------------------------------------------------------------
# Declarations
class FnDecl:
    def __init__(self, name, params, ret, body=None, owner=None, mutating=False, is_static=False, type_params=None, has_self=False):
        self.name, self.params, self.ret, self.body = name, list(params), ret, body
        self.owner, self.mutating, self.is_static = owner, mutating, is_static
        self.type_params = type_params or []   # [(name, bound trait decl or None)]
        self.has_self = has_self

    def sig(self):
        tp = ""
        if self.type_params:
            tp = "[" + ", ".join(n if b is None else "%s: %s" % (n, b) for n, b in self.type_params) + "]"
        mods = ""
        if self.is_static:
            mods = "static "
        elif self.mutating:
            mods = "mutating "
        r = "" if self.ret.kind == "Unit" else ": " + self.ret.src()
        return "%sfn %s%s(%s)%s" % (mods, self.name, tp, ", ".join("%s: %s" % (n, t.src()) for n, t in self.params), r)

    def src(self, ind=""):
        return "%s%s %s" % (ind, self.sig(), self.body.src(ind))

    def _run(self, st, env):
        st.depth += 1
        if st.depth > 200:
            raise Undefined("call depth outside the subset")
        try:
            return self.body.run_value(st, env)
        except ReturnEx as r:
            return r.v
        finally:
            st.depth -= 1

    def invoke(self, st, args):
        env = {}
        for (n, _), v in zip(self.params, args):
            env[n] = Cell(v)
        return self._run(st, env)

    def invoke_self(self, st, selfv, args, want_self=False):
        env = {"self": Cell(selfv)}
        for (n, _), v in zip(self.params, args):
            env[n] = Cell(v)
        r = self._run(st, env)
        if want_self:
            return r, env["self"].v
        return r

    def ret_for(self, targs):
        return self.ret


class AggDecl:
    """struct or class"""

    def __init__(self, name, fields, is_class):
        self.name, self.fields, self.is_class = name, list(fields), is_class
        self.methods = []
        self.ty = NamedT("Class" if is_class else "Struct", self)

    def src(self):
        kw = "class" if self.is_class else "struct"
        s = "%s %s { %s }\n" % (kw, self.name, ", ".join("%s: %s" % (n, t.src()) for n, t in self.fields))
        if self.methods:
            s += "impl %s {\n" % self.name
            for m in self.methods:
                s += m.src("    ") + "\n"
            s += "}\n"
        return s


class EnumDecl:
    def __init__(self, name, variants):
        self.name, self.variants = name, list(variants)   # [(name, [T])]
        self.ty = NamedT("Enum", self)

    def src(self):
        vs = []
        for n, ts in self.variants:
            vs.append(n if not ts else "%s(%s)" % (n, ", ".join(t.src() for t in ts)))
        return "enum %s { %s }\n" % (self.name, ", ".join(vs))


class TraitDecl:
    """methods: FnDecl signatures (body None = required, body = default); impls: list of ImplDecl"""

    def __init__(self, name, methods):
        self.name, self.methods = name, list(methods)
        self.impls = []
        self.ty = NamedT("TraitObj", self)

    def src(self):
        s = "trait %s {\n" % self.name
        for m in self.methods:
            if m.body is None:
                s += "    %s;\n" % m.sig()
            else:
                s += m.src("    ") + "\n"
        s += "}\n"
        for i in self.impls:
            s += i.src()
        return s


class ImplDecl:
    def __init__(self, trait, for_ty, methods, written):
        self.trait, self.for_ty, self.methods, self.written = trait, for_ty, methods, written
        # methods: full list aligned with trait.methods (defaults filled in); written: which ones are in the source

    def src(self):
        s = "impl %s for %s {\n" % (self.trait.name, self.for_ty.src())
        for m, w in zip(self.methods, self.written):
            if w:
                s += m.src("    ") + "\n"
        s += "}\n"
        return s


class GlobalDecl:
    def __init__(self, name, ty, init):
        self.name, self.ty, self.init = name, ty, init

    def src(self):
        return "let mut %s: %s = %s;\n" % (self.name, self.ty.src(), self.init.src())
