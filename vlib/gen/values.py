"""Value model and primitive semantics of the reference interpreter (shares no code with Dora).

Integers are Python ints (range checked by the operations), Char is an int code point, Bool is bool, Float64 is a Python
float, Float32 is a Python float that is always exactly representable in binary32, String is str (size = UTF-8 bytes).
Structs / tuples / enum values are immutable Python tuples (value semantics for free); class instances, arrays and
closures are identity objects.
"""
import math
import struct


class Trap(Exception):
    """A documented trap: kind in execu.TRAPS values."""

    def __init__(self, kind):
        Exception.__init__(self, kind)
        self.kind = kind


class Fatal(Exception):
    """std::fatal_error / unreachable: message on stderr, exit status 1."""

    def __init__(self, msg):
        Exception.__init__(self, msg)
        self.msg = msg


class Undefined(Exception):
    """The generated case left the reference subset (e.g. float->int out of range): discard the case."""


class Exit(Exception):
    def __init__(self, status):
        Exception.__init__(self, status)
        self.status = status


I32_MIN, I32_MAX = -(1 << 31), (1 << 31) - 1
I64_MIN, I64_MAX = -(1 << 63), (1 << 63) - 1
RANGE = {"Int32": (I32_MIN, I32_MAX), "Int64": (I64_MIN, I64_MAX), "UInt8": (0, 255)}
BITS = {"Int32": 32, "Int64": 64}


def wrap(v, bits):
    v &= (1 << bits) - 1
    if v >> (bits - 1):
        v -= 1 << bits
    return v


def checked(v, tname):
    lo, hi = RANGE[tname]
    if v < lo or v > hi:
        raise Trap("OVERFLOW")
    return v


def int_div(a, b, tname):
    if b == 0:
        raise Trap("DIV0")
    lo, _ = RANGE[tname]
    if a == lo and b == -1:
        raise Trap("OVERFLOW")
    q = abs(a) // abs(b)
    return q if (a < 0) == (b < 0) else -q


def int_mod(a, b, tname):
    if b == 0:
        raise Trap("DIV0")
    lo, _ = RANGE[tname]
    if a == lo and b == -1:
        raise Trap("OVERFLOW")
    r = abs(a) % abs(b)
    return r if a >= 0 else -r


def shift(op, a, n, tname):
    bits = BITS[tname]
    if n < 0 or n >= bits:
        raise Trap("SHIFT")
    if op == "<<":
        return wrap(a << n, bits)
    if op == ">>":   # arithmetic
        return a >> n
    # ">>>" logical
    return wrap((a & ((1 << bits) - 1)) >> n, bits)


def f32(x):
    """Round a Python float to binary32 (round-half-even), keeping inf/nan."""
    if x != x or x in (math.inf, -math.inf):
        return x
    try:
        return struct.unpack("<f", struct.pack("<f", x))[0]
    except OverflowError:
        return math.inf if x > 0 else -math.inf


def int_to_float(n, bits):
    """Exact single rounding of an integer to a binary float with `bits` significand bits (24 or 53)."""
    if n == 0:
        return 0.0
    sign = -1 if n < 0 else 1
    m = abs(n)
    l = m.bit_length()
    if l > bits:
        sh = l - bits
        q, r = m >> sh, m & ((1 << sh) - 1)
        half = 1 << (sh - 1)
        if r > half or (r == half and (q & 1)):
            q += 1
        m = q << sh
    return sign * float(m)   # m now has <= bits significant bits (or is a power of two): exact in double


def float_fdiv(a, b, single):
    """IEEE division incl. division by zero."""
    if b == 0.0:
        if a != a or a == 0.0:
            return math.nan
        neg = (math.copysign(1.0, a) < 0) != (math.copysign(1.0, b) < 0)
        return -math.inf if neg else math.inf
    try:
        r = a / b
    except OverflowError:
        r = math.inf if (a > 0) == (b > 0) else -math.inf
    return f32(r) if single else r


def float_arith(op, a, b, single):
    try:
        if op == "+":
            r = a + b
        elif op == "-":
            r = a - b
        elif op == "*":
            r = a * b
        else:
            return float_fdiv(a, b, single)
    except OverflowError:
        r = math.inf
    return f32(r) if single else r


def _expand(digits, exp10):
    """digits: string of decimal digits d1d2..dn meaning 0.d1d2..dn * 10^exp10 -> positional notation."""
    digits = digits.rstrip("0") or "0"
    if digits == "0":
        return "0"
    n = len(digits)
    if exp10 <= 0:
        return "0." + "0" * (-exp10) + digits
    if exp10 >= n:
        return digits + "0" * (exp10 - n)
    return digits[:exp10] + "." + digits[exp10:]


def _split_repr(r):
    """'1.234e+20' / '0.001' / '123.0' -> (digits, exp10) with value = 0.digits * 10^exp10"""
    r = r.lower()
    if "e" in r:
        mant, e = r.split("e")
        e = int(e)
    else:
        mant, e = r, 0
    if "." in mant:
        ip, fp = mant.split(".")
    else:
        ip, fp = mant, ""
    digits = (ip + fp)
    exp10 = len(ip) + e
    stripped = digits.lstrip("0")
    exp10 -= len(digits) - len(stripped)
    return stripped, exp10


def _round_sig_half_up(x, n):
    """Exact value of the double x rounded to n significant decimal digits, ties away from zero (what Rust's shortest
    float formatting does when two n-digit candidates are equally close). Returns (digits, exp10)."""
    from decimal import Decimal, ROUND_HALF_UP
    d = Decimal(x)           # exact
    e = d.adjusted()         # exponent of the leading digit
    q = Decimal(1).scaleb(e - n + 1)
    r = d.quantize(q, rounding=ROUND_HALF_UP)
    sign, digits, exp = r.as_tuple()
    ds = "".join(str(c) for c in digits)
    return ds, len(ds) + exp


def _shortest(a, roundtrips):
    """Shortest digit string that round-trips (per `roundtrips`), closest to a, ties half-up."""
    for n in range(1, 18):
        ds, e = _round_sig_half_up(a, n)
        cand = float("0.%se%d" % (ds, e)) if ds.strip("0") else 0.0
        if roundtrips(cand):
            return ds, e
    return _split_repr(repr(a))


def fmt_f64(x):
    """Rust's `{}` for f64: shortest round-trip digits, never an exponent."""
    if x != x:
        return "NaN"
    if x == math.inf:
        return "inf"
    if x == -math.inf:
        return "-inf"
    if x == 0.0:
        return "-0" if math.copysign(1.0, x) < 0 else "0"
    sign = "-" if x < 0 else ""
    a = abs(x)
    d, e = _shortest(a, lambda c: c == a)
    return sign + _expand(d, e)


def fmt_f32(x):
    if x != x:
        return "NaN"
    if x == math.inf:
        return "inf"
    if x == -math.inf:
        return "-inf"
    if x == 0.0:
        return "-0" if math.copysign(1.0, x) < 0 else "0"
    sign = "-" if x < 0 else ""
    a = abs(x)
    d, e = _shortest(a, lambda c: f32(c) == a)
    return sign + _expand(d, e)


def float_to_int(x, tname):
    """round toward zero; out of range / NaN is target specific in the implementation -> outside the subset."""
    if x != x or x in (math.inf, -math.inf):
        raise Undefined("float->int of non-finite value")
    v = int(x)
    lo, hi = RANGE[tname]
    if v < lo or v > hi:
        raise Undefined("float->int out of range")
    return v


class Obj:
    """Class instance: identity object with mutable fields."""
    __slots__ = ("cls", "f")

    def __init__(self, cls, f):
        self.cls, self.f = cls, f


class Arr:
    """Array / Vec: identity object."""
    __slots__ = ("v",)

    def __init__(self, v):
        self.v = v


class Closure:
    __slots__ = ("lam", "env")

    def __init__(self, lam, env):
        self.lam, self.env = lam, env


class Cell:
    __slots__ = ("v",)

    def __init__(self, v):
        self.v = v
