"""Driver for harness/vh-proto (real runtime protocol code under scripted threads): native stress runs with
seeded perturbation + affinity sets, and Miri many-seeds runs. Used by C04, C09 (primitive level), C12."""
import json
import os
import re
import subprocess
import time

from . import build, execu
from .core import BUILD, NCPU

MONITOR_EXIT = {93: "C12", 94: "deadlock", 95: "C10", 96: "C09", 97: "C04"}
_NUM = re.compile(r"\d+")


def norm(msg):
    return _NUM.sub("N", msg.strip())[:160]


def event_key(cmd, j):
    """Distinct-execution key for scenarios without an explicit event-order hash: the vector of monitor counters."""
    return "%s|%s" % (cmd, ",".join(str(j.get(k)) for k in (
        "NOTIFY_SEQ", "TERMINATOR_SLEEPS", "TERMINATOR_WAKEUPS", "TERMINATOR_FASTPATH", "WAITLIST_ENQUEUE", "WAITLIST_WAKEUP",
        "WAITLIST_WAKEUP_EMPTY", "PARK_SLOW", "UNPARK_SLOW_WAITS", "SAFEPOINT_SLOW", "relocations", "GC_COALESCED")))


def ensure_native():
    build.ensure_harness(["vh-proto"])
    return build.harness_bin("vh-proto")


def run_native(exe, jobs, timeout=120):
    """jobs: list of (mode, params dict, affinity set or None). Returns list of result dicts."""
    def one(job):
        mode, params, aff = job
        cmd = [exe, mode] + ["%s=%s" % kv for kv in sorted(params.items())]
        o = execu.run_cmd(cmd, timeout=timeout, affinity=aff)
        res = {"mode": mode, "params": params, "affinity": sorted(aff) if aff else None, "cmd": " ".join(cmd),
               "rc": o.status, "sig": o.sig, "cls": o.cls, "stderr": o.stderr.decode("utf-8", "replace")[-3000:], "json": None,
               "wall": o.wall}
        for line in o.stdout.decode("utf-8", "replace").splitlines():
            if line.startswith("{"):
                try:
                    res["json"] = json.loads(line)
                except ValueError:
                    pass
        return res
    return execu.pmap(one, jobs)


def judge_native(ctx, prop, results, sample_keys):
    """Common verdict logic for native runs. Returns number of conclusive runs."""
    ok = 0
    for r in results:
        mon = None
        for line in r["stderr"].splitlines():
            if line.startswith("VERIF-MONITOR"):
                mon = line[len("VERIF-MONITOR"):].strip()
                break
        if mon is not None:
            ctx.violation("%s:monitor:%s" % (prop.lower(), norm(mon)), "monitor verdict in `%s`: %s" % (r["cmd"], mon),
                          files={"cmd.txt": r["cmd"] + "\n", "stderr.txt": r["stderr"]}, cmd=r["cmd"])
            ctx.observe("viol:" + r["cmd"])
            continue
        if r["cls"] == "timeout":
            ctx.inconc("watchdog expired (no logical verdict): %s" % r["cmd"])
            continue
        if r["cls"] in ("signal", "rust_panic") or (r["cls"] == "ok" and r["rc"] != 0) or r["cls"] in ("trap", "fatal"):
            first = ""
            for line in r["stderr"].splitlines():
                if "panicked at" in line or "assert" in line:
                    first = line
                    break
            ctx.violation("%s:crash:%s:%s" % (prop.lower(), r["cls"], norm(first)),
                          "run ended abnormally (%s rc=%s sig=%s): %s\n%s" % (r["cls"], r["rc"], r["sig"], r["cmd"], r["stderr"][-800:]),
                          files={"cmd.txt": r["cmd"] + "\n", "stderr.txt": r["stderr"]}, cmd=r["cmd"])
            ctx.observe("viol:" + r["cmd"])
            continue
        j = r["json"]
        if j is None:
            ctx.inconc("no result line from %s" % r["cmd"])
            continue
        ok += 1
        ctx.observe(j.get("order_hash") or event_key(r["cmd"], j))
        for k, v in j.items():
            if isinstance(v, int) and k.isupper():
                ctx.count(k, v)
        for k in sample_keys:
            if k in j and isinstance(j[k], int):
                ctx.count(k, j[k])
        ctx.sample({"cmd": r["cmd"], "affinity": r["affinity"], "result": {k: j[k] for k in list(j)[:16]}}, limit=4)
    return ok


def affinity_sets():
    n = os.cpu_count() or 1
    cpus = sorted(os.sched_getaffinity(0))
    return [None, set(cpus[:1]), set(cpus[:2]), set(cpus[:4]) if n >= 4 else set(cpus[:2])]


def miri_run(ctx, prop, mode, params, seeds, tree_borrows=False, preemption="0.1", timeout=1500):
    """One `cargo +nightly miri run` with -Zmiri-many-seeds over the harness. Returns (ok, text)."""
    hdir = build.harness_src()
    env = dict(os.environ)
    env["CARGO_NET_OFFLINE"] = "true"
    env["RUSTFLAGS"] = build.GUARD
    env["CARGO_TARGET_DIR"] = os.path.join(BUILD, "target-miri")
    flags = ["-Zmiri-many-seeds=%d..%d" % seeds, "-Zmiri-preemption-rate=%s" % preemption, "-Zmiri-disable-isolation",
             "-Zmiri-ignore-leaks", "-Zmiri-permissive-provenance"]
    if tree_borrows:
        flags.append("-Zmiri-tree-borrows")
    env["MIRIFLAGS"] = " ".join(flags)
    cmd = ["cargo", "+nightly", "miri", "run", "--offline", "-q", "-p", "vh-proto", "--", mode] + ["%s=%s" % kv for kv in sorted(params.items())]
    t0 = time.time()
    try:
        p = subprocess.run(cmd, cwd=hdir, env=env, capture_output=True, timeout=timeout)
    except subprocess.TimeoutExpired:
        ctx.inconc("miri watchdog expired: %s %s" % (mode, params))
        return None, ""
    text = (p.stdout + p.stderr).decode("utf-8", "replace")
    replay = "cd %s && MIRIFLAGS='%s' RUSTFLAGS='%s' %s" % (hdir, env["MIRIFLAGS"], build.GUARD, " ".join(cmd))
    nres = sum(1 for l in text.splitlines() if l.startswith("{"))
    ctx.count("miri_invocations")
    ctx.count("miri_schedules_completed", nres)
    ctx.count("miri_wall_s", int(time.time() - t0))
    for line in text.splitlines():
        if line.startswith("{"):
            try:
                j = json.loads(line)
                ctx.observe("miri:" + (j.get("order_hash") or event_key("%s %s" % (mode, sorted(params.items())), j)))
                for k, v in j.items():
                    if isinstance(v, int) and k.isupper():
                        ctx.count("miri_" + k, v)
            except ValueError:
                pass
    bad = None
    m = re.search(r"VERIF-MONITOR (.*)", text)
    if m:
        bad = ("%s:monitor:%s" % (prop.lower(), norm(m.group(1))), "monitor verdict under Miri: " + m.group(1))
    else:
        m = re.search(r"error: (Undefined Behavior: [^\n]*|deadlock[^\n]*|the evaluated program deadlocked[^\n]*|[^\n]*[Dd]ata race[^\n]*|abnormal termination[^\n]*|unsupported operation[^\n]*)", text)
        if m:
            msg = m.group(1)
            loc = re.search(r"-->\s*([^\s:]+:\d+)", text[m.end():m.end() + 600])
            where = loc.group(1) if loc else "?"
            where = re.sub(r"^.*?/(dora-[^/]+/)", r"\1", where)
            if msg.startswith("unsupported operation"):
                ctx.inconc("miri cannot execute this scenario: %s at %s" % (msg[:200], where))
                return None, text
            bad = ("%s:miri:%s@%s" % (prop.lower(), norm(msg.split(":")[0] + ":" + msg.split(":", 1)[-1][:80]), where),
                   "Miri reported: %s (at %s)" % (msg, where))
        elif p.returncode != 0:
            if "error: could not compile" in text or "error[E" in text:
                raise build.BuildError("miri build failed:\n" + text[-3000:])
            bad = ("%s:miri:nonzero-exit" % prop.lower(), "miri run ended with status %d without a recognised diagnostic" % p.returncode)
    if bad:
        ctx.violation(bad[0], bad[1] + "\nreplay: " + replay, files={"miri_output.txt": text[-20000:], "cmd.txt": replay + "\n"}, cmd=replay)
        return False, text
    return True, text


def miri_batch(ctx, prop, jobs, workers=4):
    """jobs: (mode, params, (lo, hi), tree_borrows, preemption). The first job runs alone (it builds), the rest 4 at a time;
    each invocation spreads its seeds over the cores itself."""
    if not jobs:
        return
    def one(j):
        return miri_run(ctx, prop, j[0], j[1], j[2], tree_borrows=j[3], preemption=j[4])
    one(jobs[0])
    execu.pmap(one, jobs[1:], workers=workers)


def ensure_tsan(ctx):
    """ThreadSanitizer build of vh-proto (nightly, -Zbuild-std). Returns the binary or None (inconclusive)."""
    hdir = build.harness_src()
    env = dict(os.environ)
    env["CARGO_NET_OFFLINE"] = "true"
    env["RUSTFLAGS"] = build.GUARD + " -Zsanitizer=thread"
    env["CARGO_TARGET_DIR"] = os.path.join(BUILD, "target-tsan")
    cmd = ["cargo", "+nightly", "build", "--offline", "-Zbuild-std", "--target", "x86_64-unknown-linux-gnu", "--release", "-p", "vh-proto"]
    try:
        p = subprocess.run(cmd, cwd=hdir, env=env, capture_output=True, timeout=5400)
    except subprocess.TimeoutExpired:
        ctx.inconc("ThreadSanitizer build watchdog expired")
        return None
    exe = os.path.join(BUILD, "target-tsan", "x86_64-unknown-linux-gnu", "release", "vh-proto")
    if p.returncode != 0 or not os.path.exists(exe):
        ctx.inconc("ThreadSanitizer build failed: " + p.stderr.decode("utf-8", "replace")[-300:])
        return None
    return exe


def run_tsan(ctx, prop, jobs, timeout=600):
    """Runs native scenarios under ThreadSanitizer; a data-race report is a violation keyed by the racing frames."""
    exe = ensure_tsan(ctx)
    if exe is None:
        return

    def one(job):
        mode, params = job
        cmd = [exe, mode] + ["%s=%s" % kv for kv in sorted(params.items())]
        return job, execu.run_cmd(cmd, timeout=timeout, env={"TSAN_OPTIONS": "halt_on_error=0 exitcode=66 second_deadlock_stack=1"}), " ".join(cmd)

    for (mode, params), o, cmd in execu.pmap(one, jobs, workers=max(2, NCPU // 4)):
        err = o.stderr.decode("utf-8", "replace")
        if o.cls == "timeout":
            ctx.inconc("TSan run watchdog: " + cmd)
            continue
        ctx.count("tsan_runs")
        ctx.observe("tsan:" + cmd)
        if "WARNING: ThreadSanitizer" in err:
            kind = re.search(r"WARNING: ThreadSanitizer: ([^\n(]+)", err).group(1).strip()
            frames = re.findall(r"#0 ([^\s]+) ", err)[:2]
            ctx.violation("%s:tsan:%s:%s" % (prop.lower(), kind, "|".join(re.sub(r"::h[0-9a-f]{16}", "", f) for f in frames)),
                          "ThreadSanitizer reported `%s` in `%s`\n%s" % (kind, cmd, err[:2500]), files={"tsan.txt": err[-20000:], "cmd.txt": cmd + "\n"}, cmd=cmd)
        elif "VERIF-MONITOR" in err:
            m = re.search(r"VERIF-MONITOR (.*)", err)
            ctx.violation("%s:monitor:%s" % (prop.lower(), norm(m.group(1))), "monitor verdict under TSan in `%s`: %s" % (cmd, m.group(1)), files={"stderr.txt": err[-5000:]}, cmd=cmd)
        elif not (o.cls == "ok" and o.status == 0):
            ctx.inconc("TSan run ended %s: %s" % (o.key(), cmd))
