"""Compile-and-run plumbing for generated batch programs (argv-dispatched cases)."""
import os

from . import build, execu
from .core import scratch


BACKENDS = ("cannon", "boots")


class Built:
    def __init__(self, name, src_path, exes, errors):
        self.name, self.src_path, self.exes, self.errors = name, src_path, exes, errors


def compile_all(dirname, programs, backends=BACKENDS, gcs=(None,), flavour="rel", extra=(), timeout=300):
    """programs: list of (name, source text). Returns {name: Built}; exes keyed by (backend, gc)."""
    d = scratch(dirname)
    tmpd = os.path.join(d, "tmp")
    os.makedirs(tmpd, exist_ok=True)
    jobs = []
    for name, src in programs:
        p = os.path.join(d, name + ".dora")
        with open(p, "w") as f:
            f.write(src)
        for be in backends:
            for gc in gcs:
                jobs.append((name, p, be, gc))

    def one(j):
        name, p, be, gc = j
        out = os.path.join(d, "%s.%s.%s" % (name, be, gc or "default"))
        r = execu.compile_dora(p, out, backend=be, gc=gc, flavour=flavour, extra=extra, timeout=timeout, env={"TMPDIR": tmpd})
        return j, out, r

    res = {}
    for (name, p, be, gc), out, r in execu.pmap(one, jobs):
        b = res.setdefault(name, Built(name, p, {}, {}))
        if r.ok and os.path.exists(out):
            b.exes[(be, gc)] = out
        else:
            b.errors[(be, gc)] = r
    return res, d


def run_cases(jobs, timeout=60):
    """jobs: list of (tag, exe, argv list, env dict or None, affinity or None) -> list of (tag, Outcome)"""
    def one(j):
        tag, exe, argv, env, aff = j
        return tag, execu.run_cmd([exe] + [str(a) for a in argv], timeout=timeout, env=env, affinity=aff)
    return execu.pmap(one, jobs)


def compile_error_text(r):
    t = (r.stderr or b"").decode("utf-8", "replace")
    lines = [l for l in t.splitlines() if "ld:" not in l and "NOTE: This behaviour" not in l]
    return "\n".join(lines)[-3000:]
