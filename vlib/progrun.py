"""Compile-and-run plumbing for generated batch programs (argv-dispatched cases)."""
import os

from . import build, execu
from .core import scratch


BACKENDS = ("cannon", "boots")


class Built:
    def __init__(self, name, src_path, exes, errors):
        self.name, self.src_path, self.exes, self.errors = name, src_path, exes, errors


def compile_all(dirname, programs, backends=BACKENDS, gcs=(None,), flavour="rel", extra=(), timeout=300):
    """programs: list of (name, source text). Returns {name: Built}; exes keyed by (backend, gc)."""
    d = scratch(dirname)
    tmpd = os.path.join(d, "tmp")
    os.makedirs(tmpd, exist_ok=True)
    jobs = []
    for name, src in programs:
        p = os.path.join(d, name + ".dora")
        with open(p, "w") as f:
            f.write(src)
        for be in backends:
            for gc in gcs:
                jobs.append((name, p, be, gc))

    def one(j):
        name, p, be, gc = j
        out = os.path.join(d, "%s.%s.%s" % (name, be, gc or "default"))
        r = execu.compile_dora(p, out, backend=be, gc=gc, flavour=flavour, extra=extra, timeout=timeout, env={"TMPDIR": tmpd})
        return j, out, r

    res = {}
    for (name, p, be, gc), out, r in execu.pmap(one, jobs):
        b = res.setdefault(name, Built(name, p, {}, {}))
        if r.ok and os.path.exists(out):
            b.exes[(be, gc)] = out
        else:
            b.errors[(be, gc)] = r
    return res, d


def run_cases(jobs, timeout=60):
    """jobs: list of (tag, exe, argv list, env dict or None, affinity or None) -> list of (tag, Outcome)"""
    def one(j):
        tag, exe, argv, env, aff = j
        return tag, execu.run_cmd([exe] + [str(a) for a in argv], timeout=timeout, env=env, affinity=aff)
    return execu.pmap(one, jobs)


def compile_error_text(r):
    t = (r.stderr or b"").decode("utf-8", "replace")
    lines = [l for l in t.splitlines() if "ld:" not in l and "NOTE: This behaviour" not in l]
    return "\n".join(lines)[-3000:]


_CRASH_HEADS = ("fatal error:", "assert failed", "unreachable code executed", "division by 0", "array index out of bounds", "nil check failed",
                "cast failed", "out of memory", "stack overflow", "illegal state", "overflow", "shift amount out of bounds")


def crash_signature(text):
    """Stable signature of a crash of the (Dora-implemented) optimizing compiler or of a Rust component: the message line plus
    the first three frames' function names, digits abstracted. Returns None if the text holds no crash."""
    import re
    lines = text.splitlines()
    for i, l in enumerate(lines):
        t = l.strip()
        if "panicked at" in t:
            m = re.search(r"panicked at ([^\s:]+:\d+)", t)
            where = re.sub(r"^.*?/(dora-[^/]+/)", r"\1", m.group(1)) if m else "?"
            msg = lines[i + 1].strip() if i + 1 < len(lines) else ""
            return "panic@%s:%s" % (where, re.sub(r"\d+", "N", msg)[:60])
        if t.startswith(_CRASH_HEADS) and not l.startswith(" "):
            frames = []
            for f in lines[i + 1:i + 12]:
                if f.startswith("    ") and "(" in f:
                    frames.append(re.sub(r"\[[^\]]*\]", "[..]", f.strip().split(" (")[0]))
                elif frames:
                    break
            frames = [f for f in frames if not f.startswith("std::")][:3]
            return "%s@%s" % (re.sub(r"\d+", "N", t)[:60], ">".join(frames))
    return None
