"""Shared plumbing for every check: paths, seeds, evidence, verdicts, known findings.

Exit protocol (DESIGN.md 4.1): 0 held (maybe KNOWN-FINDING lines), 1 + VIOLATION line,
2 harness error / nothing observed (inconclusive, never folded into 0 or 1).
"""
import hashlib
import json
import os
import random
import shutil
import sys
import time

VERIF = os.path.dirname(os.path.dirname(os.path.abspath(__file__)))
REPO = os.path.realpath(os.environ.get("VERIF_REPO", "/repo"))
ALT = REPO != "/repo"   # self-test mode: the checks run against a (mutated) copy of the repository
# A non-default repository gets its own build area (own target dirs, own pkgs symlink, own harness copy), so
# that mutant runs never disturb the artifacts built from /repo.
BUILD = os.path.join(VERIF, ".build") if not ALT else os.path.join(
    VERIF, ".build", "alt-" + hashlib.sha256(REPO.encode()).hexdigest()[:10])
EVIDENCE = os.path.join(VERIF, "evidence") if not ALT else os.path.join(BUILD, "evidence")
REPLAY = os.path.join(VERIF, "replay") if not ALT else os.path.join(BUILD, "replay")
KNOWN = os.path.join(VERIF, "known_findings.json")
NCPU = int(os.environ.get("VERIF_JOBS", str(os.cpu_count() or 4)))


def sha(*parts):
    h = hashlib.sha256()
    for p in parts:
        if isinstance(p, str):
            p = p.encode("utf-8", "surrogatepass")
        elif not isinstance(p, (bytes, bytearray)):
            p = repr(p).encode()
        h.update(p)
        h.update(b"\0")
    return h.hexdigest()


def derive_rng(prop, seed, stream, index=0):
    """Every random choice derives from sha256(property, VERIF_SEED, stream, index)."""
    return random.Random(int(sha(prop, seed, stream, index)[:16], 16))


class Ctx:
    """One check run. Collects observations, violations and writes the evidence file."""

    def __init__(self, prop, tier, seed):
        self.prop = prop
        self.tier = tier
        self.seed = seed
        self.t0 = time.time()
        self.evaluations = 0
        self.distinct = set()
        self.samples = []
        self.counters = {}
        self.inconclusive = []
        self.violations = []      # (key, what, replay_path)
        self.known_hits = {}      # key -> (what, count)
        self.assumptions = []
        self.rule = ""
        self.extra = {}
        self.min_evaluations = 1
        self.min_distinct = 2
        self.required_counters = []  # counters that must be > 0, else inconclusive
        self._known = load_known(prop)
        self.replay_dir = os.path.join(REPLAY, prop)
        self.replay_only = None

    # --- seeds -----------------------------------------------------------------------
    def rng(self, stream, index=0):
        return derive_rng(self.prop, self.seed, stream, index)

    def quick(self):
        return self.tier == "quick"

    def pick(self, quick, thorough):
        return quick if self.tier == "quick" else thorough

    # --- observations ----------------------------------------------------------------
    def count(self, name, n=1):
        self.counters[name] = self.counters.get(name, 0) + n

    def observe(self, distinct_key=None, n=1):
        self.evaluations += n
        if distinct_key is not None:
            self.distinct.add(distinct_key if isinstance(distinct_key, (str, int)) else sha(distinct_key))

    def sample(self, obj, limit=6):
        if len(self.samples) < limit:
            self.samples.append(obj)

    def inconc(self, what):
        if len(self.inconclusive) < 200:
            self.inconclusive.append(what)
        self.count("inconclusive")

    # --- verdicts --------------------------------------------------------------------
    def violation(self, key, what, files=None, cmd=None):
        """Report a violation with exact signature `key`.

        Listed known findings print KNOWN-FINDING once; everything else is a VIOLATION with
        a replay directory holding the witness."""
        if key in self._known:
            hit = self.known_hits.get(key)
            if hit is None:
                self.known_hits[key] = [self._known[key], 1]
            else:
                hit[1] += 1
            return False
        for (k, _, _) in self.violations:
            if k == key:
                self.count("violations_duplicate_key")
                return True
        idx = len(self.violations)
        d = os.path.join(self.replay_dir, "s%d_%s_%02d_%s" % (self.seed, self.tier, idx, sha(key)[:10]))
        os.makedirs(d, exist_ok=True)
        meta = {"property": self.prop, "key": key, "what": what, "seed": self.seed, "tier": self.tier}
        if cmd:
            meta["cmd"] = cmd
        for name, content in (files or {}).items():
            mode = "wb" if isinstance(content, (bytes, bytearray)) else "w"
            with open(os.path.join(d, name), mode) as f:
                f.write(content)
        with open(os.path.join(d, "meta.json"), "w") as f:
            json.dump(meta, f, indent=1)
        self.violations.append((key, what, d))
        return True

    def finish(self):
        wall = time.time() - self.t0
        cov = {
            "evaluations": self.evaluations,
            "distinct_nontrivial": len(self.distinct),
            "rule": self.rule,
            "samples": self.samples,
            "counters": self.counters,
            "inconclusive": self.inconclusive[:50],
            "inconclusive_count": len(self.inconclusive),
            "known_findings_hit": {k: {"what": v[0], "times": v[1]} for k, v in self.known_hits.items()},
        }
        cov.update(self.extra)
        ev = {
            "property_id": self.prop, "tier": self.tier, "seed": self.seed,
            "level": "exploration", "coverage": cov, "assumptions": self.assumptions,
            "wall_s": round(wall, 2), "violations": len(self.violations),
        }
        status = 0
        missing = [c for c in self.required_counters if self.counters.get(c, 0) <= 0]
        if self.violations:
            status = 1
            ev["verdict"] = "violated"
        elif self.evaluations < self.min_evaluations or len(self.distinct) < self.min_distinct or missing:
            status = 2
            ev["verdict"] = "inconclusive"
            cov["inconclusive_reason"] = "too few observations: evaluations=%d distinct=%d missing_counters=%s" % (
                self.evaluations, len(self.distinct), missing)
        else:
            ev["verdict"] = "held_on_observed"
        os.makedirs(EVIDENCE, exist_ok=True)
        if self.replay_only is None:
            tmp = os.path.join(EVIDENCE, "." + self.prop + ".tmp")
            with open(tmp, "w") as f:
                json.dump(ev, f, indent=1, default=str)
            os.replace(tmp, os.path.join(EVIDENCE, self.prop + ".json"))
        for k, (what, n) in sorted(self.known_hits.items()):
            print("KNOWN-FINDING: property=%s %s [key=%s, seen %d times]" % (self.prop, what, k, n))
        for (k, what, d) in self.violations:
            print("VIOLATION property=%s replay=%s" % (self.prop, d))
            print("  key=%s\n  %s" % (k, what.replace("\n", "\n  ")[:2000]))
        print("%s %s seed=%d: verdict=%s evaluations=%d distinct=%d violations=%d known=%d inconclusive=%d wall=%.1fs" % (
            self.prop, self.tier, self.seed, ev["verdict"], self.evaluations, len(self.distinct),
            len(self.violations), len(self.known_hits), len(self.inconclusive), wall))
        if status == 2:
            print("INCONCLUSIVE: " + cov.get("inconclusive_reason", ""))
        sys.stdout.flush()
        return status


def load_known(prop):
    """known_findings.json: [{property, key, status: known|fixed, what, commit?}].
    Only status == known suppresses; fixed entries suppress nothing."""
    out = {}
    try:
        with open(KNOWN) as f:
            for e in json.load(f)["findings"]:
                ep = e["property"]
                # a defect at one site can violate several properties (a parser panic breaks C06, C16, C17 and C20):
                # "property" may be a list of ids
                if (ep == prop or (isinstance(ep, list) and prop in ep)) and e.get("status") == "known":
                    out[e["key"]] = e["what"]
    except FileNotFoundError:
        pass
    return out


def scratch(name):
    """Scratch directory under /verif/.build/scratch (never /tmp: registered commands must
    not depend on /tmp content). Emptied on creation."""
    d = os.path.join(BUILD, "scratch", name)
    shutil.rmtree(d, ignore_errors=True)
    os.makedirs(d, exist_ok=True)
    return d
