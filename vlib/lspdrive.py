"""Driver for the real `dora-language-server` binary over stdio (JSON-RPC, Content-Length framing) and the
document model the C20 oracle checks the server's answers against.

Facts about the server this relies on (dora-language-server/src/server.rs, pinned tree):
* one worker thread executes compile jobs (didOpen / didSave / debounced didChange) and the
  documentSymbol / formatting / workspace-symbol requests strictly in the order they were received, and
  every result travels to the main loop through one FIFO channel. Hence when the response to a request
  arrives, the diagnostics of every compile job started before that request have already been written.
  The driver uses a cheap probe request as that barrier -- never a timer.
* there is no `shutdown` handler; `exit` ends the main loop, closing stdin ends the reader thread.
* `find_project_for_file` asserts that an opened path exists on disk, so every text is also written to a file.
* release builds are panic=abort: a panic anywhere kills the process (SIGABRT, stderr `panicked at`); a
  build with unwinding panics would instead lose exactly the response of the request that panicked, which the
  driver detects when a *later* request is answered first.
"""
import json
import os
import queue
import re
import subprocess
import threading

# ---------------------------------------------------------------------------------------------------
# Document model (independent of the server): lines end at \n, \r\n or a lone \r (LSP 3.17); columns are
# UTF-16 code units.


def u16len(s):
    return sum(2 if ord(c) > 0xFFFF else 1 for c in s)


class Doc:
    def __init__(self, text):
        self.text = text
        self.lines = []   # (start index in text [code points], content string, terminator string)
        i, start, n = 0, 0, len(text)
        while i < n:
            c = text[i]
            if c == "\n":
                self.lines.append((start, text[start:i], "\n"))
                i += 1
                start = i
            elif c == "\r":
                if i + 1 < n and text[i + 1] == "\n":
                    self.lines.append((start, text[start:i], "\r\n"))
                    i += 2
                else:
                    self.lines.append((start, text[start:i], "\r"))
                    i += 1
                start = i
            else:
                i += 1
        self.lines.append((start, text[start:], ""))
        self._u16 = {}

    def line_u16(self, line):
        v = self._u16.get(line)
        if v is None:
            v = self._u16[line] = u16len(self.lines[line][1])
        return v

    def index_of(self, pos):
        """Code-point index of an LSP position, or (None, reason) when the position is not a position of this
        document: line past the last line, column past the end of the line content, or inside a surrogate pair."""
        line, ch = pos.get("line"), pos.get("character")
        if not isinstance(line, int) or not isinstance(ch, int) or line < 0 or ch < 0:
            return None, "malformed"
        if line >= len(self.lines):
            return None, "line-past-end"
        start, content, term = self.lines[line]
        if ch > self.line_u16(line):
            if term == "\r\n" and ch == self.line_u16(line) + 1:
                return None, "between-cr-and-lf"
            return None, "column-past-end-of-line"
        u = 0
        for k, c in enumerate(content):
            if u == ch:
                return start + k, None
            u += 2 if ord(c) > 0xFFFF else 1
            if u > ch:
                return None, "inside-surrogate-pair"
        return start + len(content), None


SYMBOL_KIND = {1: "File", 2: "Module", 3: "Namespace", 4: "Package", 5: "Class", 6: "Method", 7: "Property", 8: "Field",
               9: "Constructor", 10: "Enum", 11: "Interface", 12: "Function", 13: "Variable", 14: "Constant",
               15: "String", 16: "Number", 17: "Boolean", 18: "Array", 19: "Object", 20: "Key", 21: "Null",
               22: "EnumMember", 23: "Struct", 24: "Event", 25: "Operator", 26: "TypeParameter"}
# kinds whose selection range is exactly the name token (document_symbols.rs compute_element_propertiees)
NAME_IS_SELECTION = {"Class", "Struct", "Interface", "Enum", "Function", "Variable", "Constant", "Module", "EnumMember"}


def _le(a, b):
    return (a["line"], a["character"]) <= (b["line"], b["character"])


def _inside(r, outer):
    return _le(outer["start"], r["start"]) and _le(r["end"], outer["end"])


def _is_utf8_byte_column(doc, pos):
    """The invalid position would be valid if `character` were a UTF-8 byte column of that line."""
    _start, content, term = doc.lines[pos["line"]]
    b = (content + term).encode("utf-8")
    ch = pos["character"]
    if ch > len(b) or len(b) == len(content + term):
        return False
    return ch == len(b) or (b[ch] & 0xC0) != 0x80


def check_range(doc, rng, what, out, keybase, byte_column_hint=False):
    """Range well-formed, both ends are positions of the document, start <= end. Returns (i0, i1) or None."""
    if not isinstance(rng, dict) or "start" not in rng or "end" not in rng:
        out.append((keybase + ":malformed", "%s: malformed range %r" % (what, rng)))
        return None
    idx = []
    for side in ("start", "end"):
        i, why = doc.index_of(rng[side])
        if i is None:
            if byte_column_hint and why not in ("malformed", "line-past-end") and _is_utf8_byte_column(doc, rng[side]):
                why = "utf8-byte-column"
            out.append(("%s:%s" % (keybase, why),
                        "%s: %s position %s is not inside the document (%d lines%s)" % (
                            what, side, json.dumps(rng[side]), len(doc.lines),
                            "" if why in ("line-past-end", "malformed") else
                            ", line %d has %d UTF-16 units%s" % (
                                rng[side]["line"], doc.line_u16(rng[side]["line"]),
                                "; the column is a valid UTF-8 byte column of that line" if why == "utf8-byte-column" else ""))))
            return None
        idx.append(i)
    if not _le(rng["start"], rng["end"]):
        out.append((keybase + ":inverted", "%s: range start %s after end %s" % (what, rng["start"], rng["end"])))
        return None
    return idx[0], idx[1]


def check_symbol_tree(doc, symbols, out, stats):
    """documentSymbol answer (nested DocumentSymbol[]) against the document."""
    stack = [(s, None) for s in reversed(symbols or [])]
    while stack:
        sym, parent = stack.pop()
        stats["symbols"] = stats.get("symbols", 0) + 1
        kind = SYMBOL_KIND.get(sym.get("kind"), str(sym.get("kind")))
        stats["kind:" + kind] = stats.get("kind:" + kind, 0) + 1
        name = sym.get("name", "")
        what = "symbol %r (%s)" % (name[:60], kind)
        r = check_range(doc, sym.get("range"), what + " range", out, "c20:symbol-range-outside-document")
        s = check_range(doc, sym.get("selectionRange"), what + " selectionRange", out,
                        "c20:selection-range-outside-document")
        if r and s:
            if not _inside(sym["selectionRange"], sym["range"]):
                out.append(("c20:selection-outside-range:%s" % kind,
                            "%s: selectionRange %s is not inside range %s" % (
                                what, json.dumps(sym["selectionRange"]), json.dumps(sym["range"]))))
            sel = doc.text[s[0]:s[1]]
            ok = True
            if kind in NAME_IS_SELECTION:
                ok = sel == name
            elif kind == "Field":
                # the selection of a field is the whole field node; nameless fields of erroneous text are
                # reported as "<missing name>"
                ok = name in sel or name == "<missing name>"
            elif kind == "Namespace":
                ok = name.endswith(sel)
            if not ok:
                out.append(("c20:selection-text-mismatch:%s" % kind,
                            "%s: the document text at its selectionRange %s is %r" % (
                                what, json.dumps(sym["selectionRange"]), sel[:80])))
            stats["selection_text_compared"] = stats.get("selection_text_compared", 0) + 1
        if r and parent is not None and parent[1]:
            stats["child_parent_pairs"] = stats.get("child_parent_pairs", 0) + 1
            if not _inside(sym["range"], parent[0]["range"]):
                pk = SYMBOL_KIND.get(parent[0].get("kind"), "?")
                out.append(("c20:child-outside-parent:%s-%s" % (pk, kind),
                            "%s: range %s is not inside the range %s of its parent %r (%s)" % (
                                what, json.dumps(sym["range"]), json.dumps(parent[0]["range"]),
                                parent[0].get("name", "")[:60], pk)))
        for c in reversed(sym.get("children") or []):
            stack.append((c, (sym, bool(r))))


# ---------------------------------------------------------------------------------------------------
# Panic text on stderr -> key  (same message classes as harness/vhc::msg_class)


def msg_class(msg):
    out, in_tick, last_digit = [], False, False
    for c in msg[:160]:
        if c in "`\"'":
            in_tick = not in_tick
            out.append(c)
            continue
        if in_tick:
            continue
        if c.isdigit() and c.isascii():
            if not last_digit:
                out.append("N")
            last_digit = True
        else:
            last_digit = False
            out.append(" " if c == "\n" else c)
    return "".join(out)


# the message is the first line after the location (later lines interleave with the main thread's log)
_PANIC = re.compile(r"panicked at ([^\n]*?):(\d+):\d+:\n([^\n]*)")


def panic_key(stderr_text, repo_prefixes=()):
    """(key, human text) of the last panic reported on stderr, or None."""
    m = None
    for m in _PANIC.finditer(stderr_text):
        pass
    if m is None:
        if "has overflowed its stack" in stderr_text:
            return "stack-overflow", "stack overflow"
        return None
    f = m.group(1)
    for p in repo_prefixes:
        if f.startswith(p):
            f = f[len(p):]
    msg = m.group(3).strip()
    return "panic@%s:%s:%s" % (f, m.group(2), msg_class(msg)), "panicked at %s:%s: %s" % (f, m.group(2), msg[:300])


# ---------------------------------------------------------------------------------------------------


class ServerDied(Exception):
    def __init__(self, rc, stderr_tail):
        Exception.__init__(self, "server died rc=%s" % rc)
        self.rc = rc
        self.stderr = stderr_tail


class Watchdog(Exception):
    pass


class LspServer:
    """One server process. `notifications` collects (method, params) of everything that is not a response."""

    def __init__(self, exe, stderr_path, watchdog=120.0, env=None):
        self.stderr_path = stderr_path
        self.errf = open(stderr_path, "wb")
        self.p = subprocess.Popen([exe], stdin=subprocess.PIPE, stdout=subprocess.PIPE, stderr=self.errf, env=env)
        self.q = queue.Queue()
        self.next_id = 1
        self.pending = {}        # id -> method, in send order
        self.responses = {}      # id -> message
        self.notifications = []
        self.watchdog = watchdog
        self.sent = 0
        self.t = threading.Thread(target=self._reader, daemon=True)
        self.t.start()

    def _reader(self):
        f = self.p.stdout
        try:
            while True:
                n = None
                while True:
                    line = f.readline()
                    if not line:
                        self.q.put(None)
                        return
                    line = line.strip()
                    if not line:
                        break
                    if line.lower().startswith(b"content-length:"):
                        n = int(line.split(b":")[1])
                body = f.read(n or 0)
                if n is None or len(body) < n:
                    self.q.put(None)
                    return
                self.q.put(json.loads(body.decode("utf-8")))
        except Exception as e:  # noqa: BLE001 - a broken frame ends the session
            self.q.put(("reader-error", repr(e)))
            self.q.put(None)

    def send(self, obj):
        b = json.dumps(obj).encode()
        try:
            self.p.stdin.write(b"Content-Length: %d\r\n\r\n" % len(b) + b)
            self.p.stdin.flush()
        except (BrokenPipeError, OSError):
            pass    # the death is noticed by the reader
        self.sent += 1

    def notify(self, method, params):
        self.send({"jsonrpc": "2.0", "method": method, "params": params})

    def request(self, method, params):
        i = self.next_id
        self.next_id += 1
        self.pending[i] = method
        self.send({"jsonrpc": "2.0", "id": i, "method": method, "params": params})
        return i

    def stderr_text(self, tail=20000):
        try:
            self.errf.flush()
            with open(self.stderr_path, "rb") as f:
                f.seek(0, 2)
                size = f.tell()
                f.seek(max(0, size - tail))
                return f.read().decode("utf-8", "replace")
        except OSError:
            return ""

    def wait(self, rid):
        """Block until the response `rid` arrived. Returns (response, lost) where lost = ids of earlier
        requests that can no longer be answered (a later one was answered first)."""
        while rid not in self.responses:
            try:
                m = self.q.get(timeout=self.watchdog)
            except queue.Empty:
                raise Watchdog()
            if m is None:
                try:
                    rc = self.p.wait(timeout=30)
                except subprocess.TimeoutExpired:
                    rc = None
                raise ServerDied(rc, self.stderr_text())
            if isinstance(m, tuple):
                continue
            if "id" in m and "method" not in m:
                self.responses[m["id"]] = m
            elif "method" in m:
                self.notifications.append((m["method"], m.get("params")))
        lost = [i for i in self.pending if i < rid and i not in self.responses]
        return self.responses[rid], lost

    def take_notifications(self):
        n, self.notifications = self.notifications, []
        return n

    def close(self, grace=0.3):
        """exit notification + closed stdin; returns the exit status (None if it had to be killed).
        (On the pinned tree the process never exits by itself: run_server joins the io threads while it still owns
        the connection, so the writer thread never sees its channel close. Not part of C20; counted only.)"""
        self.notify("exit", None)
        try:
            self.p.stdin.close()
        except OSError:
            pass
        try:
            rc = self.p.wait(timeout=grace)
        except subprocess.TimeoutExpired:
            self.p.kill()
            self.p.wait()
            rc = None
        self.errf.close()
        return rc

    def kill(self):
        try:
            self.p.kill()
            self.p.wait()
        except OSError:
            pass
        try:
            self.errf.close()
        except OSError:
            pass


def file_uri(path):
    from urllib.parse import quote
    return "file://" + quote(path)


PACKAGE_TOML = '[package]\nname = "%s"\nmain = "src/main.dora"\npackages = []\n'


def make_project(session_dir, name, text):
    """One project per text: <session>/<name>/dora-package.toml + src/main.dora. Returns the main file path."""
    d = os.path.join(session_dir, name)
    os.makedirs(os.path.join(d, "src"), exist_ok=True)
    with open(os.path.join(d, "dora-package.toml"), "w") as f:
        f.write(PACKAGE_TOML % name)
    main = os.path.join(d, "src", "main.dora")
    with open(main, "w", encoding="utf-8", newline="") as f:
        f.write(text)
    return main
