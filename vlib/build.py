"""Build manager: rebuilds everything a check needs from /repo's *current working tree*.

cargo's incrementality makes the rebuild cheap; derived artifacts (boots bootstrap) are keyed by
a content stamp of the working tree. One flock serialises builders.
"""
import fcntl
import hashlib
import os
import subprocess
import sys
import time

import re
import shutil

from .core import ALT, BUILD, REPO, VERIF

GUARD = "--cfg dinfuehr_dora_verif"
ENV_BASE = {"CARGO_NET_OFFLINE": "true", "CARGO_TERM_COLOR": "never"}


class BuildError(Exception):
    pass


def _env(extra=None, rustflags=GUARD):
    e = dict(os.environ)
    e.update(ENV_BASE)
    e["RUSTFLAGS"] = rustflags
    if extra:
        e.update(extra)
    return e


def _run(cmd, cwd, env, log, timeout=3600):
    with open(log, "ab") as lf:
        lf.write(("\n$ %s (cwd=%s)\n" % (" ".join(cmd), cwd)).encode())
        lf.flush()
        p = subprocess.run(cmd, cwd=cwd, env=env, stdout=lf, stderr=subprocess.STDOUT, timeout=timeout)
    if p.returncode != 0:
        tail = subprocess.run(["tail", "-n", "40", log], capture_output=True, text=True).stdout
        raise BuildError("build step failed: %s\n%s" % (" ".join(cmd), tail))


class Lock:
    def __init__(self, name="build"):
        os.makedirs(BUILD, exist_ok=True)
        self.path = os.path.join(BUILD, name + ".lock")

    def __enter__(self):
        self.f = open(self.path, "w")
        fcntl.flock(self.f, fcntl.LOCK_EX)
        return self

    def __exit__(self, *a):
        fcntl.flock(self.f, fcntl.LOCK_UN)
        self.f.close()


def tree_stamp(repo=REPO, subdirs=None):
    """Hash of HEAD + diff + untracked files (content) of the working tree."""
    h = hashlib.sha256()
    def g(*args):
        return subprocess.run(["git", "-C", repo] + list(args), capture_output=True).stdout
    h.update(g("rev-parse", "HEAD"))
    h.update(g("diff", "HEAD", "--", *(subdirs or ["."])))
    for f in g("ls-files", "--others", "--exclude-standard", "--", *(subdirs or ["."])).decode().split("\n"):
        if f:
            h.update(f.encode())
            try:
                with open(os.path.join(repo, f), "rb") as fh:
                    h.update(fh.read())
            except OSError:
                pass
    return h.hexdigest()


def target_dir(flavour):
    return os.path.join(BUILD, "target-" + flavour)


def bindir(flavour="rel"):
    return os.path.join(target_dir(flavour), "release")


def dora(flavour="rel"):
    return os.path.join(bindir(flavour), "dora")


FLAVOUR_ARGS = {
    "rel": [],
    # release + debug assertions: copy collector / young from-space PROT_NONE, all debug_assert live
    "relda": ["--config", "profile.release.debug-assertions=true"],
}


def _alt_prepare():
    """Self-test mode (VERIF_REPO set): binaries must find the *mutated* pkgs directory."""
    if ALT:
        os.makedirs(BUILD, exist_ok=True)
        link = os.path.join(BUILD, "pkgs")
        if os.path.realpath(link) != os.path.join(REPO, "pkgs"):
            if os.path.islink(link):
                os.unlink(link)
            os.symlink(os.path.join(REPO, "pkgs"), link)


def harness_src():
    """The harness workspace; in self-test mode a copy whose path dependencies point at VERIF_REPO."""
    src = os.path.join(VERIF, "harness")
    if not ALT:
        return src
    dst = os.path.join(BUILD, "harness-src")
    for root, dirs, files in os.walk(src):
        dirs[:] = [d for d in dirs if d != "target"]
        rel = os.path.relpath(root, src)
        os.makedirs(os.path.join(dst, rel), exist_ok=True)
        for f in files:
            a, b = os.path.join(root, f), os.path.join(dst, rel, f)
            data = open(a, "rb").read()
            if f.endswith((".toml", ".rs")):
                data = data.replace(b'"/repo/', ('"%s/' % REPO).encode())
            if not os.path.exists(b) or open(b, "rb").read() != data:
                with open(b, "wb") as fh:
                    fh.write(data)
    return dst


def ensure_toolchain(flavour="rel", repo=REPO, need_boots=True, quiet=False):
    """cargo build (dora, runtime, startup, cannon compiler, language server) + manual bootstrap."""
    t0 = time.time()
    _alt_prepare()
    with Lock():
        tdir = target_dir(flavour)
        os.makedirs(tdir, exist_ok=True)
        log = os.path.join(BUILD, "build-%s.log" % flavour)
        env = _env({"CARGO_TARGET_DIR": tdir})
        _run(["cargo", "build", "--offline", "--release"] + FLAVOUR_ARGS[flavour] +
             ["-p", "dora", "-p", "dora-runtime", "-p", "dora-startup", "-p", "dora-language-server",
              "-p", "dora-format"],
             repo, env, log)
        _run(["cargo", "build", "--offline", "--release"] + FLAVOUR_ARGS[flavour] +
             ["-p", "dora", "--bin", "dora-cannon-compiler"], repo, env, log)
        if need_boots:
            _bootstrap(flavour, repo, log)
    if not quiet:
        print("[build] toolchain %s ready in %.1fs" % (flavour, time.time() - t0), file=sys.stderr)
    return bindir(flavour)


def _bootstrap(flavour, repo, log):
    d = bindir(flavour)
    stamp_file = os.path.join(d, "boots.stamp")
    # the stamp covers the whole tree plus the binaries just built
    bins = b""
    for b in ("dora", "dora-cannon-compiler", "libdora_runtime.a", "libdora_startup.a"):
        st = os.stat(os.path.join(d, b))
        bins += ("%s:%d:%d;" % (b, st.st_size, st.st_mtime_ns)).encode()
    stamp = hashlib.sha256(tree_stamp(repo).encode() + bins).hexdigest()
    final = os.path.join(d, "dora-boots-compiler")
    if os.path.exists(final) and os.path.exists(stamp_file) and open(stamp_file).read() == stamp:
        return
    env = _env()
    env.pop("DORA_FLAGS", None)
    pkg = os.path.join(d, "boots.dora-package")
    boots_src = os.path.join(repo, "pkgs", "boots", "boots.dora")
    dora_bin = os.path.join(d, "dora")
    _run([dora_bin, "compile", "-c", "--internal-compile-boots", boots_src, "-o", pkg], d, env, log)
    s1, s2, s3 = (os.path.join(d, "dora-boots-compiler-stage%d" % i) for i in (1, 2, 3))
    _run([dora_bin, "compile", "--internal-compile-boots", "--cannon", pkg, "-o", s1], d, env, log)
    _run([dora_bin, "compile", "--internal-compile-boots", "--compiler", s1, pkg, "-o", s2], d, env, log)
    _run([dora_bin, "compile", "--internal-compile-boots", "--compiler", s2, pkg, "-o", s3], d, env, log)
    # stage2 == stage3 is C15's business; here we only need a working compiler
    tmp = final + ".tmp"
    with open(s2, "rb") as a, open(tmp, "wb") as b:
        b.write(a.read())
    os.chmod(tmp, 0o755)
    os.replace(tmp, final)
    with open(stamp_file, "w") as f:
        f.write(stamp)


def ensure_harness(bins=None, quiet=False, profile_args=("--release",)):
    """Build the Rust harness workspace (path deps on /repo crates)."""
    t0 = time.time()
    _alt_prepare()
    hdir = harness_src()
    with Lock("harness"):
        tdir = target_dir("harness")
        log = os.path.join(BUILD, "build-harness.log")
        env = _env({"CARGO_TARGET_DIR": tdir})
        cmd = ["cargo", "build", "--offline"] + list(profile_args)
        for b in (bins or []):
            cmd += ["-p", b]
        _run(cmd, hdir, env, log)
    if not quiet:
        print("[build] harness ready in %.1fs" % (time.time() - t0), file=sys.stderr)
    return os.path.join(tdir, "release")


def harness_bin(name):
    return os.path.join(target_dir("harness"), "release", name)
