"""Driver for the in-process Rust harness binaries (harness/vh-*).

Runs `count` cases split over NCPU child processes. A child that dies (abort, stack overflow, OOM kill)
is attributed to the case it was working on (cur_<shard>.txt/.idx), reported, and restarted after it.
"""
import json
import os
import subprocess
import time

from . import build
from .core import NCPU, scratch


class ShardResult:
    def __init__(self):
        self.bad = []       # dicts: idx,key,what,input,family
        self.ok = []        # dicts from "ok" lines
        self.stats = {}
        self.deaths = []    # dicts: idx, rc, input
        self.timeouts = []  # shards killed by the watchdog (inconclusive)


def _merge_stats(dst, src):
    for k, v in src.items():
        if isinstance(v, (int, float)):
            dst[k] = dst.get(k, 0) + v
        else:
            dst.setdefault(k + "@list", []).append(v)


def run_sharded(binary, mode, seed, count, name, extra_args=(), nshards=None, timeout=1800, env=None, kv=None):
    """Returns ShardResult. Each shard i handles indices i, i+n, ...; on death it resumes."""
    exe = build.harness_bin(binary)
    out = scratch(name)
    nshards = nshards or NCPU
    res = ShardResult()
    kvargs = ["%s=%s" % (k, v) for k, v in (kv or {}).items()]
    e = dict(os.environ)
    e["RUST_BACKTRACE"] = "0"
    if env:
        e.update(env)

    def collect(shard, d):
        done = False
        path = os.path.join(d, "shard_%d.jsonl" % shard)
        seen_ok = set()
        if os.path.exists(path):
            with open(path, errors="replace") as f:
                for line in f:
                    try:
                        o = json.loads(line)
                    except ValueError:
                        continue
                    t = o.get("t")
                    if t == "bad":
                        res.bad.append(o)
                    elif t == "ok":
                        res.ok.append(o)
                        seen_ok.add(o.get("idx"))
                    elif t == "stats":
                        _merge_stats(res.stats, o["stats"])
                    elif t == "done":
                        done = True
        return done

    # Simple strategy: run all shards; for a shard that died, record the death with its current input,
    # then run the remaining indices one sub-run at a time via "skip" (kv skip_upto).
    t0 = time.time()
    pending = [(s, None) for s in range(nshards)]
    running = []
    deaths_per_shard = {}
    while pending or running:
        while pending and len(running) < nshards:
            shard, skip = pending.pop(0)
            tag = "" if skip is None else "_after%d" % skip
            if skip is not None:
                kvx = ["skip_upto=%d" % skip]
            else:
                kvx = []
            d = os.path.join(out, "s%d%s" % (shard, tag))
            os.makedirs(d, exist_ok=True)
            cmd = [exe, mode, "--seed", str(seed), "--shard", str(shard), "--nshards", str(nshards),
                   "--count", str(count), "--out", d] + list(extra_args) + kvargs + kvx
            lf = open(os.path.join(d, "stdout.log"), "wb")
            p = subprocess.Popen(cmd, stdout=lf, stderr=subprocess.STDOUT, env=e, stdin=subprocess.DEVNULL)
            running.append((p, shard, d, lf, time.time()))
        time.sleep(0.05)
        still = []
        for (p, shard, d, lf, ts) in running:
            rc = p.poll()
            if rc is None:
                if time.time() - t0 > timeout:
                    p.kill()
                    p.wait()
                    lf.close()
                    collect(shard, d)
                    res.timeouts.append(shard)
                else:
                    still.append((p, shard, d, lf, ts))
                continue
            lf.close()
            done = collect(shard, d)
            if not done:
                # died mid-case
                idx = None
                text = ""
                try:
                    idx = int(open(os.path.join(d, "cur_%d.idx" % shard)).read().strip())
                    text = open(os.path.join(d, "cur_%d.txt" % shard), errors="replace").read()
                except (OSError, ValueError):
                    pass
                tail = ""
                try:
                    tail = open(os.path.join(d, "stdout.log"), errors="replace").read()[-1500:]
                except OSError:
                    pass
                res.deaths.append({"idx": idx, "rc": rc, "input": text, "shard": shard, "log": tail})
                n = deaths_per_shard.get(shard, 0) + 1
                deaths_per_shard[shard] = n
                if idx is not None and n < 20:
                    pending.append((shard, idx))
        running = still
    res.wall = time.time() - t0
    return res
