"""What every method of the in-house x86-64 assemblers is *supposed* to emit (C07).

The meaning of a method is derived from the naming convention of dora-asm/src/x64.rs and
pkgs/boots/assembler/x64.dora:

    [lock_]<mnemonic>[<b|l|q>|<d|q> for the integer side of a conversion]_<operand kinds>
    operand kinds: r register, x xmm register (only where r would be ambiguous), a Address, i Immediate,
                   l Label (RIP-relative memory operand, or the jump target)

plus an explicit table for the irregular names (movsx*, cmov*, setcc, lea, jumps, nullary instructions).
`derive(name)` returns a Spec or None; a public instruction method without a Spec is reported by the check as
`c07:uncovered-method:<name>`. The derived operand kinds are cross-checked against the method's parameter
types as found in the source (`signature_letters`).

A request is (method, avx flag, operand tokens); tokens are the ones understood by harness/vh-asm-x64:
    r<n> x<n> i<v> u<v> d<v> c<ConditionVariant> ao:<base>:<disp> ag:<base> ai:<index>:<scale>:<disp>
    aa:<base>:<index>:<scale>:<disp> ap:<disp> Lf<k> Lb<k>
`render` turns a request into the Intel-syntax text of the requested instruction (the R of DESIGN.md C07).
This file contains no encoding knowledge (no opcodes, no ModRM/REX/VEX logic): that is LLVM's job.
"""
import re

GPR64 = ["rax", "rcx", "rdx", "rbx", "rsp", "rbp", "rsi", "rdi"] + ["r%d" % i for i in range(8, 16)]
GPR32 = ["eax", "ecx", "edx", "ebx", "esp", "ebp", "esi", "edi"] + ["r%dd" % i for i in range(8, 16)]
GPR8 = ["al", "cl", "dl", "bl", "spl", "bpl", "sil", "dil"] + ["r%db" % i for i in range(8, 16)]
XMM = ["xmm%d" % i for i in range(16)]
PTR = {0: "", 8: "byte ptr ", 32: "dword ptr ", 64: "qword ptr ", 128: "xmmword ptr "}
SIZES = {"b": 8, "l": 32, "q": 64, "d": 32}

# Condition enum variant -> Intel condition suffix. Derived from the *meaning of the variant name*, not from
# the nibble table in the assembler. Synonyms are resolved by LLVM (setnae == setb ...).
CONDITIONS = [
    ("Overflow", "o"), ("NoOverflow", "no"), ("Below", "b"), ("NeitherAboveNorEqual", "nae"), ("NotBelow", "nb"),
    ("AboveOrEqual", "ae"), ("Equal", "e"), ("Zero", "z"), ("NotEqual", "ne"), ("NotZero", "nz"),
    ("BelowOrEqual", "be"), ("NotAbove", "na"), ("NeitherBelowNorEqual", "nbe"), ("Above", "a"), ("Sign", "s"),
    ("NoSign", "ns"), ("Parity", "p"), ("ParityEven", "pe"), ("NoParity", "np"), ("ParityOdd", "po"), ("Less", "l"),
    ("NeitherGreaterNorEqual", "nge"), ("NotLess", "nl"), ("GreaterOrEqual", "ge"), ("LessOrEqual", "le"),
    ("NotGreater", "ng"), ("NeitherLessNorEqual", "nle"), ("Greater", "g"),
]
COND_SUFFIX = dict(CONDITIONS)

# Methods of the assembler classes that are not instructions (explicit whitelist).
HELPERS_RUST = {"new", "create_label", "create_and_bind_label", "bind_label", "offset", "finalize", "align_to",
                "position", "set_position", "set_position_end", "emit_u8", "emit_u32", "emit_u64", "emit_u128"}
HELPERS_DORA = {"new", "create_label", "create_and_bind_label", "bind_label", "position", "set_position",
                "set_position_end", "emit_int32", "emit_int64", "size", "finalize", "align_code_size",
                "finalize_testing", "resolve_jumps"}


class Op:
    """kind: r x m i cc u8 lm (label as RIP-relative memory) jl (label as jump target) rel (call_rel32)."""
    SIG = {"r": "R", "x": "X", "m": "A", "i": "I", "cc": "C", "u8": "U", "lm": "L", "jl": "L", "rel": "D"}

    def __init__(self, kind, size=0):
        self.kind = kind
        self.size = size

    def sig(self):
        return Op.SIG[self.kind]


class Spec:
    def __init__(self, name, mnemonic, ops, tail=(), prefix="", avx=None, special=None):
        self.name = name
        self.mnemonic = mnemonic
        self.ops = ops
        self.tail = list(tail)
        self.prefix = prefix
        self.avx = avx          # True: needs has_avx2, False: must not have it, None: irrelevant
        self.special = special  # "jump" | "testl_ri" | None

    def sig(self):
        return "".join(o.sig() for o in self.ops)


def R(size):
    return Op("r", size)


X = Op("x")


def M(size):
    return Op("m", size)


I = Op("i")

_NULLARY = {"cdq": "cdq", "cqo": "cqo", "int3": "int3", "mfence": "mfence", "nop": "nop", "retq": "ret"}

_FIXED = {
    # irregular names
    "movsxbl_rr": ("movsx", [R(32), R(8)]), "movsxbl_ra": ("movsx", [R(32), M(8)]),
    "movsxbq_rr": ("movsx", [R(64), R(8)]), "movsxbq_ra": ("movsx", [R(64), M(8)]),
    "movsxlq_rr": ("movsxd", [R(64), R(32)]), "movsxlq_ra": ("movsxd", [R(64), M(32)]),
    "movzxb_rr": ("movzx", [R(32), R(8)]), "movzxb_ra": ("movzx", [R(32), M(8)]),
    "cmovl": ("cmov", [Op("cc"), R(32), R(32)]), "cmovq": ("cmov", [Op("cc"), R(64), R(64)]),
    "setcc_r": ("set", [Op("cc"), R(8)]),
    "lea": ("lea", [R(64), M(0)]),
    "call_r": ("call", [R(64)]), "jmp_r": ("jmp", [R(64)]),
    "pushq_r": ("push", [R(64)]), "popq_r": ("pop", [R(64)]),
}

_JUMPS = {
    "jmp": ("jmp", [Op("jl")]), "jmp_near": ("jmp", [Op("jl")]),
    "jcc": ("j", [Op("cc"), Op("jl")]), "jcc_near": ("j", [Op("cc"), Op("jl")]),
    "call_rel32": ("call", [Op("rel")]),
}

_INT_ALU = "add|adc|and|cmp|or|sbb|sub|xor|test|mov|xchg|xadd|cmpxchg|imul"
_RE_ALU = re.compile(r"^(%s)(b|l|q)_(rr|ri|ar|ra|ai|rl)$" % _INT_ALU)
_RE_UNARY = re.compile(r"^(idiv|div|neg|not|mul|inc|dec)(l|q)(_r)?$")
_RE_SHIFT = re.compile(r"^(sar|shl|shr|rol|ror)(l|q)_(r|ri)$")
_RE_BITCNT = re.compile(r"^(lzcnt|popcnt|tzcnt|bsf|bsr)(l|q)_rr$")
_RE_SCALAR = re.compile(r"^(v?)(add|sub|mul|div|sqrt|min|max)(ss|sd)_rr$")
_RE_CVTF = re.compile(r"^(v?)(cvtsd2ss|cvtss2sd)_rr$")
_RE_COMI = re.compile(r"^(v?)(u?comis[sd])_rr$")
_RE_CVTSI = re.compile(r"^(v?)(cvtsi2s[sd])(d|q)_rr$")
_RE_CVTT = re.compile(r"^(v?)(cvtts[sd]2si)(d|q)_rr$")
_RE_MOVDQ = re.compile(r"^(v?)mov(d|q)_(rx|xr)$")
_RE_MOVS = re.compile(r"^(v?)mov(ss|sd)_(rr|ra|ar|rl)$")
_RE_MOVP = re.compile(r"^(v?)mov(aps|apd|ups|upd|dqa|dqu)_(rr|ra|ar)$")
_RE_LOGIC = re.compile(r"^(v?)(and|andn|or|xor)(ps|pd)_(rr|ra|rl)$")
_RE_PXOR = re.compile(r"^(v?)(pxor|pand|por)_(rr)$")
_RE_ROUND = re.compile(r"^(v?)round(ss|sd)_ri$")


def derive(name):
    """Spec for a method name, or None if the name does not follow any known convention."""
    prefix = ""
    base = name
    if base.startswith("lock_"):
        prefix = "lock"
        base = base[5:]
        if not re.match(r"^(cmpxchg|xadd|add|and|or|sub|xor|xchg|inc|dec|neg|not)(b|l|q)_(ar|ai)$", base):
            return None
    s = _derive(base)
    if s is None:
        return None
    s.name = name
    s.prefix = prefix
    return s


def _derive(n):
    if n in _NULLARY:
        return Spec(n, _NULLARY[n], [])
    if n in _FIXED:
        mn, ops = _FIXED[n]
        return Spec(n, mn, ops)
    if n in _JUMPS:
        mn, ops = _JUMPS[n]
        return Spec(n, mn, ops, special="jump")
    m = _RE_ALU.match(n)
    if m:
        mn, sz, kinds = m.group(1), SIZES[m.group(2)], m.group(3)
        if mn == "imul" and kinds != "rr":
            return None
        if kinds == "rl" and mn != "mov":
            return None
        ops = {"rr": [R(sz), R(sz)], "ri": [R(sz), I], "ar": [M(sz), R(sz)], "ra": [R(sz), M(sz)],
               "ai": [M(sz), I], "rl": [R(sz), Op("lm", sz)]}[kinds]
        return Spec(n, mn, ops, special="testl_ri" if n == "testl_ri" else None)
    m = _RE_UNARY.match(n)
    if m:
        return Spec(n, m.group(1), [R(SIZES[m.group(2)])])
    m = _RE_SHIFT.match(n)
    if m:
        sz = SIZES[m.group(2)]
        if m.group(3) == "r":
            return Spec(n, m.group(1), [R(sz)], tail=["cl"])
        return Spec(n, m.group(1), [R(sz), I])
    m = _RE_BITCNT.match(n)
    if m:
        sz = SIZES[m.group(2)]
        return Spec(n, m.group(1), [R(sz), R(sz)])
    # --- SSE / AVX -----------------------------------------------------------------------------
    m = _RE_SCALAR.match(n) or _RE_CVTF.match(n)
    if m:
        v = bool(m.group(1))
        mn = m.group(1) + "".join(m.groups()[1:])
        return Spec(n, mn, [X, X, X] if v else [X, X], avx=v)
    m = _RE_COMI.match(n)
    if m:
        return Spec(n, m.group(1) + m.group(2), [X, X], avx=bool(m.group(1)))
    m = _RE_CVTSI.match(n)
    if m:
        v = bool(m.group(1))
        r = R(SIZES[m.group(3)])
        return Spec(n, m.group(1) + m.group(2), [X, X, r] if v else [X, r], avx=v)
    m = _RE_CVTT.match(n)
    if m:
        return Spec(n, m.group(1) + m.group(2), [R(SIZES[m.group(3)]), X], avx=bool(m.group(1)))
    m = _RE_MOVDQ.match(n)
    if m:
        r = R(SIZES[m.group(2)])
        return Spec(n, m.group(1) + "mov" + m.group(2), [r, X] if m.group(3) == "rx" else [X, r], avx=bool(m.group(1)))
    m = _RE_MOVS.match(n)
    if m:
        v = bool(m.group(1))
        sz = 32 if m.group(2) == "ss" else 64
        ops = {"rr": [X, X, X] if v else [X, X], "ra": [X, M(sz)], "ar": [M(sz), X], "rl": [X, Op("lm", sz)]}[m.group(3)]
        return Spec(n, m.group(1) + "mov" + m.group(2), ops, avx=v)
    m = _RE_MOVP.match(n)
    if m:
        ops = {"rr": [X, X], "ra": [X, M(128)], "ar": [M(128), X]}[m.group(3)]
        return Spec(n, m.group(1) + "mov" + m.group(2), ops, avx=bool(m.group(1)))
    m = _RE_LOGIC.match(n)
    if m:
        v = bool(m.group(1))
        last = {"rr": X, "ra": M(128), "rl": Op("lm", 128)}[m.group(4)]
        return Spec(n, m.group(1) + m.group(2) + m.group(3), ([X, X] if v else [X]) + [last], avx=v)
    m = _RE_PXOR.match(n)
    if m:
        v = bool(m.group(1))
        return Spec(n, m.group(1) + m.group(2), [X, X, X] if v else [X, X], avx=v)
    m = _RE_ROUND.match(n)
    if m:
        v = bool(m.group(1))
        return Spec(n, m.group(1) + "round" + m.group(2), ([X, X, X] if v else [X, X]) + [Op("u8")], avx=v)
    return None


# ---------------------------------------------------------------------------------------------------
# source parsing: which public methods do the assembler classes have, and with which parameter types

_RUST_TYPES = {"Register": "R", "XmmRegister": "X", "Address": "A", "Immediate": "I", "Label": "L",
               "Condition": "C", "u8": "U", "i32": "D"}
_DORA_TYPES = {"Register": "R", "FloatRegister": "X", "Address": "A", "Immediate": "I", "Label": "L",
               "Condition": "C", "UInt8": "U", "Int32": "D"}


def _impl_blocks(src, header_re):
    """Bodies of all `impl AssemblerX64 {` blocks (brace matching; the sources have no braces in strings
    inside these blocks other than Dora string templates, which are balanced)."""
    out = []
    for m in re.finditer(header_re, src, flags=re.M):
        i = src.index("{", m.start())
        depth = 0
        j = i
        while j < len(src):
            c = src[j]
            if c == "{":
                depth += 1
            elif c == "}":
                depth -= 1
                if depth == 0:
                    break
            j += 1
        out.append(src[i + 1:j])
    return out


def _sig(args, types):
    letters = []
    for a in args.split(","):
        a = a.strip()
        if not a or a in ("&mut self", "&self", "mut self", "self"):
            continue
        t = a.split(":", 1)[1].strip()
        letters.append(types.get(t, "?" + t))
    return "".join(letters)


def rust_methods(path):
    """{name: signature letters} of every `pub fn` of `impl AssemblerX64` in dora-asm/src/x64.rs."""
    src = open(path).read()
    cut = src.find("#[cfg(test)]")
    if cut >= 0:
        src = src[:cut]
    out = {}
    for body in _impl_blocks(src, r"^impl AssemblerX64 \{"):
        for m in re.finditer(r"^    pub fn (\w+)\s*\(([^)]*)\)", body, flags=re.M):
            out[m.group(1)] = _sig(m.group(2), _RUST_TYPES)
    return out


def dora_methods(path):
    """{name: signature letters} of every `pub fn` of `impl AssemblerX64` in pkgs/boots/assembler/x64.dora."""
    src = open(path).read()
    out = {}
    for body in _impl_blocks(src, r"^impl AssemblerX64 \{"):
        for m in re.finditer(r"^    pub (static )?fn (\w+)\s*\(([^)]*)\)", body, flags=re.M):
            out[m.group(2)] = _sig(m.group(3), _DORA_TYPES)
    return out


def enum_variants(path, lang):
    """Variant names of `enum Condition` in the given source."""
    src = open(path).read()
    m = re.search(r"^pub enum Condition \{(.*?)^\}", src, flags=re.M | re.S)
    if not m:
        return []
    return re.findall(r"^\s*(\w+),", m.group(1), flags=re.M)


# ---------------------------------------------------------------------------------------------------
# rendering

def _disp(d):
    if d == 0:
        return ""
    return " + %d" % d if d > 0 else " - %d" % -d


def render_address(tok):
    p = tok[1:].split(":")
    k = p[0]
    if k == "o":
        return "[%s%s]" % (GPR64[int(p[1])], _disp(int(p[2])))
    if k == "g":
        return "[%s]" % GPR64[int(p[1])]
    if k == "i":
        idx, sc, d = GPR64[int(p[1])], int(p[2]), int(p[3])
        # scale 1 without base: the same address as [idx + d]; LLVM prints both the same way
        inner = idx if sc == 1 else "%d*%s" % (sc, idx)
        return "[%s%s]" % (inner, _disp(d))
    if k == "a":
        b, idx, sc, d = GPR64[int(p[1])], GPR64[int(p[2])], int(p[3]), int(p[4])
        return "[%s + %d*%s%s]" % (b, sc, idx, _disp(d))
    if k == "p":
        return "[rip%s]" % _disp(int(p[1]))
    raise ValueError(tok)


def reg_name(n, size):
    return {8: GPR8, 32: GPR32, 64: GPR64}[size][n]


def render(spec, toks, res=None):
    """-> ("text", intel_text) | ("jump", mnemonic, cond_suffix_or_None, expected_disp) .

    `res` is the harness result (needed for label operands: positions)."""
    mn = spec.mnemonic
    parts = []
    jump_disp = None
    cond = None
    testl_narrow = False
    if spec.special == "testl_ri":
        # The unit tests of both assemblers pin `testl_ri(reg, imm)` with 0 <= imm < 256 to the byte form
        # `test r8, imm8` (ZF/PF/CF/OF identical, SF differs if bit 7 of the immediate is set). The check
        # accepts exactly this documented narrowing.
        v = int(toks[1][1:])
        testl_narrow = 0 <= v < 256
    for op, t in zip(spec.ops, toks):
        k = op.kind
        if k == "r":
            parts.append(reg_name(int(t[1:]), 8 if testl_narrow else op.size))
        elif k == "x":
            parts.append(XMM[int(t[1:])])
        elif k == "m":
            parts.append(PTR[op.size] + render_address(t))
        elif k == "i":
            parts.append(str(int(t[1:])))
        elif k == "u8":
            parts.append(str(int(t[1:])))
        elif k == "cc":
            cond = COND_SUFFIX[t[1:]]
        elif k == "lm":
            d = res["lbl"] - res["end"]
            parts.append(PTR[op.size] + "[rip%s]" % _disp(d))
        elif k == "jl":
            jump_disp = res["lbl"] - res["end"]
        elif k == "rel":
            jump_disp = int(t[1:])
        else:
            raise ValueError(k)
    if spec.special == "jump":
        return ("jump", mn, cond, jump_disp)
    if cond is not None:
        mn = mn + cond
    parts += spec.tail
    text = mn + (" " + ", ".join(parts) if parts else "")
    if spec.prefix:
        text = spec.prefix + " " + text
    return ("text", text)


# ---------------------------------------------------------------------------------------------------
# operand-shape classes (for violation keys and the distinct-case count)

def _rc(n, size=64, has_imm=False):
    if size == 8:
        return "lo" if n < 4 else ("mid" if n < 8 else "hi")
    if has_imm and n == 0:
        return "ax"
    return "lo" if n < 8 else "hi"


def _bc(n):
    return {4: "sp", 5: "bp", 12: "r12", 13: "r13"}.get(n, "lo" if n < 8 else "hi")


def _dc(d):
    return "0" if d == 0 else ("d8" if -128 <= d < 128 else "d32")


def _ic(v):
    if -128 <= v < 128:
        return "i8"
    if 128 <= v < 256:
        return "u8"
    if -(1 << 31) <= v < (1 << 31):
        return "i32"
    if (1 << 31) <= v < (1 << 32):
        return "u32"
    return "i64"


def address_class(tok, with_scale=False):
    p = tok[1:].split(":")
    k = p[0]
    if k == "o":
        return "o(%s,%s)" % (_bc(int(p[1])), _dc(int(p[2])))
    if k == "g":
        return "g(%s)" % _bc(int(p[1]))
    if k == "i":
        return "i(%s,%s%s)" % (_bc(int(p[1])), ("s%s," % p[2]) if with_scale else "", _dc(int(p[3])))
    if k == "a":
        return "a(%s,%s,%s%s)" % (_bc(int(p[1])), _bc(int(p[2])), ("s%s," % p[3]) if with_scale else "", _dc(int(p[4])))
    return "rip"


def shape(spec, toks, with_scale=False):
    has_imm = any(o.kind == "i" for o in spec.ops)
    out = []
    for op, t in zip(spec.ops, toks):
        k = op.kind
        if k == "r":
            out.append(_rc(int(t[1:]), op.size, has_imm))
        elif k == "x":
            out.append("lo" if int(t[1:]) < 8 else "hi")
        elif k == "m":
            out.append(address_class(t, with_scale))
        elif k == "i":
            out.append(_ic(int(t[1:])))
        elif k == "cc":
            out.append("cc=" + t[1:])
        elif k == "u8":
            out.append("u8")
        elif k in ("lm", "jl"):
            kk = int(t[2:])
            out.append("L%s%s" % (t[1], "s" if kk <= 125 else ("e" if kk <= 127 else "n")))
        elif k == "rel":
            out.append("rel")
    return ",".join(out) if out else "-"


# ---------------------------------------------------------------------------------------------------
# plausibility: is the request one that an assembler can be expected to encode? Only used to decide which
# requests are sent to the Dora assembler in bulk (a refused request costs a whole process there); the verdict
# never depends on it.

def plausible(spec, toks):
    for op, t in zip(spec.ops, toks):
        k = op.kind
        if k == "m":
            p = t[1:].split(":")
            if (p[0] == "i" and int(p[1]) == 4) or (p[0] == "a" and int(p[2]) == 4):
                return False    # rsp cannot be an index register
        elif k == "i":
            v = int(t[1:])
            n = spec.name
            if re.match(r"^(sar|shl|shr|rol|ror)", n):
                ok = -128 <= v < 128
            elif n.startswith("testb_"):
                ok = 0 <= v < 256
            elif re.match(r"^\w+b_", n):
                ok = -128 <= v < 256
            elif n == "movq_ri":
                ok = True
            elif re.match(r"^(mov|cmp)l_ai$", n):
                ok = -(1 << 31) <= v < (1 << 32)
            else:
                ok = -(1 << 31) <= v < (1 << 31)
            if not ok:
                return False
        elif k == "jl" and spec.name.endswith("_near"):
            kk = int(t[2:])
            if (t[1] == "f" and kk > 127) or (t[1] == "b" and kk > 126):
                return False
    return True


# ---------------------------------------------------------------------------------------------------
# operand domains / request generation

DISPS = [-(1 << 31), -(1 << 31) + 1, -129, -128, -127, -1, 0, 1, 127, 128, 129, (1 << 31) - 1]
DISPS_SMALL = [-129, -128, -1, 0, 1, 127, 128]
IMMS = [-(1 << 63), -(1 << 31) - 1, -(1 << 31), -(1 << 31) + 1, -32769, -32768, -129, -128, -127, -1, 0, 1, 7, 127,
        128, 129, 255, 256, 32767, 32768, 65535, 65536, (1 << 31) - 1, 1 << 31, (1 << 32) - 1, 1 << 32, (1 << 63) - 1]
MODES = [0, 1, 2, 3, 4, 8, 11, 255]
JUMP_DIST = [0, 1, 2, 60, 124, 125, 126, 127, 128, 129, 130, 200, 1000, 40000]
LM_DIST = [0, 1, 127, 128, 1000]
SPECIAL_BASES = [4, 12, 5, 13]


def _rand_disp(rng):
    r = rng.random()
    if r < 0.4:
        return rng.randint(-128, 127)
    if r < 0.7:
        return rng.randint(-70000, 70000)
    return rng.randint(-(1 << 31), (1 << 31) - 1)


def _rand_imm(rng):
    bits = rng.choice([4, 7, 8, 9, 15, 16, 17, 31, 32, 33, 48, 63])
    v = rng.getrandbits(bits)
    return -v if rng.random() < 0.5 else v


def address_domain(rng, thorough):
    """List of address tokens: every addressing shape with the special cases forced."""
    out = []
    regs = list(range(16))
    # base only / base + disp
    for b in regs:
        out.append("ag:%d" % b)
        ds = DISPS if (thorough or b in SPECIAL_BASES) else [0, rng.choice(DISPS_SMALL), rng.choice(DISPS)]
        if not thorough and b in SPECIAL_BASES:
            ds = DISPS_SMALL + [rng.choice(DISPS)]
        for d in ds:
            out.append("ao:%d:%d" % (b, d))
        out.append("ao:%d:%d" % (b, _rand_disp(rng)))
    # index without base (rsp as index is illegal: one request, must be refused)
    for i in regs:
        scs = [1, 2, 4, 8] if thorough else [rng.choice([1, 2, 4, 8])]
        for sc in scs:
            ds = [0, rng.choice(DISPS), _rand_disp(rng)] if not thorough else DISPS[::3] + [0, _rand_disp(rng)]
            for d in ds:
                out.append("ai:%d:%d:%d" % (i, sc, d))
    for sc in (1, 2, 4, 8):
        for d in DISPS:
            out.append("ai:%d:%d:%d" % (rng.choice([0, 1, 2, 3, 5, 6, 7, 8, 9, 13, 15]), sc, d))
    # base + index * scale + disp
    if thorough:
        for b in regs:
            for i in regs:
                out.append("aa:%d:%d:%d:%d" % (b, i, rng.choice([1, 2, 4, 8]), rng.choice(DISPS_SMALL + [_rand_disp(rng)])))
    else:
        for b in regs:
            out.append("aa:%d:%d:%d:%d" % (b, rng.choice(regs), rng.choice([1, 2, 4, 8]), rng.choice(DISPS_SMALL)))
        for i in regs:
            out.append("aa:%d:%d:%d:%d" % (rng.choice(regs), i, rng.choice([1, 2, 4, 8]), rng.choice(DISPS_SMALL)))
    for b in SPECIAL_BASES + [rng.choice([0, 3, 9, 15])]:
        for d in (DISPS if thorough else DISPS_SMALL):
            out.append("aa:%d:%d:%d:%d" % (b, rng.choice([0, 1, 5, 8, 13, 14]), rng.choice([1, 2, 4, 8]), d))
    for i in (5, 12, 13, 8, 0):
        for sc in (1, 2, 4, 8):
            out.append("aa:%d:%d:%d:%d" % (rng.choice([0, 4, 5, 12, 13, 15]), i, sc, rng.choice([0, 8, 1000])))
    # RIP-relative
    for d in DISPS + [_rand_disp(rng)]:
        out.append("ap:%d" % d)
    return out


def _domain(op, spec, rng, thorough, addr_dom):
    k = op.kind
    if k == "r":
        return ["r%d" % i for i in range(16)]
    if k == "x":
        return ["x%d" % i for i in range(16)]
    if k == "m":
        return addr_dom
    if k == "i":
        return ["i%d" % v for v in IMMS + [_rand_imm(rng) for _ in range(6 if thorough else 3)]]
    if k == "cc":
        return ["c" + c for c, _ in CONDITIONS]
    if k == "u8":
        return ["u%d" % v for v in MODES]
    if k == "jl":
        return ["L%s%d" % (d, kk) for d in "fb" for kk in JUMP_DIST + [rng.randint(0, 300)]]
    if k == "lm":
        return ["L%s%d" % (d, kk) for d in "fb" for kk in LM_DIST]
    if k == "rel":
        return ["d%d" % v for v in DISPS + [_rand_disp(rng)]]
    raise ValueError(k)


def gen_requests(spec, rng, thorough, addr_dom):
    """Operand token lists for one method.

    quick: every value of every operand domain appears at least once in every operand position (partners
    random), register/register and register/condition pairs sampled; rax with every immediate.
    thorough: additionally all pairs of register-like operands exhaustively, 3 partners per value."""
    doms = [_domain(op, spec, rng, thorough, addr_dom) for op in spec.ops]
    if not doms:
        return [[]]
    out = []
    seen = set()

    def add(toks):
        t = tuple(toks)
        if t not in seen:
            seen.add(t)
            out.append(list(toks))

    reps = 3 if thorough else 1
    for p, dom in enumerate(doms):
        for v in dom:
            for _ in range(reps):
                toks = [rng.choice(d) for d in doms]
                toks[p] = v
                add(toks)
    small = [p for p, op in enumerate(spec.ops) if op.kind in ("r", "x", "cc", "u8")]
    for a in range(len(small)):
        for b in range(a + 1, len(small)):
            pa, pb = small[a], small[b]
            if thorough:
                pairs = [(va, vb) for va in doms[pa] for vb in doms[pb]]
            else:
                pairs = [(rng.choice(doms[pa]), rng.choice(doms[pb])) for _ in range(24)]
                # same register in both positions, low/high classes
                both = [v for v in doms[pa] if v in doms[pb]]
                pairs += [(v, v) for v in rng.sample(both, min(4, len(both)))]
            for va, vb in pairs:
                toks = [rng.choice(d) for d in doms]
                toks[pa], toks[pb] = va, vb
                add(toks)
    # rax has its own opcodes in the immediate forms; every immediate with rax and with one high register
    ipos = [p for p, op in enumerate(spec.ops) if op.kind == "i"]
    rpos = [p for p, op in enumerate(spec.ops) if op.kind == "r"]
    if ipos and rpos:
        for v in doms[ipos[0]]:
            for r in ("r0", "r%d" % rng.randint(8, 15)) + (("r%d" % rng.randint(1, 7),) if thorough else ()):
                toks = [rng.choice(d) for d in doms]
                toks[ipos[0]] = v
                toks[rpos[0]] = r
                add(toks)
    # memory operand x register: special bases with low and high registers
    mpos = [p for p, op in enumerate(spec.ops) if op.kind == "m"]
    xpos = [p for p, op in enumerate(spec.ops) if op.kind in ("r", "x")]
    if mpos and xpos and thorough:
        for v in doms[mpos[0]]:
            for r in (rng.randint(0, 7), rng.randint(8, 15)):
                toks = [rng.choice(d) for d in doms]
                toks[mpos[0]] = v
                toks[xpos[0]] = doms[xpos[0]][r]
                add(toks)
    return out
