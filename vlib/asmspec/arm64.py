"""AArch64 request specification for C08 (stdlib only).

* parse the public surface of the two in-house assemblers from the *working tree* sources,
* a template table: method name -> the assembly text of the instruction a call requests,
* operand domains and request generation,
* llvm-mc batch assembly / disassembly (the independent reference encoder/decoder),
* small symbolic evaluators over LLVM's disassembly for the multi-instruction helpers,
* independent reference implementations of the immediate predicates.

Operand values: registers 0..30, 31 = zero register, 32 = stack pointer; NEON registers 0..31; integers;
enum operands by variant name; a MemOperand is flattened into (base register, offset); a label is the signed
distance in instructions from the first emitted word to the label.
"""
import os
import re
import shutil
import subprocess
from concurrent.futures import ThreadPoolExecutor

LLVM_MC = shutil.which("llvm-mc-14") or shutil.which("llvm-mc")
MC_ARGS = ["-triple=aarch64", "-mattr=+lse,+neon,+fp-armv8"]
M64 = (1 << 64) - 1

# ------------------------------------------------------------------------------------------------
# source parsing

RUST_KIND = {"Register": ["R"], "NeonRegister": ["F"], "u32": ["I"], "i32": ["I"], "i64": ["I"], "u64": ["I"],
             "usize": ["I"], "u8": ["I"], "u128": ["I"], "Shift": ["SH"], "Extend": ["EXT"], "Cond": ["C"],
             "MemOperand": ["R", "I"], "Label": ["L"]}
DORA_KIND = {"Register": ["R"], "FloatRegister": ["F"], "Int32": ["I"], "Int64": ["I"], "Shift": ["SH"],
             "Extend": ["EXT"], "Cond": ["C"], "Label": ["L"], "Bool": ["B"]}
INT_RANGE = {"u32": (0, 2**32 - 1), "i32": (-2**31, 2**31 - 1), "i64": (-2**63, 2**63 - 1), "u64": (0, 2**64 - 1),
             "usize": (0, 2**63 - 1), "u8": (0, 255), "u128": (0, 2**64 - 1),
             "Int32": (-2**31, 2**31 - 1), "Int64": (-2**63, 2**63 - 1), "MemOperand": (-2**63, 2**63 - 1),
             "Label": (-2**31, 2**31 - 1)}

# public functions of `impl AssemblerArm64` that do not emit an instruction on their own
RUST_NON_INSTRUCTION = {"new", "create_label", "create_and_bind_label", "bind_label", "offset", "finalize", "align_to",
                        "position", "set_position", "set_position_end", "emit_u8", "emit_u32", "emit_u64", "emit_u128"}
# free public functions: all exercised by the `imm` mode of the harness against the references below
RUST_FREE_COVERED = {"fits_movz", "fits_movn", "shift_movz", "shift_movn", "count_empty_half_words", "fits_addsub_imm",
                     "fits_ldst_unscaled"}
RUST_CLS_COVERED = {"uncond_branch_imm"}
DORA_NON_INSTRUCTION = {"new", "create_label", "create_and_bind_label", "bind_label", "position", "finalize", "size",
                        "align_code_size", "resolve_jumps", "emit_int32", "emit_int64"}
DORA_FREE_IGNORED = {"register_name", "float_register_name", "fits_movz", "fits_movn", "fits_unscaled_immediate",
                     "fits_adr_imm", "fits_add_sub_imm"}


class Method:
    def __init__(self, name, params, lang):
        self.name = name
        self.params = params          # [(name, type)]
        self.lang = lang
        table = RUST_KIND if lang == "rust" else DORA_KIND
        self.kinds = []
        self.types = []               # per flattened operand
        self.pnames = []
        self.unknown = None
        for (pn, pt) in params:
            ks = table.get(pt)
            if ks is None:
                self.unknown = pt
                ks = ["?"]
            for j, k in enumerate(ks):
                self.kinds.append(k)
                self.types.append(pt)
                self.pnames.append(pn if len(ks) == 1 else pn + (".base" if j == 0 else ".offset"))


def parse_rust(path):
    text = open(path).read()
    out = {"methods": {}, "other": [], "free": [], "cls": []}
    cur = None
    pos = 0
    lines = text.split("\n")
    # block tracking by column-0 lines
    blocks = []  # (start_offset, end_offset, name)
    off = 0
    start = None
    for ln in lines:
        if start is None:
            m = re.match(r"(?:pub )?(?:impl|mod)\s+(?:[\w:]+\s+for\s+)?(\w+)\s*\{", ln)
            if m:
                start = (off, m.group(1), ln.startswith("pub mod") or ln.startswith("mod"))
        elif ln.startswith("}"):
            blocks.append((start[0], off, start[1], start[2]))
            start = None
        off += len(ln) + 1
    for (a, b, name, is_mod) in blocks:
        body = text[a:b]
        if name == "AssemblerArm64" and not is_mod:
            for m in re.finditer(r"\n    pub fn (\w+)\s*\((.*?)\)\s*(->[^{]*)?\{", body, re.S):
                fname, args, ret = m.group(1), m.group(2), m.group(3)
                parts = [" ".join(p.split()) for p in args.split(",") if p.strip()]
                if parts and parts[0] == "&mut self" and not ret:
                    params = []
                    for p in parts[1:]:
                        pn, pt = p.split(":", 1)
                        params.append((pn.strip().replace("mut ", ""), pt.strip()))
                    out["methods"][fname] = Method(fname, params, "rust")
                else:
                    out["other"].append(fname)
        elif name == "cls" and is_mod:
            for m in re.finditer(r"\n    pub fn (\w+)\s*\(", body):
                out["cls"].append(m.group(1))
        elif name == "tests":
            continue
    # free functions: column 0, outside of every block
    for m in re.finditer(r"(?m)^pub fn (\w+)\s*\(", text):
        if not any(a <= m.start() < b for (a, b, _, _) in blocks):
            out["free"].append(m.group(1))
    return out


def parse_dora(path):
    text = open(path).read()
    out = {"methods": {}, "other": [], "free": [], "static": []}
    lines = text.split("\n")
    blocks = []
    off = 0
    start = None
    for ln in lines:
        if start is None:
            m = re.match(r"(?:pub )?(impl|mod)\s+(\w+)\s*\{", ln)
            if m:
                start = (off, m.group(2), m.group(1) == "mod")
        elif ln.startswith("}"):
            blocks.append((start[0], off, start[1], start[2]))
            start = None
        off += len(ln) + 1
    for (a, b, name, is_mod) in blocks:
        body = text[a:b]
        if name == "AssemblerArm64" and not is_mod:
            for m in re.finditer(r"\n    pub (static )?fn (\w+)\s*\((.*?)\)\s*(:[^{]*)?\{", body, re.S):
                static, fname, args, ret = m.group(1), m.group(2), m.group(3), m.group(4)
                parts = [" ".join(p.split()) for p in args.split(",") if p.strip()]
                if static or ret:
                    out["other"].append(fname)
                    continue
                params = []
                for p in parts:
                    pn, pt = p.split(":", 1)
                    params.append((pn.strip().replace("mut ", ""), pt.strip()))
                out["methods"][fname] = Method(fname, params, "dora")
    for m in re.finditer(r"(?m)^pub fn (\w+)\s*\(", text):
        if not any(a <= m.start() < b for (a, b, _, _) in blocks):
            out["free"].append(m.group(1))
    return out


# ------------------------------------------------------------------------------------------------
# rendering helpers

def R(n, w=False):
    if n == 31:
        return "wzr" if w else "xzr"
    if n == 32:
        return "wsp" if w else "sp"
    return ("w%d" if w else "x%d") % n


def imm(v):
    if v < 0:
        return "#%d" % v
    return "#%d" % v if v < 10 else "#0x%x" % v


_PH = re.compile(r"\{([a-zA-Z]*)(\d)(?:\*(\d+))?\}")
_PH_KIND = {"x": "R", "X": "R", "W": "R", "w": "R", "b": "F", "h": "F", "s": "F", "d": "F", "q": "F",
            "sh": "SH", "ext": "EXT", "c": "C", "": "I"}


def _fmt(kind, v, mult):
    if kind in ("x", "X"):
        return R(v, False)
    if kind in ("w", "W"):
        return R(v, True)
    if kind in ("b", "h", "s", "d", "q"):
        return "%s%d" % (kind, v)
    if kind in ("sh", "ext", "c"):
        return v.lower()
    return imm(v * (int(mult) if mult else 1))[0:]


class Entry:
    def __init__(self, tpl=None, fn=None, kinds=None, dom=None, sym=None):
        self.tpl = tpl
        self.fn = fn
        self.sym = sym
        self.dom = dom or {}
        if tpl is not None:
            ks = {}
            for m in _PH.finditer(tpl):
                ks[int(m.group(2))] = _PH_KIND[m.group(1)]
            self.kinds = [ks[i] for i in range(len(ks))] if ks else []
            assert sorted(ks) == list(range(len(ks))), tpl
        else:
            self.kinds = kinds

    def render(self, o):
        """-> list of alternatives, each a list of assembly lines"""
        if self.fn is not None:
            return self.fn(o)
        def sub(m):
            s = _fmt(m.group(1), o[int(m.group(2))], m.group(3))
            return s
        # `#{3}`: the template writes the '#', imm() adds one too -> strip the duplicate
        return [[_PH.sub(sub, self.tpl).replace("##", "#")]]


SPEC = {}


def t(names, tpl, **dom):
    for n in names.split():
        SPEC[n] = Entry(tpl=tpl.replace("{op}", n.split("_")[0]), dom={int(k[1:]): v for k, v in dom.items()})


def tw(names, tpl, **dom):
    """64-bit method `name` and its 32-bit sibling `name_w`: {x..} placeholders become {w..}"""
    for n in names.split():
        op = n.split("_")[0]
        d = {int(k[1:]): v for k, v in dom.items()}
        SPEC[n] = Entry(tpl=tpl.replace("{op}", op), dom=d)
        SPEC[n + "_w"] = Entry(tpl=re.sub(r"\{x(\d)", r"{w\1", tpl.replace("{op}", op)), dom=d)


def tf(names, kinds, fn, sym=None, **dom):
    for n in names.split():
        SPEC[n] = Entry(fn=fn(n) if sym is None else None, kinds=list(kinds), sym=sym,
                        dom={int(k[1:]): v for k, v in dom.items()})


# --- add/sub ---------------------------------------------------------------------------------------
def _addsub_plain(name):
    op = name.split("_")[0]
    w = name.endswith("_w")
    def f(o):
        a = "%s %s, %s, %s" % (op, R(o[0], w), R(o[1], w), R(o[2], w))
        alts = [[a]]
        if w and 32 in o[:2]:
            # with wsp LLVM picks `uxtw`; `uxtx` on a W register is the same operation (ExtendReg of a 32-bit value)
            alts.append([a + ", uxtx"])
        return alts
    return f


def _ext(name):
    op = name.split("_")[0]
    w = name.endswith("_w")
    nreg = 2 if op in ("cmp", "cmn") else 3
    def f(o):
        regs, ext, amt = o[:nreg], o[nreg], o[nreg + 1]
        first = [R(r, w) for r in regs[:-1]]
        rm = regs[-1]
        def line(extname, rmw):
            return "%s %s, %s %s" % (op, ", ".join(first + [R(rm, rmw)]), extname, imm(amt))
        e = ext.lower()
        if ext == "LSL":
            # `lsl` in the extended-register class is the alias of uxtx (64-bit) / uxtw (32-bit); LLVM assembles the
            # `lsl` spelling as the shifted-register form unless sp is involved: both are the requested operation
            return [[line("lsl", w)], [line("uxtw" if w else "uxtx", w)]]
        rmw = w or e in ("uxtb", "uxth", "uxtw", "sxtb", "sxth", "sxtw")
        return [[line(e, rmw)]]
    return f


tf("add add_w sub sub_w", "RRR", _addsub_plain)
tw("adds subs", "{op} {x0}, {x1}, {x2}")
tw("add_imm adds_imm sub_imm subs_imm", "{op} {x0}, {x1}, #{2}", d2="addsub")
tw("add_sh adds_sh sub_sh subs_sh", "{op} {x0}, {x1}, {x2}, {sh3} #{4}", d4="shamt")
tf("add_ext add_ext_w adds_ext adds_ext_w sub_ext sub_ext_w subs_ext subs_ext_w", ["R", "R", "R", "EXT", "I"], _ext,
   d4="extamt")
tf("cmp_ext cmp_ext_w", ["R", "R", "EXT", "I"], _ext, d3="extamt")
tw("cmp", "cmp {x0}, {x1}")
tw("cmp_imm cmn_imm", "{op} {x0}, #{1}", d1="addsub")
tw("cmp_sh", "cmp {x0}, {x1}, {sh2} #{3}", d3="shamt")
# --- logical ---------------------------------------------------------------------------------------
tw("and_sh ands_sh bic_sh bics_sh eon_sh eor_sh orn_sh orr_sh", "{op} {x0}, {x1}, {x2}, {sh3} #{4}", d4="shamt")
t("and_imm", "and {x0}, {x1}, #{2}", d2="logimm64")
t("and_imm_w", "and {w0}, {w1}, #{2}", d2="logimm32")
tw("bic", "bic {x0}, {x1}, {x2}")          # Dora only
# --- data processing ---------------------------------------------------------------------------------
tw("asrv", "asr {x0}, {x1}, {x2}")
tw("lsl lsr ror sdiv udiv mul", "{op} {x0}, {x1}, {x2}")
tw("cls clz rbit rev", "{op} {x0}, {x1}")
tw("madd msub", "{op} {x0}, {x1}, {x2}, {x3}")
t("smaddl", "smaddl {X0}, {W1}, {W2}, {X3}")
t("smull", "smull {X0}, {W1}, {W2}")
t("smulh", "smulh {X0}, {X1}, {X2}")
tw("bfm sbfm ubfm", "{op} {x0}, {x1}, #{2}, #{3}", d2="bitpos", d3="bitpos")
tw("lsl_imm lsr_imm", "{op} {x0}, {x1}, #{2}", d2="bitpos")
t("sxtw", "sxtw {X0}, {W1}")
t("uxtb", "uxtb {W0}, {W1}")
SPEC["uxtw"] = Entry(fn=lambda o: [["ubfx %s, %s, #0, #32" % (R(o[0]), R(o[1]))],
                                   ["mov %s, %s" % (R(o[0], True), R(o[1], True))]], kinds=["R", "R"])
tw("mov", "mov {x0}, {x1}")
tw("movn movz movk", "{op} {x0}, #{1}, lsl #{2}", d1="imm16", d2="hwshift")
tw("csel csinc csinv", "{op} {x0}, {x1}, {x2}, {c3}")
tw("cset", "cset {x0}, {c1}")
# --- branches, system --------------------------------------------------------------------------------
t("b_r", "br {X0}")
t("bl_r", "blr {X0}")
t("ret", "ret {X0}")
t("bl_imm", "bl #{0*4}", d0="br26")
tw("cbz_imm cbnz_imm", "{op} {x0}, #{1*4}", d1="br19")
t("brk", "brk #{0}", d0="imm16")
t("nop", "nop")
t("dmb_ish", "dmb ish")
t("dmb_ishst", "dmb ishst")
t("dmb", "dmb #{0}", d0="dmb4")
t("adr_imm", "adr {X0}, #{1}", d1="adr")
t("adrp_imm", "adrp {X0}, #{1*4096}", d1="adr")
SPEC["cls::uncond_branch_imm"] = Entry(
    fn=lambda o: [["%s %s" % ({0: "b", 1: "bl"}.get(o[0], "<op out of range>"), imm(o[1] * 4))]],
    kinds=["I", "I"], dom={0: "bit01", 1: "br26"})
# --- floating point ----------------------------------------------------------------------------------
for _op in ("fadd", "fsub", "fmul", "fdiv"):
    t(_op + "_s", _op + " {s0}, {s1}, {s2}")
    t(_op + "_d", _op + " {d0}, {d1}, {d2}")
for _op in ("fmov", "fabs", "fneg", "frintn", "frintp", "frintm", "frintz", "frinta", "fsqrt"):
    t(_op + "_s", _op + " {s0}, {s1}")
    t(_op + "_d", _op + " {d0}, {d1}")
t("fcmp_s fcmpe_s", "{op} {s0}, {s1}")
t("fcmp_d fcmpe_d", "{op} {d0}, {d1}")
t("fcvt_ds", "fcvt {d0}, {s1}")
t("fcvt_sd", "fcvt {s0}, {d1}")
t("fcvtzs_d", "fcvtzs {X0}, {d1}")
t("fcvtzs_s", "fcvtzs {X0}, {s1}")
t("fcvtzs_wd", "fcvtzs {W0}, {d1}")
t("fcvtzs_ws", "fcvtzs {W0}, {s1}")
t("fmov_fs_d", "fmov {d0}, {X1}")
t("fmov_fs_s", "fmov {s0}, {W1}")
t("fmov_sf_d", "fmov {X0}, {d1}")
t("fmov_sf_s", "fmov {W0}, {s1}")
t("scvtf_si_dw", "scvtf {d0}, {W1}")
t("scvtf_si_dx", "scvtf {d0}, {X1}")
t("scvtf_si_sw", "scvtf {s0}, {W1}")
t("scvtf_si_sx", "scvtf {s0}, {X1}")

_ARR = {(0, 0): "8b", (1, 0): "16b", (0, 1): "4h", (1, 1): "8h", (0, 2): "2s", (1, 2): "4s", (0, 3): "1d", (1, 3): "2d"}


def _simd(name):
    def f(o):
        q, size, rd, rn = o
        arr = _ARR.get((q, size))
        if arr is None:
            return [["%s <q=%d size=%d: no such arrangement>" % (name, q, size)]]
        if name == "addv":
            return [["addv %s%d, v%d.%s" % ("bhsd"[size], rd, rn, arr)]]
        return [["cnt v%d.%s, v%d.%s" % (rd, arr, rn, arr)]]
    return f


tf("addv cnt", ["I", "I", "F", "F"], _simd, d0="qbit", d1="size2")
# --- atomics -----------------------------------------------------------------------------------------
for _s in ("", "a", "al", "l"):
    tw("cas" + _s + " ldadd" + _s + " swp" + _s, "{op} {x0}, {x1}, [{X2}]")
tw("ldar ldaxr ldxr stlr", "{op} {x0}, [{X1}]")
t("ldarb ldarh stlrb stlrh", "{op} {W0}, [{X1}]")
tw("stxr stlxr", "{op} {W0}, {x1}, [{X2}]")
# --- load/store pair -----------------------------------------------------------------------------------
# the unit of the immediate follows the assembler's own unit tests (test_ldp/test_stp/test_stp_pre/test_ldp_post)
RUST_PAIR = {
    "ldp": ("ldp {X0}, {X1}, [{X2}, #{3}]", "pairb8"), "ldp_w": ("ldp {W0}, {W1}, [{X2}, #{3}]", "pairb4"),
    "ldp_post": ("ldp {X0}, {X1}, [{X2}], #{3*8}", "imm7"), "ldp_post_w": ("ldp {W0}, {W1}, [{X2}], #{3*4}", "imm7"),
    "stp": ("stp {X0}, {X1}, [{X2}, #{3*8}]", "imm7"), "stp_w": ("stp {W0}, {W1}, [{X2}, #{3*4}]", "imm7"),
    "stp_post": ("stp {X0}, {X1}, [{X2}], #{3}", "pairb8"), "stp_post_w": ("stp {W0}, {W1}, [{X2}], #{3}", "pairb4"),
    "stp_pre": ("stp {X0}, {X1}, [{X2}, #{3*8}]!", "imm7"), "stp_pre_w": ("stp {W0}, {W1}, [{X2}, #{3*4}]!", "imm7"),
}
for _n, (_tpl, _d) in RUST_PAIR.items():
    t(_n, _tpl, d3=_d)
# --- load/store single ---------------------------------------------------------------------------------
_LS = {"x": ("{X0}", 8), "w": ("{W0}", 4), "d": ("{d0}", 8), "s": ("{s0}", 4)}
for _sfx, (_rt, _sc) in _LS.items():
    t("ldr_imm_" + _sfx, "ldr " + _rt + ", [{X1}, #{2}]", d2="sc%d" % _sc)
    t("str_imm_" + _sfx, "str " + _rt + ", [{X1}, #{2}]", d2="sc%d" % _sc)
t("ldr str_imm ldr_imm", "{op} {X0}, [{X1}, #{2}]", d2="sc8")
SPEC["str_imm"] = Entry(tpl="str {X0}, [{X1}, #{2}]", dom={2: "sc8"})
SPEC["ldr_imm"] = Entry(tpl="ldr {X0}, [{X1}, #{2}]", dom={2: "sc8"})
t("ldrb_imm strb_imm", "{op} {W0}, [{X1}, #{2}]", d2="sc1")
t("ldrh_imm strh_imm", "{op} {W0}, [{X1}, #{2}]", d2="sc2")
t("ldur stur", "{op} {X0}, [{X1}, #{2}]", d2="imm9")
t("ldur_w stur_w", "{op} {W0}, [{X1}, #{2}]", d2="imm9")
t("ldurb sturb ldurh sturh", "{op} {W0}, [{X1}, #{2}]", d2="imm9")
t("ldur_d stur_d", "{op} {d0}, [{X1}, #{2}]", d2="imm9")
t("ldur_s stur_s", "{op} {s0}, [{X1}, #{2}]", d2="imm9")


def _ldst_reg(name):
    mn = name.split("_")[0]
    sfx = name.split("_")[2] if name.count("_") == 2 else ""
    def f(o):
        rt, rn, rm, ext, amt = o
        if sfx in ("d", "s"):
            rts = "%s%d" % (sfx, rt)
        else:
            rts = R(rt, sfx == "w" or mn in ("ldrb", "strb", "ldrh", "strh"))
        rmw = ext in ("UXTW", "SXTW", "UXTB", "UXTH", "SXTB", "SXTH")
        if ext == "LSL":
            e = "" if amt == 0 else ", lsl %s" % imm(amt)
        else:
            e = ", %s" % ext.lower() + ("" if amt == 0 else " %s" % imm(amt))
        return [["%s %s, [%s, %s%s]" % (mn, rts, R(rn), R(rm, rmw), e)]]
    return f


tf("ldr_reg str_reg ldr_reg_w str_reg_w ldrb_reg strb_reg ldrh_reg strh_reg", ["R", "R", "R", "EXT", "I"], _ldst_reg,
   d4="extamt")
tf("ldr_reg_d str_reg_d ldr_reg_s str_reg_s", ["F", "R", "R", "EXT", "I"], _ldst_reg, d4="extamt")
# --- label forms and multi-instruction helpers (checked by symbolic evaluation of LLVM's disassembly) ----
t("b", "b #{0*4}", d0="lbl26")
SPEC["b"].kinds = ["L"]
t("bl", "bl #{0*4}", d0="lbl26")
SPEC["bl"].kinds = ["L"]
t("adr_label", "adr {X0}, #{1*4}", d1="lbladr")
SPEC["adr_label"].kinds = ["R", "L"]
tf("bc", ["C", "L"], None, sym="branch", d1="lbl19")
tf("cbz cbz_w cbnz cbnz_w", ["R", "L"], None, sym="branch", d1="lbl19")
tf("tbz tbnz", ["R", "I", "L"], None, sym="branch", d1="bitpos", d2="lbl14")
tf("mov_imm", ["R", "I"], None, sym="movimm", d1="movimm64")
tf("mov_imm_w", ["R", "I"], None, sym="movimm", d1="movimm32")
tf("ldr_mem_x ldr_mem_w ldr_mem_b str_mem_x str_mem_w str_mem_b", ["R", "R", "I", "R"], None, sym="mem", d2="memoff")
tf("ldr_mem_d ldr_mem_s str_mem_d str_mem_s", ["F", "R", "I", "R"], None, sym="mem", d2="memoff")

# ------------------------------------------------------------------------------------------------
# The Dora assembler has its own signatures for a few same-named methods; overrides (unit of an immediate follows
# the method's own unit tests in arm64.dora)
DORA_SPEC = {}


def td(names, tpl, **dom):
    for n in names.split():
        DORA_SPEC[n] = Entry(tpl=tpl.replace("{op}", n.split("_")[0]), dom={int(k[1:]): v for k, v in dom.items()})


# every load/store-pair method of the Dora assembler takes a byte offset
for _n, _tpl, _d in (("ldp_post", "ldp {X0}, {X1}, [{X2}], #{3}", "pairb8"), ("ldp_post_w", "ldp {W0}, {W1}, [{X2}], #{3}", "pairb4"),
                     ("ldp_post_d", "ldp {d0}, {d1}, [{X2}], #{3}", "pairb8"), ("stp", "stp {X0}, {X1}, [{X2}, #{3}]", "pairb8"),
                     ("stp_w", "stp {W0}, {W1}, [{X2}, #{3}]", "pairb4"), ("stp_pre", "stp {X0}, {X1}, [{X2}, #{3}]!", "pairb8"),
                     ("stp_pre_w", "stp {W0}, {W1}, [{X2}, #{3}]!", "pairb4"), ("stp_pre_d", "stp {d0}, {d1}, [{X2}, #{3}]!", "pairb8")):
    td(_n, _tpl, d3=_d)
td("ret", "ret")
td("ret_r", "ret {X0}")
td("bl_imm", "bl #{0}", d0="br26b")
td("adrp_imm", "adrp {X0}, #{1}", d1="adrpb")


def spec_for(lang, name):
    if lang == "dora" and name in DORA_SPEC:
        return DORA_SPEC[name]
    return SPEC.get(name)


# ------------------------------------------------------------------------------------------------
# operand domains: name -> (core values: likely legal, used while registers are swept; all values)

def _valid_logical():
    """value -> N:immr:imms for every (canonical) logical immediate, by *decoding* all field values
    (DecodeBitMasks of the Arm ARM), for 64 and 32 bit."""
    t64, t32 = {}, {}
    for n in (0, 1):
        for imms in range(64):
            comb = (n << 6) | ((~imms) & 0x3F)
            if comb == 0:
                continue
            ln = comb.bit_length() - 1
            if ln < 1:
                continue
            esize = 1 << ln
            levels = esize - 1
            s = imms & levels
            if s == levels:
                continue
            for immr in range(esize):
                welem = (1 << (s + 1)) - 1
                r = immr & levels
                elem = ((welem >> r) | (welem << (esize - r))) & ((1 << esize) - 1)
                v = 0
                for k in range(0, 64, esize):
                    v |= elem << k
                field = (n << 12) | (immr << 6) | imms
                t64[v] = field
                if n == 0:
                    t32[v & 0xFFFFFFFF] = field
    return t64, t32


LOGICAL64, LOGICAL32 = _valid_logical()
_VALID64 = sorted(LOGICAL64)
_VALID32 = sorted(LOGICAL32)


def domain(name, rng):
    rr = rng.randrange
    def both(core, edge):
        return (list(core), list(core) + list(edge))
    if name == "addsub":
        core = [0, 1, 2, 0x7FF, 0xFFE, 0xFFF, 0x1000, 0x2000, 0xFFF000, 0xFFE000, 0x800000] + \
               [rr(0x1000) for _ in range(5)] + [rr(0x1000) << 12 for _ in range(5)]
        edge = [0x1001, 0x1FFF, 0xFFF001, 0x1000000, 0x1001000, 0x7FF800, 0x80000000, 0xFFFFFFFF, 0xFFFFF000, -1, -4096] + \
               [rr(1 << 24) for _ in range(3)] + [rr(1 << 32) for _ in range(2)]
        return both(core, edge)
    if name == "shamt":
        return both(range(0, 32), list(range(32, 66)) + [127, 1 << 20, -1])
    if name == "extamt":
        return both(range(0, 5), [5, 6, 7, 8, 16, -1])
    if name == "bitpos":
        return both(range(0, 32), list(range(32, 66)) + [127, -1])
    if name == "imm16":
        return both([0, 1, 2, 0x7FFF, 0x8000, 0xFFFE, 0xFFFF] + [rr(0x10000) for _ in range(5)],
                    [0x10000, 0x10001, 0xFFFFFFFF, -1])
    if name == "hwshift":
        return both([0, 16], [32, 48, 64, 1, 8, 15, 17, 31, 33, 80])
    if name.startswith("sc"):
        s = int(name[2:])
        core = [0, s, 2 * s, 4094 * s, 4095 * s] + [s * rr(4096) for _ in range(6)]
        edge = [4096 * s, 4097 * s, 1, 4095, 4096, 32760, 32768, 1 << 31, (1 << 32) - s, (1 << 32) - 1, -s, -1] + \
               ([s - 1, s + 1, 4095 * s + 1, 4095 * s - 1] if s > 1 else []) + [rr(32768) for _ in range(4)]
        return both(core, edge)
    if name == "imm9":
        core = [-256, -255, -2, -1, 0, 1, 2, 254, 255] + [rr(512) - 256 for _ in range(6)]
        return both(core, [-258, -257, 256, 257, 511, 512, -512, 2**31 - 1, -2**31])
    if name == "imm7":
        core = [-64, -63, -2, -1, 0, 1, 2, 62, 63] + [rr(128) - 64 for _ in range(4)]
        return both(core, [-66, -65, 64, 65, 127, 128, -128, 2**31 - 1, -2**31])
    if name.startswith("pairb"):
        s = int(name[5:])
        core = [k * s for k in (-64, -63, -2, -1, 0, 1, 2, 62, 63)] + [s * (rr(128) - 64) for _ in range(4)]
        edge = [k * s for k in (-66, -65, 64, 65, 127, 128, -128)] + [1, -1, s - 1, s + 1, 63 * s + 1, -64 * s - 1, s // 2]
        return both(core, edge)
    if name in ("br26", "br19", "br14", "br26b"):
        n = {"br26": 25, "br19": 18, "br14": 13, "br26b": 25}[name]
        core = [-(1 << n), -(1 << n) + 1, -2, -1, 0, 1, 2, (1 << n) - 1] + [rr(1 << (n + 1)) - (1 << n) for _ in range(6)]
        edge = [-(1 << n) - 1, (1 << n), (1 << n) + 1, (1 << (n + 1)), -(1 << (n + 1)), 2**31 - 1, -2**31]
        if name == "br26b":
            core = [4 * v for v in core]
            edge = [4 * v for v in edge if abs(4 * v) < 2**31] + [1, 2, 3, -1, 6]
        return both(core, edge)
    if name in ("adr", "adrpb"):
        n = 20
        core = [-(1 << n), -(1 << n) + 1, -4, -3, -1, 0, 1, 2, 3, 4, (1 << n) - 1] + [rr(1 << 21) - (1 << 20) for _ in range(6)]
        edge = [-(1 << n) - 1, 1 << n, (1 << n) + 1, 2**31 - 1, -2**31]
        if name == "adrpb":
            core = [4096 * v for v in core]
            edge = [4096 * v for v in edge if abs(v) < 2**22] + [1, 4095, 4097, -1, 2048, 2**32 + 1, -2**33 - 4096, 2**33]
        return both(core, edge)
    if name == "dmb4":
        return both(range(16), [16, 17, 255])
    if name == "qbit":
        return both([0, 1], [2, 3])
    if name == "bit01":
        return both([0, 1], [2])
    if name == "size2":
        return both([0, 1, 2], [3, 4])
    if name == "logimm64":
        core = [_VALID64[rr(len(_VALID64))] for _ in range(24)] + \
               [1, 1 << 63, 0x5555555555555555, 0xAAAAAAAAAAAAAAAA, 0x00FF00FF00FF00FF, 0xFFFF0000FFFF0000, 0xFFFF,
                0xFFFFFFFF, 0xFFFFFFFF00000000, 0x1FFFFFFFF, M64 - 1, 0x7FFFFFFFFFFFFFFF, 0x8000000000000001]
        edge = [0, M64, 5, 0x1234, 0xFFFFFFFF00000001 ^ 2] + [rr(1 << 64) for _ in range(6)] + \
               [_VALID64[rr(len(_VALID64))] ^ (1 << rr(64)) for _ in range(8)]
        return both(core, edge)
    if name == "logimm32":
        core = [_VALID32[rr(len(_VALID32))] for _ in range(24)] + \
               [1, 1 << 31, 0x55555555, 0xAAAAAAAA, 0x00FF00FF, 0xFFFF0000, 0xFFFF, 0x7FFFFFFF, 0xFFFFFFFE, 0x80000001]
        edge = [0, 0xFFFFFFFF, 5, 0x1234, 1 << 32, 0x1FFFFFFFF, 0xFFFFFFFF000000FF, M64, 0x5555555555555555,
                0x100000001] + [rr(1 << 32) for _ in range(6)] + [_VALID32[rr(len(_VALID32))] ^ (1 << rr(32)) for _ in range(8)]
        return both(core, edge)
    if name.startswith("lbl"):
        # backward distances are real code in the harness (128 MiB for 2^25 instructions): far backward values are
        # kept to the few boundary cases, far forward ones are free
        if name == "lbladr":
            n = 18
        else:
            n = {"lbl26": 25, "lbl19": 18, "lbl14": 13}[name]
        core = [-3, -2, -1, 0, 1, 2, 3, 4, (1 << n) - 1, (1 << n) - 2] + \
               [rr(1 << n) for _ in range(4)] + [-rr(min(1 << n, 1 << 16)) for _ in range(4)] + [rr(200) - 100 for _ in range(4)]
        edge = [1 << n, (1 << n) + 1, (1 << n) + 2, 1 << (n + 1), (1 << (n + 1)) - 1, (1 << (n + 1)) + 1]
        if n <= 18:
            core += [-(1 << n), -(1 << n) + 1]
            edge += [-(1 << n) - 1, -(1 << n) - 2, -(1 << (n + 1)), -(1 << (n + 1)) + 1, -(1 << (n + 1)) - 1, -(1 << 20)]
            edge += [(1 << 25) - 1, (1 << 25), (1 << 25) + 1, 1 << 20]
            edge += [s * (rr(1 << (n + 1)) + (1 << n)) for s in (1, -1) for _ in range(2)]
        else:
            edge += [-(1 << n), -(1 << n) - 1]
        return both(core, edge)
    if name in ("movimm64", "movimm32"):
        bits = 64 if name.endswith("64") else 32
        vals = [0, 1, -1, 2, 0xFFFF, 0x10000, 0xFFFF0000, 0x12345678, -0x10000, -2, 0x7FFFFFFF, -0x80000000]
        hw = bits // 16
        for _ in range(40):
            v = 0
            for h in range(hw):
                v |= [0, 0xFFFF, rr(0x10000), rr(0x10000)][rr(4)] << (16 * h)
            vals.append(v)
        vals += [rr(1 << bits) for _ in range(10)]
        if bits == 64:
            vals += [0xFFFFFFFF, 0x100000000, 0xFFFF00000000, 0xFFFF000000000000, 2**63 - 1, -2**63, 0x0000FFFFFFFF0000,
                     0xFFFF0000FFFF0000, 0x00FF00FF00FF00FF]
        out = []
        for v in vals:
            v &= (1 << bits) - 1
            if v >= 1 << (bits - 1):
                v -= 1 << bits
            out.append(v)
        return both(out, [])
    if name == "memoff":
        core = [0, 1, 2, 3, 4, 8, 16, 255, 256, 257, -1, -8, -255, -256, -257, 4095, 4096, 4097, 4095 * 4, 4095 * 4 + 4,
                4095 * 8, 4095 * 8 + 8, 4095 * 8 + 4, 32760, 32761, 0x10000, 0x12340, 0xFFFF, 0x7FFFFFFF, -0x80000000,
                0x80000000, 0xFFFFFFFF, 0x100000000, -0x100000000, 2**63 - 1, -2**63, 0x123456789ABC, -0x123456789ABC] + \
               [8 * rr(4096) for _ in range(4)] + [4 * rr(4096) for _ in range(4)] + [rr(4096) for _ in range(4)] + \
               [rr(1 << 20) - (1 << 19) for _ in range(4)] + [rr(1 << 64) - (1 << 63) for _ in range(4)]
        return both(core, [])
    raise KeyError(name)


REG_ALL = list(range(33))
FREG_ALL = list(range(32))
SHIFTS = ["LSL", "LSR", "ASR", "ROR"]
EXTENDS = ["UXTB", "UXTH", "LSL", "UXTW", "UXTX", "SXTB", "SXTH", "SXTW", "SXTX"]
CONDS = ["EQ", "NE", "CS", "HS", "CC", "LO", "MI", "PL", "VS", "VC", "HI", "LS", "GE", "LT", "GT", "LE"]


def _rand_reg(rng, kind):
    if kind == "F":
        return rng.randrange(32)
    x = rng.randrange(40)
    return x if x < 31 else rng.randrange(31)   # plain registers; specials come from the sweeps


def gen_requests(meth, entry, rng, tier, scale=1.0):
    """-> list of operand tuples (flattened) for one method"""
    kinds = entry.kinds
    regpos = [i for i, k in enumerate(kinds) if k in ("R", "F")]
    other = [i for i, k in enumerate(kinds) if k not in ("R", "F")]
    doms = {}
    for i in other:
        k = kinds[i]
        if k == "SH":
            doms[i] = (SHIFTS[:3], SHIFTS)
        elif k == "EXT":
            doms[i] = (EXTENDS, EXTENDS)
        elif k == "C":
            doms[i] = (CONDS, CONDS)
        elif k == "B":
            doms[i] = ([False, True], [False, True])
        else:
            dn = entry.dom.get(i)
            if dn is None:
                raise KeyError("no domain for operand %d of %s" % (i, meth.name))
            core, allv = domain(dn, rng)
            lo, hi = INT_RANGE.get(meth.types[i], (-2**63, 2**64 - 1))
            core = [v for v in core if lo <= v <= hi]
            allv = [v for v in allv if lo <= v <= hi]
            doms[i] = (core or allv, allv)
    quick = tier == "quick"
    out = []

    def variant_core():
        return {i: rng.choice(doms[i][0]) for i in other}

    def regs_plain():
        return {i: _rand_reg(rng, kinds[i]) for i in regpos}

    def emit(regs, var):
        o = [None] * len(kinds)
        for i, v in regs.items():
            o[i] = v
        for i, v in var.items():
            o[i] = v
        out.append(tuple(o))

    def rdom(i):
        return REG_ALL if kinds[i] == "R" else FREG_ALL

    # (A) register sweeps
    if regpos:
        if quick or len(regpos) == 1:
            for p in regpos:
                for v in rdom(p):
                    r = regs_plain()
                    r[p] = v
                    emit(r, variant_core())
            # a covering sample of pairs
            for _ in range(int(24 * scale) if quick else 0):
                r = regs_plain()
                for p in regpos:
                    if rng.randrange(3) == 0:
                        r[p] = rng.choice(rdom(p))
                emit(r, variant_core())
        else:
            for a in range(len(regpos)):
                for b in range(a + 1, len(regpos)):
                    for v in rdom(regpos[a]):
                        for w in rdom(regpos[b]):
                            r = regs_plain()
                            r[regpos[a]] = v
                            r[regpos[b]] = w
                            emit(r, variant_core())
    # (B) operand-variant sweeps
    if other:
        lim = int((160 if quick else 4500) * scale)
        size = 1
        for i in other:
            size *= len(doms[i][1])
        variants = []
        if size <= lim:
            def rec(k, cur):
                if k == len(other):
                    variants.append(dict(cur))
                    return
                for v in doms[other[k]][1]:
                    cur[other[k]] = v
                    rec(k + 1, cur)
            rec(0, {})
        else:
            for i in other:
                for v in doms[i][1]:
                    var = variant_core()
                    var[i] = v
                    variants.append(var)
            for _ in range(max(0, lim - len(variants))):
                variants.append({i: rng.choice(doms[i][1]) for i in other})
        reps = 1 if quick else 3
        for var in variants:
            for _ in range(reps if regpos else 1):
                emit(regs_plain(), var)
    if not regpos and not other:
        emit({}, {})
    # helpers with a scratch register: the contract is scratch != base and (stores) scratch != source
    if entry.sym == "mem":
        fixed = []
        for o in out:
            o = list(o)
            while o[3] == o[1] or (meth.name.startswith("str") and kinds[0] == "R" and o[3] == o[0]):
                o[3] = rng.randrange(31)
            fixed.append(tuple(o))
        out = fixed
    return out


def op_text(kind, v):
    if kind == "B":
        return "true" if v else "false"
    return str(v)


def serialize(meth, ops):
    """operand strings for the Rust harness (MemOperand re-joined)"""
    out = []
    i = 0
    for (pn, pt) in meth.params:
        if pt == "MemOperand":
            out.append("%d:%d" % (ops[i], ops[i + 1]))
            i += 2
        else:
            out.append(str(ops[i]))
            i += 1
    return out


def _icls(v):
    if v == 0:
        return "0"
    a = abs(v)
    tz = (a & -a).bit_length() - 1
    return "%sb%dz%d" % ("-" if v < 0 else "+", a.bit_length(), min(tz, 4))


def shape(kinds, ops):
    parts = []
    for k, v in zip(kinds, ops):
        if k == "R":
            parts.append("zr" if v == 31 else "sp" if v == 32 else "g")
        elif k == "F":
            parts.append("f")
        elif k in ("I", "L"):
            parts.append(_icls(v))
        else:
            parts.append(str(v).lower())
    return ",".join(parts)


# ------------------------------------------------------------------------------------------------
# llvm-mc

class LlvmError(Exception):
    pass


def _run_mc(args, path):
    p = subprocess.run([LLVM_MC] + MC_ARGS + args + [path], capture_output=True, text=True, errors="replace")
    return p.stdout, p.stderr


_ENC = re.compile(r"encoding: \[([^\]]*)\]")


def _assemble_chunk(arg):
    path, lines = arg
    with open(path, "w") as f:
        for i, ln in enumerate(lines):
            f.write("L%d:\n%s\n" % (i, ln))
    out, err = _run_mc(["-show-encoding"], path)
    res = [None] * len(lines)
    cur = None
    for ln in out.split("\n"):
        if ln.startswith("L") and ln.endswith(":"):
            cur = int(ln[1:-1])
            continue
        m = _ENC.search(ln)
        if m and cur is not None:
            b = [int(x, 16) for x in m.group(1).split(",")]
            words = tuple(b[k] | b[k + 1] << 8 | b[k + 2] << 16 | b[k + 3] << 24 for k in range(0, len(b), 4)) if len(b) % 4 == 0 else ()
            if res[cur] is None:
                res[cur] = words
            else:
                res[cur] = res[cur] + words
    errs = {}
    for m in re.finditer(r":(\d+):\d+: error: (.*)", err):
        idx = (int(m.group(1)) - 1) // 2
        errs.setdefault(idx, m.group(2).strip())
    final = []
    for i in range(len(lines)):
        if i in errs or res[i] is None:
            final.append((None, errs.get(i, "no encoding produced")))
        else:
            final.append((res[i], None))
    os.unlink(path)
    return final


def assemble(lines, workdir, jobs=8, chunk=40000):
    """lines: iterable of single-instruction texts -> {text: (words tuple | None, error | None)}"""
    if LLVM_MC is None:
        raise LlvmError("llvm-mc not found")
    uniq = sorted(set(lines))
    chunks = [(os.path.join(workdir, "asm_%d.s" % k), uniq[k:k + chunk]) for k in range(0, len(uniq), chunk)]
    res = {}
    with ThreadPoolExecutor(max_workers=jobs) as ex:
        for (path, ls), r in zip(chunks, ex.map(_assemble_chunk, chunks)):
            for ln, v in zip(ls, r):
                res[ln] = v
    return res, len(chunks)


def _disassemble_chunk(arg):
    path, words = arg
    with open(path, "w") as f:
        for w in words:
            f.write("0x%02x 0x%02x 0x%02x 0x%02x\n" % (w & 255, (w >> 8) & 255, (w >> 16) & 255, (w >> 24) & 255))
    out, err = _run_mc(["--disassemble", "-show-encoding"], path)
    res = {}
    k = 0
    for ln in out.split("\n"):
        m = _ENC.search(ln)
        if not m:
            continue
        b = [int(x, 16) for x in m.group(1).split(",")]
        if len(b) != 4:
            continue
        w = b[0] | b[1] << 8 | b[2] << 16 | b[3] << 24
        while k < len(words) and words[k] != w:
            res[words[k]] = None
            k += 1
        if k < len(words):
            text = " ".join(ln.split("//")[0].split())
            res[w] = text
            k += 1
    while k < len(words):
        res[words[k]] = None
        k += 1
    unpredictable = len(re.findall(r"potentially undefined instruction encoding", err))
    os.unlink(path)
    return res, unpredictable


def disassemble(words, workdir, jobs=8, chunk=100000):
    """-> {word: text | None (no valid instruction)}"""
    uniq = sorted(set(words))
    chunks = [(os.path.join(workdir, "dis_%d.txt" % k), uniq[k:k + chunk]) for k in range(0, len(uniq), chunk)]
    res = {}
    with ThreadPoolExecutor(max_workers=jobs) as ex:
        for r, _ in ex.map(_disassemble_chunk, chunks):
            res.update(r)
    return res, len(chunks)


def norm_text(s):
    """normal form for comparing a request text with LLVM's disassembly (only used for requests that LLVM's
    assembler rejects as *unpredictable*, where no reference word exists)"""
    s = " ".join(s.lower().replace("\t", " ").split())
    s = re.sub(r",\s*#0\]", "]", s)
    s = re.sub(r"#0x([0-9a-f]+)", lambda m: "#%d" % int(m.group(1), 16), s)
    return s


# ------------------------------------------------------------------------------------------------
# symbolic evaluation of decoded sequences

def split_insn(text):
    text = text.strip()
    if " " not in text:
        return text, []
    mn, rest = text.split(None, 1)
    ops, depth, cur = [], 0, ""
    for ch in rest:
        if ch == "[":
            depth += 1
        elif ch == "]":
            depth -= 1
        if ch == "," and depth == 0:
            ops.append(cur.strip())
            cur = ""
        else:
            cur += ch
    if cur.strip():
        ops.append(cur.strip())
    return mn, ops


def _immval(s):
    if not s.startswith("#"):
        raise ValueError(s)
    return int(s[1:], 0)


def _lsl(s):
    m = re.match(r"lsl #(\d+)$", s)
    if not m:
        raise ValueError(s)
    return int(m.group(1))


def eval_const_step(mn, ops, state):
    """state: {xN: 64-bit constant}; applies one constant-building instruction; returns written register number or
    raises ValueError for anything else"""
    dst = ops[0]
    m = re.match(r"([xw])(\d+)$", dst)
    if not m:
        raise ValueError("destination %s" % dst)
    w = m.group(1) == "w"
    n = int(m.group(2))
    mask = 0xFFFFFFFF if w else M64
    if mn == "mov" and len(ops) == 2 and ops[1].startswith("#"):
        state[n] = _immval(ops[1]) & mask
    elif mn in ("movz", "movn", "movk") and len(ops) in (2, 3):
        v = _immval(ops[1])
        sh = _lsl(ops[2]) if len(ops) == 3 else 0
        if mn == "movz":
            state[n] = (v << sh) & mask
        elif mn == "movn":
            state[n] = ~(v << sh) & mask
        else:
            if n not in state:
                raise ValueError("movk on unknown value")
            state[n] = (state[n] & ~(0xFFFF << sh) | (v << sh)) & mask
    elif mn == "orr" and len(ops) == 3 and ops[1] in ("xzr", "wzr") and ops[2].startswith("#"):
        state[n] = _immval(ops[2]) & mask
    else:
        raise ValueError("not a constant-building instruction: %s %s" % (mn, ", ".join(ops)))
    return n, w


def check_movimm(name, ops, texts):
    """mov_imm / mov_imm_w: the sequence may only write rd and must leave the requested constant there"""
    rd, want = ops
    w = name.endswith("_w")
    state = {}
    if not texts:
        return "no-instruction", "nothing emitted"
    for tx in texts:
        mn, o = split_insn(tx)
        try:
            n, ww = eval_const_step(mn, o, state)
        except ValueError as e:
            return "unexpected-instruction", str(e)
        if n != rd:
            return "wrong-register", "writes register %d instead of %d" % (n, rd)
        if ww != w:
            return "wrong-width", "%s uses a %s destination" % (name, "w" if ww else "x")
    mask = 0xFFFFFFFF if w else M64
    if state.get(rd) != want & mask:
        return "wrong-value", "register ends as %#x, requested %#x" % (state.get(rd, -1), want & mask)
    return None


_MEM = {"x": ("x", {"ldr", "ldur"}, {"str", "stur"}), "w": ("w", {"ldr", "ldur"}, {"str", "stur"}),
        "b": ("w", {"ldrb", "ldurb"}, {"strb", "sturb"}), "d": ("d", {"ldr", "ldur"}, {"str", "stur"}),
        "s": ("s", {"ldr", "ldur"}, {"str", "stur"})}


def check_mem(name, ops, texts):
    """ldr_mem_* / str_mem_*: last instruction accesses [base + offset] with the right width and register;
    everything before may only build a constant in the scratch register"""
    rt, base, off, scratch = ops
    load = name.startswith("ldr")
    pfx, lmn, smn = _MEM[name[-1]]
    if not texts:
        return "no-instruction", "nothing emitted"
    state = {}
    for tx in texts[:-1]:
        mn, o = split_insn(tx)
        try:
            n, ww = eval_const_step(mn, o, state)
        except ValueError as e:
            return "unexpected-instruction", str(e)
        if n != scratch or ww:
            return "wrong-register", "helper instruction writes %s%d, scratch is x%d" % ("w" if ww else "x", n, scratch)
    mn, o = split_insn(texts[-1])
    if mn not in (lmn if load else smn):
        return "wrong-access", "last instruction is `%s`" % texts[-1]
    if len(o) != 2 or not o[1].startswith("[") or not o[1].endswith("]"):
        return "wrong-addressing", "`%s` is not a plain base+offset access" % texts[-1]
    want_rt = ("%s%d" % (pfx, rt)) if pfx in ("d", "s") else R(rt, pfx == "w")
    if o[0] != want_rt:
        return "wrong-register", "transfers %s, requested %s" % (o[0], want_rt)
    if not load and pfx in ("x", "w") and rt in state:
        return "clobbered-source", "source register was overwritten by the helper"
    parts = [p.strip() for p in o[1][1:-1].split(",")]
    if parts[0] != R(base):
        return "wrong-base", "base %s, requested %s" % (parts[0], R(base))
    if base in state:
        return "clobbered-base", "base register was overwritten by the helper"
    try:
        if len(parts) == 1:
            eff = 0
        elif parts[1].startswith("#"):
            if len(parts) != 2:
                raise ValueError(o[1])
            eff = _immval(parts[1])
        else:
            m = re.match(r"([xw])(\d+)$", parts[1])
            if not m:
                raise ValueError(o[1])
            n = int(m.group(2))
            if n not in state:
                return "unknown-index", "index register %s holds no known constant" % parts[1]
            v = state[n]
            sh = 0
            ext = "lsl"
            if len(parts) == 3:
                mm = re.match(r"(lsl|uxtw|sxtw|sxtx)(?: #(\d+))?$", parts[2])
                if not mm:
                    raise ValueError(o[1])
                ext = mm.group(1)
                sh = int(mm.group(2) or 0)
            if m.group(1) == "w":
                v &= 0xFFFFFFFF
                if ext == "sxtw" and v >> 31:
                    v -= 1 << 32
            eff = v << sh
    except ValueError as e:
        return "wrong-addressing", "cannot evaluate address `%s`" % e
    if (eff - off) & M64:
        return "wrong-address", "accesses base%+d, requested base%+d" % (eff if eff < 1 << 63 else eff - (1 << 64), off)
    return None


_CC_INV = {"eq": "ne", "ne": "eq", "hs": "lo", "lo": "hs", "mi": "pl", "pl": "mi", "vs": "vc", "vc": "vs", "hi": "ls",
           "ls": "hi", "ge": "lt", "lt": "ge", "gt": "le", "le": "gt"}
_CC_CANON = {"cs": "hs", "cc": "lo"}


def _pred_of(text):
    """conditional branch text -> (predicate, byte offset) or None"""
    mn, o = split_insn(text)
    try:
        if mn in ("cbz", "cbnz") and len(o) == 2:
            return (("z" if mn == "cbz" else "nz", o[0]), _immval(o[1]))
        if mn in ("tbz", "tbnz") and len(o) == 3:
            reg = int(re.match(r"[xw](\d+|zr)$", o[0]).group(1).replace("zr", "31"))
            return (("b0" if mn == "tbz" else "b1", reg, _immval(o[1])), _immval(o[2]))
        if mn.startswith("b.") and len(o) == 1:
            return (("cc", mn[2:]), _immval(o[0]))
    except (ValueError, AttributeError):
        return None
    return None


def _neg(p):
    if p[0] in ("z", "nz"):
        return ("nz" if p[0] == "z" else "z",) + p[1:]
    if p[0] in ("b0", "b1"):
        return ("b1" if p[0] == "b0" else "b0",) + p[1:]
    return ("cc", _CC_INV[p[1]])


def check_branch(name, ops, texts):
    """bc / cbz / cbnz / tbz / tbnz to a label: control reaches start+4*dist exactly when the requested predicate
    holds and otherwise falls out of the emitted sequence"""
    if name == "bc":
        c = ops[0].lower()
        want = ("cc", _CC_CANON.get(c, c))
        dist = ops[1]
    elif name.startswith("cb"):
        w = name.endswith("_w")
        want = ("nz" if name.startswith("cbnz") else "z", R(ops[0], w))
        dist = ops[1]
    else:
        want = ("b1" if name == "tbnz" else "b0", ops[0], ops[1])
        dist = ops[2]
    target = 4 * dist
    if not texts:
        return "no-instruction", "nothing emitted"
    got = _pred_of(texts[0])
    if got is None:
        return "unexpected-instruction", "first instruction is `%s`" % texts[0]
    pred, off = got
    end = 4 * len(texts)
    if pred == want:
        if off != target:
            return "wrong-target", "taken branch goes to %+d, label is at %+d" % (off, target)
        for tx in texts[1:]:
            if tx != "nop":
                return "unexpected-instruction", "`%s` after the branch" % tx
        return None
    if pred == _neg(want):
        if len(texts) != 2:
            return "wrong-length", "inverted branch without a following jump"
        if off != end:
            return "wrong-target", "inverted branch skips to %+d, the sequence ends at %+d" % (off, end)
        mn, o = split_insn(texts[1])
        if mn != "b" or len(o) != 1:
            return "unexpected-instruction", "`%s` after the inverted branch" % texts[1]
        if 4 + _immval(o[0]) != target:
            return "wrong-target", "jump goes to %+d, label is at %+d" % (4 + _immval(o[0]), target)
        return None
    return "wrong-predicate", "`%s` does not test the requested predicate %s" % (texts[0], (want,))


SYM_CHECK = {"movimm": check_movimm, "mem": check_mem, "branch": check_branch}


def sym_legal(entry, kinds, ops):
    """own (documented) legality rule for the helpers that have no single reference text: all registers general
    purpose (base may be sp), bit < 64; everything else can always be realised"""
    for i, (k, v) in enumerate(zip(kinds, ops)):
        if k == "R" and v > 30:
            if entry.sym == "mem" and i == 1 and v == 32:
                continue
            return False
    if entry.sym == "branch":
        if not (-(1 << 25) < ops[-1] <= (1 << 25)):
            return False
        if len(ops) == 3 and not (0 <= ops[1] < 64):      # tbz/tbnz bit number
            return False
    return True


# ------------------------------------------------------------------------------------------------
# reference implementations of the immediate predicates (harness mode `imm`)

def ref_halfwords(v, size):
    return [(v >> (16 * k)) & 0xFFFF for k in range(size // 16)]


def ref_imm_line(v):
    """expected columns of one `imm` line for value v: logical field 64, logical field 32 (None = refuse),
    fits_movz 64/32, fits_movn 64/32, shift_movz, shift_movn, empty halfwords 64/32, fits_addsub_imm(u32),
    fits_ldst_unscaled(i32)"""
    inv = ~v & M64
    def nz(x, size):
        return sum(1 for h in ref_halfwords(x, size) if h)
    def shift(x):
        for k in range(4):
            if (x >> (16 * k)) & 0xFFFF:
                return 16 * k
        return 0
    u32 = v & 0xFFFFFFFF
    i32 = u32 - (1 << 32) if u32 >> 31 else u32
    return (LOGICAL64.get(v), LOGICAL32.get(v) if v < (1 << 32) else None,
            int(nz(v, 64) <= 1), int(nz(v, 32) <= 1), int(nz(inv, 64) <= 1), int(nz(inv, 32) <= 1),
            shift(v), shift(inv), 4 - nz(v, 64), 2 - nz(v, 32), int(u32 < 4096), int(-256 <= i32 <= 255))


FIELD_REGIONS = [("b31", 31, 31), ("b30", 30, 30), ("b29", 29, 29), ("b28-24", 24, 28), ("b23-22", 22, 23),
                 ("b21", 21, 21), ("b20-16", 16, 20), ("b15-10", 10, 15), ("b9-5", 5, 9), ("b4-0", 0, 4)]


def diff_regions(a, b):
    x = a ^ b
    return "+".join(n for (n, lo, hi) in FIELD_REGIONS if (x >> lo) & ((1 << (hi - lo + 1)) - 1))
