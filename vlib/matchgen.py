"""Finite scrutinee types, pattern matrices, a brute-force oracle and Dora rendering for C11.

Nothing here is derived from dora-frontend/src/exhaustiveness.rs: ground truth is obtained by enumerating *all* values of the
scrutinee type and testing every pattern against every value.

Types   ('bool',) | ('lit', kind, (valuekey..))            values of a lit type: the listed literals + one fresh value
        ('enum', style, name, ((vname, (fieldtypes..)), ..))  style: enum | option | result | struct
        ('tuple', (types..))
Values  False/True | ('L', i) | (variant_index, f0, f1, ..) | ('T', f0, f1, ..)
Pattern ('_',) | ('bind', name) | ('lit', value, spelling) | ('ctor', variant_index, (subpatterns..), rest)
        ('tup', (subpatterns..), rest) | ('alt', (patterns..))
        rest = None or (start, count): subpatterns[start:start+count] (all wildcards) are written as one `..`
Paths   tuples of child indices (ctor/tup: field index, alt: alternative index)
"""
import itertools
import re

BOOL = ("bool",)
WILD = ("_",)
MAXVALUES = 4096
STRUCTS = ("struct", "nstruct", "class", "nclass")      # one constructor named like the type; n* = named fields f0, f1, ..
NAMED = ("nstruct", "nclass")


def ctor_prefix(t, vi):
    style = t[1]
    if style == "enum":
        return t[2] + "::" + t[3][vi][0]
    return t[2] if style in STRUCTS else t[3][vi][0]


# ----------------------------------------------------------------------------------------------------------- literals
# kind -> list of (valuekey, [spellings usable as a pattern]); the first spelling is also the expression spelling
LITS = {
    "Int32": [
        (0, ["0i32", "0x0i32", "-0i32", "K_I32_0"]), (1, ["1i32", "0x1i32", "0b1i32"]), (2, ["2i32", "0x2i32"]), (3, ["3i32"]),
        (4, ["4i32", "0x4i32"]), (5, ["5i32"]), (-1, ["-1i32"]), (-2, ["-2i32", "-2_i32"]),
        (2147483647, ["2147483647i32", "0x7FFFFFFFi32", "2_147_483_647i32", "K_I32_MAX"]),
        (2147483646, ["2147483646i32"]), (2147483645, ["2147483645i32"]), (-2147483646, ["-2147483646i32"]), (-2147483648, ["-2147483648i32", "K_I32_MIN"]), (-2147483647, ["-2147483647i32"]),
        (127, ["127i32"]), (128, ["128i32", "0x80i32"]), (16, ["16i32", "0x10i32", "1_6i32"]),
    ],
    "Int64": [
        (0, ["0i64", "0", "-0", "0x0"]), (1, ["1i64", "1", "K_I64_1"]), (2, ["2", "2i64"]), (3, ["3"]), (4, ["4", "0x4"]), (-1, ["-1", "-1i64"]),
        (9223372036854775807, ["9223372036854775807", "0x7FFFFFFFFFFFFFFF", "9223372036854775807i64"]),
        (-9223372036854775808, ["-9223372036854775808", "K_I64_MIN"]), (4294967296, ["4294967296", "0x100000000i64"]),
        (2147483648, ["2147483648"]), (-2147483649, ["-2147483649"]), (4294967297, ["4294967297"]), (2147483647, ["2147483647"]),
        (2147483649, ["2147483649"]), (9223372036854775806, ["9223372036854775806"]), (9223372036854775805, ["9223372036854775805"]),
        (-9223372036854775807, ["-9223372036854775807"]), (-9223372036854775806, ["-9223372036854775806"]), (-2, ["-2"]),
    ],
    "UInt8": [
        (0, ["0u8", "0x0u8"]), (1, ["1u8"]), (2, ["2u8"]), (3, ["3u8"]), (127, ["127u8", "0x7Fu8"]), (128, ["128u8", "0x80u8"]),
        (253, ["253u8"]), (254, ["254u8"]), (255, ["255u8", "0xFFu8", "K_U8_MAX"]),
    ],
    "Char": [
        ("a", ["'a'", "K_CH_A"]), ("b", ["'b'"]), ("A", ["'A'"]), ("0", ["'0'"]), (" ", ["' '"]), ("\n", ["'\\n'"]), ("'", ["'\\''"]),
        ("\\", ["'\\\\'"]), ("\0", ["'\\0'"]), ("\t", ["'\\t'"]), ('"', ["'\"'", "'\\\"'"]),
    ],
    "String": [
        ("", ['""']), ("a", ['"a"']), ("b", ['"b"']), ("ab", ['"ab"']), ("a\n", ['"a\\n"']), ('"', ['"\\""']), ("A", ['"A"']),
        ("aa", ['"aa"']), (" ", ['" "']), ("a\0b", ['"a\\0b"']), ("a\0c", ['"a\\0c"']),
    ],
    "Float64": [
        (0.0, ["0.0", "-0.0", "0.00"]), (1.5, ["1.5", "1.50"]), (-1.5, ["-1.5"]), (1.0, ["1.0"]), (0.1, ["0.1"]), (1e10, ["10000000000.0"]),
    ],
}
FRESH = {"Int32": (77777, "77777i32"), "Int64": (123456789012, "123456789012"), "UInt8": (77, "77u8"), "Char": ("Z", "'Z'"),
         "String": ("zz#", '"zz#"'), "Float64": (99.25, "99.25")}
DENSE = {"Int32": [0, 1, 2, 3, 4, 5], "Int64": [0, 1, 2, 3, 4], "UInt8": [0, 1, 2, 3]}
# runs of neighbouring values (jump-table lowering), some of them at the ends of the value range
RUNS = {
    "Int32": [[0, 1, 2, 3, 4, 5], [2, 3, 4, 5], [-2, -1, 0, 1, 2], [2147483645, 2147483646, 2147483647], [-2147483648, -2147483647, -2147483646],
              [1, 2, 4, 5], [0, 2, 4, 16], [127, 128, 16]],
    "Int64": [[0, 1, 2, 3, 4], [-2, -1, 0, 1], [2147483647, 2147483648, 2147483649], [9223372036854775805, 9223372036854775806, 9223372036854775807],
              [-9223372036854775808, -9223372036854775807, -9223372036854775806], [1, 2, 4], [4294967296, 4294967297, 1]],
    "UInt8": [[0, 1, 2, 3], [253, 254, 255], [1, 2, 3], [127, 128, 0], [0, 2, 3, 1]],
}
CONSTS = [
    "const K_I32_0: Int32 = 0i32;", "const K_I32_MAX: Int32 = 2147483647i32;", "const K_I32_MIN: Int32 = -2147483648i32;",
    "const K_I64_1: Int64 = 1;", "const K_I64_MIN: Int64 = -9223372036854775808;", "const K_U8_MAX: UInt8 = 255u8;",
    "const K_CH_A: Char = 'a';", "const K_T: Bool = true;", "const K_F: Bool = false;",
]
_LITMAP = {k: dict(v) for k, v in LITS.items()}


# -------------------------------------------------------------------------------------------------------------- types
def enum_ty(style, name, variants):
    return ("enum", style, name, tuple((v, tuple(fs)) for v, fs in variants))


def option_ty(t):
    return enum_ty("option", "Option[%s]" % type_text(t), [("Some", [t]), ("None", [])])


def result_ty(a, b):
    return enum_ty("result", "Result[%s, %s]" % (type_text(a), type_text(b)), [("Ok", [a]), ("Err", [b])])


def tuple_ty(ts):
    return ("tuple", tuple(ts))


def type_text(t):
    k = t[0]
    if k == "bool":
        return "Bool"
    if k == "lit":
        return t[1]
    if k == "enum":
        return t[2]
    return "(" + ", ".join(type_text(x) for x in t[1]) + ")"


def nvalues(t):
    k = t[0]
    if k == "bool":
        return 2
    if k == "lit":
        return len(t[2]) + 1
    if k == "enum":
        n = 0
        for _, fs in t[3]:
            m = 1
            for f in fs:
                m *= nvalues(f)
            n += m
        return n
    m = 1
    for f in t[1]:
        m *= nvalues(f)
    return m


def depth(t):
    k = t[0]
    if k in ("bool", "lit"):
        return 0
    if k == "enum":
        return max([0] + [1 + depth(f) for _, fs in t[3] for f in fs])
    return 1 + max([0] + [depth(f) for f in t[1]])


_VALS = {}


def values(t):
    """All values of t, in the order the generated Dora function mk_<t>(i) constructs them."""
    r = _VALS.get(t)
    if r is not None:
        return r
    k = t[0]
    if k == "bool":
        r = [False, True]
    elif k == "lit":
        r = [("L", i) for i in range(len(t[2]) + 1)]
    elif k == "enum":
        r = []
        for vi, (_, fs) in enumerate(t[3]):
            for combo in itertools.product(*[values(f) for f in fs]):
                r.append((vi,) + combo)
    else:
        r = [("T",) + c for c in itertools.product(*[values(f) for f in t[1]])]
    if len(_VALS) > 4000:
        _VALS.clear()
    _VALS[t] = r
    return r


def contains_kind(t, kind):
    if t[0] == kind:
        return True
    if t[0] == "enum":
        return any(contains_kind(f, kind) for _, fs in t[3] for f in fs)
    if t[0] == "tuple":
        return any(contains_kind(f, kind) for f in t[1])
    return False


def has_style(t, styles):
    if t[0] == "enum":
        return t[1] in styles or any(has_style(f, styles) for _, fs in t[3] for f in fs)
    if t[0] == "tuple":
        return any(has_style(f, styles) for f in t[1])
    return False


def lit_expr(kind, key):
    if key == FRESH[kind][0]:
        return FRESH[kind][1]
    return _LITMAP[kind][key][0]


def value_text(v, t):
    """Dora expression text of a value (for messages)."""
    k = t[0]
    if k == "bool":
        return "true" if v else "false"
    if k == "lit":
        i = v[1]
        return lit_expr(t[1], t[2][i]) if i < len(t[2]) else FRESH[t[1]][1]
    if k == "enum":
        vn, fs = t[3][v[0]]
        nm = ["f%d = " % j if t[1] in NAMED else "" for j in range(len(fs))]
        return ctor_prefix(t, v[0]) + ("(" + ", ".join(n + value_text(x, f) for n, x, f in zip(nm, v[1:], fs)) + ")" if fs else "")
    return "(" + ", ".join(value_text(x, f) for x, f in zip(v[1:], t[1])) + ")"


# ----------------------------------------------------------------------------------------------------------- patterns
def matches(p, v, t):
    k = p[0]
    if k == "_" or k == "bind":
        return True
    if k == "lit":
        if t[0] == "bool":
            return p[1] == v
        i = v[1]
        return i < len(t[2]) and t[2][i] == p[1]
    if k == "ctor":
        if v[0] != p[1]:
            return False
        fs = t[3][p[1]][1]
        for j, q in enumerate(p[2]):
            if q[0] != "_" and not matches(q, v[1 + j], fs[j]):
                return False
        return True
    if k == "tup":
        fs = t[1]
        for j, q in enumerate(p[1]):
            if q[0] != "_" and not matches(q, v[1 + j], fs[j]):
                return False
        return True
    for q in p[1]:      # alt
        if matches(q, v, t):
            return True
    return False


def mask(p, t):
    """Bit i set iff pattern p matches values(t)[i] -- plain enumeration."""
    m = 0
    bit = 1
    for v in values(t):
        if matches(p, v, t):
            m |= bit
        bit <<= 1
    return m


def bindings(p, v, t, out):
    """Bound Bool variables in binding order, for a value that matches p: the first matching alternative binds."""
    k = p[0]
    if k == "bind":
        if t[0] == "bool":
            out.append((p[1], v))
    elif k == "ctor":
        fs = t[3][p[1]][1]
        for j, q in enumerate(p[2]):
            bindings(q, v[1 + j], fs[j], out)
    elif k == "tup":
        for j, q in enumerate(p[1]):
            bindings(q, v[1 + j], t[1][j], out)
    elif k == "alt":
        for q in p[1]:
            if matches(q, v, t):
                bindings(q, v, t, out)
                return


def bool_binders(p, t, out):
    """Names of Bool-typed bindings in source order (the first alternative of an alt names them all)."""
    k = p[0]
    if k == "bind":
        if t[0] == "bool":
            out.append(p[1])
    elif k == "ctor":
        fs = t[3][p[1]][1]
        for j, q in enumerate(p[2]):
            bool_binders(q, fs[j], out)
    elif k == "tup":
        for j, q in enumerate(p[1]):
            bool_binders(q, t[1][j], out)
    elif k == "alt":
        bool_binders(p[1][0], t, out)


def children(p):
    k = p[0]
    if k == "ctor":
        return p[2]
    if k in ("tup", "alt"):
        return p[1]
    return ()


def get(p, path):
    for i in path:
        p = children(p)[i]
    return p


def subst(p, path, new):
    if not path:
        return new
    i = path[0]
    k = p[0]
    ch = list(children(p))
    ch[i] = subst(ch[i], path[1:], new)
    if k == "ctor":
        return ("ctor", p[1], tuple(ch), p[3])
    if k == "tup":
        return ("tup", tuple(ch), p[2])
    return ("alt", tuple(ch))


def outer_alts(p, path=()):
    """Paths of the alt nodes below (or at) `path` that are not inside another alt node below `path`."""
    out = []

    def walk(q, pa):
        if q[0] == "alt":
            out.append(pa)
            return
        for i, c in enumerate(children(q)):
            walk(c, pa + (i,))
    walk(get(p, path), path)
    return out


def all_paths(p, path=()):
    yield path, p
    for i, c in enumerate(children(p)):
        for x in all_paths(c, path + (i,)):
            yield x


def features(p, acc=None, d=0, in_alt=False):
    """Shape features of one pattern: set of flags and the nesting depth."""
    if acc is None:
        acc = {"flags": set(), "depth": 0}
    k = p[0]
    acc["depth"] = max(acc["depth"], d)
    if k == "alt":
        acc["flags"].add("nestedalt" if d > 0 else "alt")
        for q in p[1]:
            features(q, acc, d, True)
        return acc
    if k == "bind":
        acc["flags"].add("bind")
        if in_alt:
            acc["flags"].add("altbind")
    if k == "lit" and not isinstance(p[1], bool):
        acc["flags"].add("lit")
    if k in ("ctor", "tup"):
        rest = p[3] if k == "ctor" else p[2]
        n = len(children(p))
        if rest is not None and rest[0] == "named":
            acc["flags"].add("named")
        elif rest is not None:
            if k == "tup":
                acc["flags"].add("rest-tuple")
            elif rest[0] + rest[1] == n:
                acc["flags"].add("rest-trailing")
            else:
                acc["flags"].add("rest-nontrailing")
        for q in children(p):
            features(q, acc, d + 1, in_alt)
    return acc


# ---------------------------------------------------------------------------------------------------------- rendering
def render(p, t, spans=None, path=(), off=0):
    """Pattern text; spans[path] = (offset, length) of every node in the text."""
    k = p[0]
    if k == "_":
        s = "_"
    elif k == "bind":
        s = p[1]
    elif k == "lit":
        s = p[2]
    elif k == "alt":
        parts = []
        o = off
        for i, q in enumerate(p[1]):
            x = render(q, t, spans, path + (i,), o)
            parts.append(x)
            o += len(x) + 3
        s = " | ".join(parts)
    else:
        if k == "ctor":
            vn, fs = t[3][p[1]]
            pre = ctor_prefix(t, p[1])
            subs, rest = p[2], p[3]
            if not fs:
                s = pre
                if spans is not None:
                    spans[path] = (off, len(s))
                return s
            if rest is not None and rest[0] == "named":      # ("named", order of the fields written, trailing `..`)
                parts = []
                o = off + len(pre) + 1
                for j in rest[1]:
                    x = render(subs[j], fs[j], spans, path + (j,), o + len("f%d = " % j))
                    parts.append("f%d = %s" % (j, x))
                    o += len(parts[-1]) + 2
                if rest[2]:
                    parts.append("..")
                s = pre + "(" + ", ".join(parts) + ")"
                if spans is not None:
                    spans[path] = (off, len(s))
                return s
        else:
            pre, fs, subs, rest = "", t[1], p[1], p[2]
        parts = []
        o = off + len(pre) + 1
        j = 0
        n = len(subs)
        rest_done = rest is None
        while True:
            if not rest_done and j == rest[0]:
                parts.append("..")
                o += 4
                j += rest[1]
                rest_done = True
                continue
            if j >= n:
                break
            x = render(subs[j], fs[j], spans, path + (j,), o)
            parts.append(x)
            o += len(x) + 2
            j += 1
        s = pre + "(" + ", ".join(parts) + ")"
    if spans is not None:
        spans[path] = (off, len(s))
    return s


class Match:
    """One generated match: scrutinee type, arms [(pattern, guard index or None)]."""
    __slots__ = ("ty", "arms", "family", "origin")

    def __init__(self, ty, arms, family="core", origin=""):
        self.ty, self.arms, self.family, self.origin = ty, arms, family, origin

    def nguards(self):
        return sum(1 for _, g in self.arms if g is not None)

    def shape(self):
        """(coarse class used in violation keys, finer class used in the evidence table)"""
        flags = set()
        d = 0
        for p, g in self.arms:
            f = features(p)
            flags |= f["flags"]
            d = max(d, f["depth"])
            if g is not None:
                flags.add("guard")
        if contains_kind(self.ty, "lit"):
            flags.add("lit")
        for top in ("rest-nontrailing", "rest-tuple", "rest-trailing", "named", "nestedalt", "lit", "alt", "guard"):
            if top in flags:
                coarse = top
                break
        else:
            coarse = "plain"
        fine = "rows%d/d%d/%s" % (len(self.arms), d, "+".join(sorted(flags - {"bind", "altbind"})) or "plain")
        return coarse, fine

    def canon(self):
        """Identity of (type shape, pattern matrix): binding names and enum names are irrelevant."""
        def ct(t):
            if t[0] == "enum":
                return ("enum", t[1], tuple((len(fs),) + tuple(ct(f) for f in fs) for _, fs in t[3]))
            if t[0] == "tuple":
                return ("tuple", tuple(ct(f) for f in t[1]))
            return t

        def cp(p):
            if p[0] == "bind":
                return ("bind",)
            if p[0] == "ctor":
                return ("ctor", p[1], tuple(cp(q) for q in p[2]), p[3])
            if p[0] == "tup":
                return ("tup", tuple(cp(q) for q in p[1]), p[2])
            if p[0] == "alt":
                return ("alt", tuple(cp(q) for q in p[1]))
            return p
        return (ct(self.ty), tuple((cp(p), g is not None) for p, g in self.arms))

    def fn_text(self, name):
        """Lines of `fn name(x: T): Int32 { match x { .. } }`; returns (lines, match_line_offset, [(arm_line_offset, spans, text)])."""
        lines = ["fn %s(x: %s): Int32 {" % (name, type_text(self.ty)), "  match x {"]
        arms = []
        for i, (p, g) in enumerate(self.arms):
            spans = {}
            txt = render(p, self.ty, spans)
            bs = []
            bool_binders(p, self.ty, bs)
            body = "%di32" % i if not bs else "{ %s %di32 }" % (" ".join("lb(%s);" % b for b in bs), i)
            arms.append((len(lines), spans, txt))
            lines.append("    %s%s => %s," % (txt, " if g(%di32)" % g if g is not None else "", body))
        lines += ["  }", "}"]
        return lines, 1, arms

    def describe(self):
        return "\n".join(self.fn_text("m")[0])


PAT_COL = 5        # 1-based column where an arm's pattern starts in fn_text
SCRUT_COL = 9      # 1-based column of the scrutinee `x` in `  match x {`


# ------------------------------------------------------------------------------------------------------------- oracle
YES = "YES"


def _union_all(results):
    """results: [(YES | set(paths), path)]: all YES -> YES; else the YES entries are flagged at their own path."""
    if all(r is YES for r, _ in results):
        return YES
    out = set()
    for r, pa in results:
        if r is YES:
            out.add(pa)
        else:
            out |= r
    return out


def _useless(P, t, focus, C):
    """Which parts of pattern P (only alternatives at or below `focus` are examined) are redundant given the covered set C."""
    nodes = outer_alts(P, focus)
    if not nodes:
        return YES if mask(P, t) & ~C == 0 else set()
    cols = []
    for N in nodes:
        alts = get(P, N)[1]
        Cj = C
        res = []
        for k, a in enumerate(alts):
            Pk = subst(P, N, a)
            r = _useless(Pk, t, N, Cj)
            if r is not YES:       # paths inside Pk below N correspond to N + (k,) + .. in P
                r = set(N + (k,) + pa[len(N):] for pa in r)
            res.append((r, N + (k,)))
            Cj |= mask(Pk, t)
        cols.append((_union_all(res), N))
    return _union_all(cols)


def sound_flag(P, t, X, C):
    """Is the alternative at path X really redundant under left-to-right expansion of the alternatives of P, given C?"""
    chain = []
    for i in range(len(X)):
        if get(P, X[:i])[0] == "alt":
            chain.append((X[:i], X[i]))
    if not chain or chain[-1][0] != X[:-1]:
        return None            # not an alternative at all
    covered = C
    cur = P
    shift = []                 # alt paths already collapsed (each removes one path element)
    for N, k in chain:
        # position of N in `cur`: drop the alternative indices of the enclosing, already collapsed alt nodes
        drop = set(len(n) for n, _ in shift)
        Nc = tuple(x for i, x in enumerate(N) if i not in drop)
        alts = get(cur, Nc)[1]
        if k > 0:
            before = alts[0] if k == 1 else ("alt", tuple(alts[:k]))
            covered |= mask(subst(cur, Nc, before), t)
        cur = subst(cur, Nc, alts[k])
        shift.append((N, k))
    return mask(cur, t) & ~covered == 0


class Verdict:
    __slots__ = ("n", "all", "uncovered", "arm_masks", "arm_cov", "reports")


def analyse(m):
    """Ground truth for a match by enumeration: uncovered values and, per arm, the expected redundancy report."""
    t = m.ty
    n = len(values(t))
    v = Verdict()
    v.n = n
    v.all = (1 << n) - 1
    C = 0
    v.arm_masks, v.arm_cov, v.reports = [], [], []
    for p, g in m.arms:
        am = mask(p, t)
        v.arm_masks.append(am)
        v.arm_cov.append(C)
        if p[0] != "alt" and not outer_alts(p):
            v.reports.append(YES if am & ~C == 0 else set())
        else:
            v.reports.append(_useless(p, t, (), C))
        if g is None:
            C |= am
    v.uncovered = v.all & ~C
    return v


def select_arm(m, vi, gmask):
    """Run-time semantics: (arm index or None, guard log, bound Bool values) for value index vi and guard results gmask."""
    t = m.ty
    val = values(t)[vi]
    log = []
    for i, (p, g) in enumerate(m.arms):
        if not matches(p, val, t):
            continue
        if g is not None:
            log.append("g%d;" % g)
            if not (gmask >> g) & 1:
                continue
        bs = []
        bindings(p, val, t, bs)
        for _, b in bs:
            log.append("b1;" if b else "b0;")
        return i, "".join(log)
    return None, "".join(log)


# ------------------------------------------------------------------------------------------------------------ witness
class WitnessError(Exception):
    pass


_TOK = re.compile(r"\s*(::|[(),=_]|\"(?:[^\"\\]|\\.)*\"|-?[0-9][0-9a-fA-FxX_.]*|[A-Za-z][A-Za-z0-9_]*|\S)")


def parse_witnesses(text, t):
    """`Missing patterns: <text>` -> list of patterns over t. Raises WitnessError when the text does not denote patterns of t."""
    toks = _TOK.findall(text)
    pos = [0]

    def peek():
        return toks[pos[0]] if pos[0] < len(toks) else None

    def eat(x=None):
        tk = peek()
        if tk is None or (x is not None and tk != x):
            raise WitnessError("expected %r at token %d of %r" % (x, pos[0], text))
        pos[0] += 1
        return tk

    def plist(types, what, named=False):
        eat("(")
        out = []
        seen = {}
        while peek() != ")":
            if named:       # `f1 = pattern`
                nm = eat()
                mm = re.match(r"f(\d+)$", nm)
                if not mm or int(mm.group(1)) >= len(types) or int(mm.group(1)) in seen:
                    raise WitnessError("bad field name %r for %s in %r" % (nm, what, text))
                eat("=")
                seen[int(mm.group(1))] = pat(types[int(mm.group(1))])
                out.append(None)
            else:
                if len(out) >= len(types):
                    raise WitnessError("too many sub-patterns for %s in %r" % (what, text))
                out.append(pat(types[len(out)]))
            if peek() == ",":
                eat(",")
        eat(")")
        if named and out:
            if len(seen) != len(types):
                raise WitnessError("%s names %d of %d fields in %r" % (what, len(seen), len(types), text))
            return [seen[j] for j in range(len(types))]
        return out

    def pat(ty):
        tk = peek()
        if tk == "_":
            eat()
            return WILD
        if tk in ("true", "false"):
            eat()
            if ty[0] != "bool":
                raise WitnessError("Bool literal where a %s is expected in %r" % (type_text(ty), text))
            return ("lit", tk == "true", tk)
        if tk == "(":
            if ty[0] != "tuple":
                raise WitnessError("tuple pattern where a %s is expected in %r" % (type_text(ty), text))
            subs = plist(ty[1], "tuple")
            if len(subs) != len(ty[1]):
                raise WitnessError("tuple pattern with %d of %d elements in %r" % (len(subs), len(ty[1]), text))
            return ("tup", tuple(subs), None)
        if tk is not None and re.match(r"[A-Za-z]", tk):
            segs = [eat()]
            while peek() == "::":
                eat()
                segs.append(eat())
            if ty[0] != "enum":
                raise WitnessError("constructor %s where a %s is expected in %r" % ("::".join(segs), type_text(ty), text))
            style = ty[1]
            if style in STRUCTS:
                if segs[-1] != ty[2]:
                    raise WitnessError("constructor %s is not struct %s in %r" % ("::".join(segs), ty[2], text))
                vi = 0
            else:
                ename = {"enum": ty[2], "option": "Option", "result": "Result"}[style]
                if len(segs) < 2 or segs[-2] != ename:
                    raise WitnessError("constructor %s does not belong to %s in %r" % ("::".join(segs), ty[2], text))
                names = [vn for vn, _ in ty[3]]
                if segs[-1] not in names:
                    raise WitnessError("unknown variant %s of %s in %r" % (segs[-1], ty[2], text))
                vi = names.index(segs[-1])
            fs = ty[3][vi][1]
            if peek() == "(":
                subs = plist(fs, "::".join(segs), style in NAMED)
                if len(subs) == 0:
                    subs = [WILD] * len(fs)      # `E::V()` -- printed for a missing constructor: any payload
                elif len(subs) != len(fs):
                    raise WitnessError("%s with %d of %d fields in %r" % ("::".join(segs), len(subs), len(fs), text))
            else:
                subs = [WILD] * len(fs)
            return ("ctor", vi, tuple(subs), None)
        raise WitnessError("unexpected token %r in %r" % (tk, text))

    out = [pat(t)]
    while peek() == ",":
        eat(",")
        out.append(pat(t))
    if peek() is not None:
        raise WitnessError("trailing text at token %d of %r" % (pos[0], text))
    return out


# ------------------------------------------------------------------------------------------------ run-time programs
class MkRegistry:
    """Dora functions mk_k(i: Int32): T constructing values(T)[i] (mixed radix, same order as values())."""

    def __init__(self):
        self.names = {}
        self.text = []

    def fn(self, t):
        if t in self.names:
            return self.names[t]
        name = "mk_%d" % len(self.names)
        self.names[t] = name
        k = t[0]
        tt = type_text(t)
        if k == "bool":
            body = ["  i == 1i32"]
        elif k == "lit":
            body = []
            for i, key in enumerate(t[2]):
                body.append("  if i == %di32 { return %s; }" % (i, lit_expr(t[1], key)))
            body.append("  " + FRESH[t[1]][1])
        else:
            variants = t[3] if k == "enum" else (("", t[1]),)
            body = []
            base = 0
            for vi, (vn, fs) in enumerate(variants):
                sizes = [nvalues(f) for f in fs]
                total = 1
                for s in sizes:
                    total *= s
                args = []
                div = total
                for f, s in zip(fs, sizes):
                    div //= s
                    idx = "j" if div == 1 and s == total else ("(j / %di32) %% %di32" % (div, s) if div > 1 else "j %% %di32" % s)
                    args.append("%s(%s)" % (self.fn(f), idx))
                if k == "enum":
                    style = t[1]
                    if style == "enum":
                        ctor = "%s::%s" % (t[2], vn)
                    elif style in STRUCTS:
                        ctor = t[2]
                        if style in NAMED:
                            args = ["f%d = %s" % (j, a) for j, a in enumerate(args)]
                    else:       # Option[T] / Result[A, B]: Some[T](..), None[T]
                        ctor = vn + t[2][t[2].index("["):]
                    expr = ctor + ("(" + ", ".join(args) + ")" if fs else "")
                else:
                    expr = "(" + ", ".join(args) + ")"
                last = vi == len(variants) - 1
                jdef = "let j = i - %di32; " % base if fs else ""
                if last:
                    body.append("  %s%s" % (jdef, expr))
                else:
                    body.append("  if i < %di32 { %sreturn %s; }" % (base + total, jdef, expr))
                base += total
        self.text.append("fn %s(i: Int32): %s {\n%s\n}" % (name, tt, "\n".join(body)))
        return name


RT_PRELUDE = """let mut GM: Int32 = 0i32;
let mut GL: String = "";
fn g(k: Int32): Bool { GL = GL + "g${k};"; ((GM >> k) & 1i32) == 1i32 }
fn lb(b: Bool) { GL = GL + (if b { "b1;" } else { "b0;" }); }"""
ST_PRELUDE = """fn g(k: Int32): Bool { k > 0i32 }
fn lb(b: Bool) { }"""


def runtime_program(enum_defs, matches_):
    """Program text: `prog <fn index> <mask>..` prints `<mask> <value index> <arm> <log>` for every value of the scrutinee type."""
    reg = MkRegistry()
    fns = []
    drives = []
    for i, m in enumerate(matches_):
        mk = reg.fn(m.ty)
        fns.append("\n".join(m.fn_text("m%d" % i)[0]))
        drives.append(
            "fn drive%d(mask: Int32) {\n  let mut i = 0i32;\n  while i < %di32 {\n    GM = mask; GL = \"\";\n    let r = m%d(%s(i));\n"
            "    println(\"${mask} ${i} ${r} ${GL}\");\n    i = i + 1i32;\n  }\n}" % (i, nvalues(m.ty), i, mk))
    main = ["fn main() {", "  let f = std::argv(0i32).to_int64().get_or_panic();", "  let mut a = 1i32;", "  while a < std::argc() {",
            "    let mask = std::argv(a).to_int64().get_or_panic().to_int32();"]
    for i in range(len(matches_)):
        main.append("    if f == %d { drive%d(mask); }" % (i, i))
    main += ["    a = a + 1i32;", "  }", "}"]
    return "\n".join(list(enum_defs) + CONSTS + [RT_PRELUDE] + reg.text + fns + drives + ["\n".join(main)]) + "\n"


# ---------------------------------------------------------------------------------------------------------- generator
class Pool:
    """Per-file universe of user-defined enums/structs."""

    def __init__(self, rng, lits=False, wide=False, named=False):
        self.rng = rng
        self.named = named      # structs/classes, also with named fields
        self.lits = lits
        self.wide = wide        # prefer constructors with several fields (for `..` patterns)
        self.defs = []          # Dora text of the definitions
        self.enums = []         # enum types defined so far
        self.n = 0

    def _define(self, style, variants):
        name = ("S%d" if style in STRUCTS else "E%d") % self.n
        self.n += 1
        t = enum_ty(style, name, variants)
        if style in STRUCTS:
            kw = "struct" if "struct" in style else "class"
            if style in NAMED:
                self.defs.append("%s %s { %s }" % (kw, name, ", ".join("f%d: %s" % (j, type_text(f)) for j, f in enumerate(variants[0][1]))))
            else:
                self.defs.append("%s %s(%s)" % (kw, name, ", ".join(type_text(f) for f in variants[0][1])))
        else:
            self.defs.append("enum %s { %s }" % (name, ", ".join(
                vn + ("(" + ", ".join(type_text(f) for f in fs) + ")" if fs else "") for vn, fs in variants)))
        self.enums.append(t)
        return t

    def simple_enum(self, k):
        for t in self.enums:
            if t[1] == "enum" and len(t[3]) == k and all(not fs for _, fs in t[3]) and self.rng.random() < 0.8:
                return t
        return self._define("enum", [("V%d" % i, []) for i in range(k)])

    def leaf(self):
        r = self.rng.random()
        if self.lits and r < 0.45:
            return self.lit()
        if r < 0.55:
            return BOOL
        return self.simple_enum(self.rng.choice([1, 2, 2, 2, 3, 3, 4, 5, 6]))

    def lit(self, dense=None):
        rng = self.rng
        kind = rng.choice(["Int32", "Int32", "Int64", "UInt8", "Char", "String", "Float64"])
        if dense is None:
            dense = kind in DENSE and rng.random() < 0.35
        if dense and kind in DENSE:
            keys = list(DENSE[kind][:rng.randint(3, len(DENSE[kind]))])
        else:
            keys = rng.sample([k for k, _ in LITS[kind]], rng.randint(1, 5))
        return ("lit", kind, tuple(keys))

    def gen(self, d, cap):
        """Random type of nesting depth <= d with at most cap values."""
        rng = self.rng
        for _ in range(40):
            t = self._gen(d)
            if nvalues(t) <= cap:
                return t
        return BOOL

    def _gen(self, d):
        rng = self.rng
        if d <= 0:
            return self.leaf()
        r = rng.random()
        if r < 0.18:
            return self.leaf()
        if r < 0.42:
            return tuple_ty([self._gen(d - 1 if rng.random() < 0.6 else 0) for _ in range(rng.choice([2, 2, 2, 3]))])
        if r < 0.56:
            return option_ty(self._gen(d - 1))
        if r < 0.62:
            return result_ty(self._gen(d - 1), self._gen(0))
        if len(self.enums) >= 24:
            return rng.choice(self.enums) if rng.random() < 0.7 else self.leaf()
        if r < 0.70 or (self.named and r < 0.85):
            style = rng.choice(["nstruct", "nclass", "nstruct", "nclass", "class", "struct"]) if self.named else "struct"
            return self._define(style, [("", [self._gen(d - 1 if rng.random() < 0.5 else 0) for _ in range(rng.choice([1, 2, 2, 3]))])])
        if r < 0.80 and self.enums:
            c = [t for t in self.enums if depth(t) <= d]
            if c:
                return rng.choice(c)
        nv = rng.choice([1, 2, 2, 3, 3, 4])
        variants = []
        for i in range(nv):
            nf = rng.choice([0, 0, 1, 1, 2, 3]) if i or nv == 1 else rng.choice([1, 1, 2])
            if self.wide and (i == 0 or rng.random() < 0.5):
                nf = rng.choice([2, 2, 3, 3, 4])
            variants.append(("V%d" % i, [self._gen(d - 1 if rng.random() < 0.5 else 0) for _ in range(nf)]))
        rng.shuffle(variants)
        variants = [("V%d" % i, fs) for i, (_, fs) in enumerate(variants)]
        return self._define("enum", variants)


class PatGen:
    """Random patterns and matrices over a type."""

    def __init__(self, rng, family):
        self.rng = rng
        self.family = family
        self.nb = 0
        self.p_rest = {"rest": 0.3, "restm": 0.45, "restt": 0.45}.get(family, 0.0)

    def binder(self, t):
        self.nb += 1
        return ("bind", ("v%d" if t[0] == "bool" else "_w%d") % self.nb)

    def lit_pat(self, t):
        rng = self.rng
        if t[0] == "bool":
            b = rng.random() < 0.5
            sp = ("true" if b else "false") if rng.random() < 0.93 else ("K_T" if b else "K_F")
            return ("lit", b, sp)
        key = rng.choice(t[2])
        return ("lit", key, rng.choice(_LITMAP[t[1]][key]) if rng.random() < 0.4 else _LITMAP[t[1]][key][0])

    def rest(self, subs, is_tuple):
        """Maybe turn a run of wildcards (or an empty run) into `..`."""
        rng = self.rng
        n = len(subs)
        if n == 0 or rng.random() >= self.p_rest:
            return None
        runs = []
        for s in range(n + 1):
            for c in range(0, n - s + 1):
                if all(subs[j][0] == "_" for j in range(s, s + c)):
                    trailing = s + c == n
                    if is_tuple and self.family != "restt":
                        continue
                    if not is_tuple and not trailing and self.family != "restm":
                        continue
                    runs.append((s, c))
        if not runs:
            return None
        if self.family == "restm":
            nt = [r for r in runs if r[0] + r[1] != n]
            if nt and rng.random() < 0.8:
                runs = nt
        wide = [r for r in runs if r[1] > 0]
        return rng.choice(wide) if wide and rng.random() < 0.8 else rng.choice(runs)

    def pat(self, t, d=0, in_alt=False, p_alt=0.1, p_wild=0.22):
        """Random pattern for t; inside an alternative (in_alt) nothing is bound."""
        rng = self.rng
        r = rng.random()
        if d == 0:
            r += p_wild * 0.7          # a wildcard as the whole arm pattern is mostly added deliberately (see matrix)
        if r < p_wild or d > 3:
            return WILD
        if r < p_wild + 0.08 and not in_alt:
            return self.binder(t)
        if d > 0 and rng.random() < p_alt:
            alts = []
            for _ in range(rng.choice([2, 2, 2, 3])):
                a = self.pat(t, d, True, p_alt * 0.5, 0.08)
                if a[0] == "alt":
                    alts.extend(a[1])
                else:
                    alts.append(a)
            return ("alt", tuple(alts))
        k = t[0]
        if k in ("bool", "lit"):
            return self.lit_pat(t)
        if k == "enum":
            vi = rng.randrange(len(t[3]))
            subs = tuple(self.pat(f, d + 1, in_alt, p_alt, p_wild) for f in t[3][vi][1])
            return ("ctor", vi, subs, self.rest(subs, False))
        subs = tuple(self.pat(f, d + 1, in_alt, p_alt, p_wild) for f in t[1])
        return ("tup", subs, self.rest(subs, True))

    # --- partitions: disjoint patterns that together cover the type
    def split(self, t, budget, d=0):
        rng = self.rng
        if budget <= 1 or rng.random() < (0.15 + 0.2 * d):
            return [WILD]
        k = t[0]
        if k == "bool":
            return [("lit", False, "false"), ("lit", True, "true")]
        if k == "lit":
            keys = rng.sample(list(t[2]), rng.randint(1, min(len(t[2]), max(1, budget - 1))))
            return [("lit", key, _LITMAP[t[1]][key][0]) for key in keys] + [WILD]
        groups = t[3] if k == "enum" else (("", t[1]),)
        out = []
        for vi, (_, fs) in enumerate(groups):
            b = max(1, budget // len(groups))
            cols = []
            for f in fs:
                s = self.split(f, b, d + 1) if rng.random() < 0.6 else [WILD]
                b = max(1, b // len(s))
                cols.append(s)
            for combo in itertools.product(*cols):
                out.append(("ctor", vi, tuple(combo), None) if k == "enum" else ("tup", tuple(combo), None))
        return out

    def widen(self, p):
        """Replace one random sub-pattern by a wildcard."""
        paths = [pa for pa, q in all_paths(p) if q[0] != "_"]
        pa = self.rng.choice(paths)
        return subst(p, pa, WILD)

    def merge_nested(self, p, t):
        """Turn one constructor/literal sub-pattern into an alternative of itself and a sibling."""
        cands = []

        def walk(q, ty, pa, in_alt):
            if q[0] == "alt":
                return
            if pa and q[0] in ("lit", "ctor") and not in_alt:
                cands.append((pa, ty))
            if q[0] == "ctor":
                for j, c in enumerate(q[2]):
                    walk(c, ty[3][q[1]][1][j], pa + (j,), in_alt)
            elif q[0] == "tup":
                for j, c in enumerate(q[1]):
                    walk(c, ty[1][j], pa + (j,), in_alt)
        walk(p, t, (), False)
        if not cands:
            return p
        pa, ty = self.rng.choice(cands)
        old = strip_binds(get(p, pa))
        other = strip_binds(self.pat(ty, len(pa), True, 0.0, 0.05))
        if other[0] == "alt":
            return p
        alts = (old, other) if self.rng.random() < 0.6 else (other, old)
        return subst(p, pa, ("alt", alts))

    def matrix(self, t, maxrows=6):
        rng = self.rng
        mode = rng.random()
        rows = []
        if mode < 0.5:
            part = self.split(t, rng.choice([2, 3, 4, 6, 8]))
            rng.shuffle(part) if rng.random() < 0.7 else None
            rows = list(part)
            for _ in range(rng.choice([0, 0, 1, 1, 2])):          # drop rows -> uncovered values
                if len(rows) > 1:
                    rows.pop(rng.randrange(len(rows)))
            for _ in range(rng.choice([0, 0, 0, 1, 1, 2])):       # widened copies -> redundant rows
                if rows and len(rows) < 8:
                    src = rng.choice(rows)
                    q = self.widen(src) if src[0] != "_" and rng.random() < 0.7 else src
                    rows.insert(rng.randint(0, len(rows)), q)
            if rng.random() < 0.25 and len(rows) >= 2:            # two rows become one arm with a top-level alternative
                i = rng.randrange(len(rows) - 1)
                j = rng.randrange(i + 1, len(rows))
                b = rows.pop(j)
                a = rows[i]
                parts = [x for q in (a, b) for x in (q[1] if q[0] == "alt" else (q,))]
                rows[i] = ("alt", tuple(strip_binds(x) for x in parts))
            for i in range(len(rows)):
                if rng.random() < 0.15:
                    rows[i] = self.merge_nested(rows[i], t)
                elif rows[i][0] != "alt" and rng.random() < 0.1:
                    paths = [pa for pa, q in all_paths(rows[i]) if q[0] == "_" and not any(
                        get(rows[i], pa[:k])[0] == "alt" for k in range(len(pa)))]
                    if paths:
                        pa = rng.choice(paths)
                        rows[i] = subst(rows[i], pa, self.binder(type_at(t, rows[i], pa)))
            if self.p_rest:
                rows = [self.add_rest(r) for r in rows]
        else:
            n = rng.randint(1, maxrows)
            p_alt = rng.choice([0.0, 0.1, 0.25])
            for _ in range(n):
                if rng.random() < 0.2:
                    k = rng.choice([2, 2, 3])
                    alts = []
                    for _ in range(k):
                        a = self.pat(t, 0, True, p_alt, 0.1)
                        alts.extend(a[1] if a[0] == "alt" else (a,))
                    rows.append(("alt", tuple(alts)))
                else:
                    rows.append(self.pat(t, 0, False, p_alt, rng.choice([0.1, 0.22, 0.35])))
            if rng.random() < 0.3:
                rows.insert(rng.randint(max(0, len(rows) - 1), len(rows)), WILD if rng.random() < 0.7 else self.binder(t))
        rows = rows[:maxrows]
        if rng.random() < 0.03:
            rows = [self.altbind(t)] + rows[:maxrows - 1]
        if self.family == "named":
            rows = [name_fields(p, t, rng) for p in rows]
        arms = []
        ng = 0
        pg = rng.choice([0.0, 0.0, 0.15, 0.3])
        for p in rows:
            if rng.random() < pg:
                arms.append((p, ng))
                ng += 1
            else:
                arms.append((p, None))
        return arms

    def add_rest(self, p):
        k = p[0]
        if k == "alt":
            return ("alt", tuple(self.add_rest(q) for q in p[1]))
        if k == "ctor":
            subs = tuple(self.add_rest(q) for q in p[2])
            return ("ctor", p[1], subs, p[3] if p[3] is not None else self.rest(subs, False))
        if k == "tup":
            subs = tuple(self.add_rest(q) for q in p[1])
            return ("tup", subs, p[2] if p[2] is not None else self.rest(subs, True))
        return p

    def altbind(self, t):
        """`A(v, ..) | B(.., v)`: every alternative binds the same Bool variable once."""
        rng = self.rng
        self.nb += 1
        name = "v%d" % self.nb
        alts = []
        p_rest, self.p_rest = self.p_rest, 0.0       # `..` is added afterwards: it must not swallow the binding
        for _ in range(rng.choice([2, 2, 3])):
            for _ in range(12):
                p = strip_binds(self.pat(t, 0, True, 0.0, 0.05))
                slots = [pa for pa, q in all_paths(p) if q[0] in ("_", "lit") and type_at(t, p, pa)[0] == "bool"]
                if slots:
                    alts.append(subst(p, rng.choice(slots), ("bind", name)))
                    break
        if len(alts) < 2:
            r = strip_binds(self.pat(t, 0, True, 0.0, 0.1))
        else:
            r = ("alt", tuple(alts))
        self.p_rest = p_rest
        return self.add_rest(r) if p_rest else r


def name_fields(p, t, rng):
    """Constructor patterns of types with named fields are written `T(f1 = p, f0 = q)` / `T(f1 = p, ..)`."""
    k = p[0]
    if k == "alt":
        return ("alt", tuple(name_fields(q, t, rng) for q in p[1]))
    if k == "tup":
        return ("tup", tuple(name_fields(q, f, rng) for q, f in zip(p[1], t[1])), p[2])
    if k != "ctor":
        return p
    fs = t[3][p[1]][1]
    subs = tuple(name_fields(q, f, rng) for q, f in zip(p[2], fs))
    rest = p[3]
    if t[1] in NAMED and fs:
        order = list(range(len(fs)))
        rng.shuffle(order)
        keep = [j for j in order if subs[j][0] != "_" or rng.random() < 0.4]
        rest = ("named", tuple(keep), len(keep) < len(fs) or rng.random() < 0.15)
    return ("ctor", p[1], subs, rest)


def strip_binds(p):
    k = p[0]
    if k == "bind":
        return WILD
    if k == "ctor":
        return ("ctor", p[1], tuple(strip_binds(q) for q in p[2]), p[3])
    if k == "tup":
        return ("tup", tuple(strip_binds(q) for q in p[1]), p[2])
    if k == "alt":
        return ("alt", tuple(strip_binds(q) for q in p[1]))
    return p


def type_at(t, p, path):
    for i in path:
        if p[0] == "ctor":
            t = t[3][p[1]][1][i]
            p = p[2][i]
        elif p[0] == "tup":
            t = t[1][i]
            p = p[1][i]
        else:
            p = p[1][i]
    return t


def dense_match(rng, pool):
    """Int-like dispatch: the scrutinee is a payload-free enum or an integer, the arms name single values, alternatives of values or `_`."""
    if rng.random() < 0.5:
        t = pool.simple_enum(rng.choice([3, 3, 4, 4, 5, 6, 7, 8]))
        keys = [("ctor", i, (), None) for i in range(len(t[3]))]
    else:
        kind = rng.choice(["Int32", "Int32", "Int64", "UInt8"])
        run = list(rng.choice(RUNS[kind]))
        t = ("lit", kind, tuple(run))
        keys = [("lit", k, _LITMAP[kind][k][0]) for k in run]
    rows = []
    left = list(keys)
    rng.shuffle(left)
    for _ in range(rng.randint(2, 6)):
        r = rng.random()
        if r < 0.03:
            rows.append(WILD)
        elif r < 0.05:
            rows.append(("bind", "_w%d" % len(rows)))
        elif r < 0.75 or len(keys) < 3:
            rows.append(left.pop() if left and rng.random() < 0.93 else rng.choice(keys))
        else:
            k = rng.choice([2, 2, 3])
            alts = [left.pop() if left and rng.random() < 0.9 else rng.choice(keys) for _ in range(k)]
            rows.append(("alt", tuple(alts)))
    r = rng.random()
    if r < 0.45:
        rows.append(WILD)
    elif r < 0.75 and left and t[0] == "enum":
        rows.append(left[0] if len(left) == 1 else ("alt", tuple(left)))
    rows = rows[-6:]
    arms = []
    ng = 0
    pg = rng.choice([0.0, 0.0, 0.2, 0.4])
    for p in rows:
        if rng.random() < pg:
            arms.append((p, ng))
            ng += 1
        else:
            arms.append((p, None))
    return Match(t, arms, "dense")


def gen_file(rng, family, nmatches):
    """One file worth of sampled matches: (enum definitions, [Match])."""
    pool = Pool(rng, lits=(family == "lit"), wide=(family in ("restm", "rest")), named=(family == "named"))
    out = []
    for _ in range(nmatches):
        if family == "dense":
            out.append(dense_match(rng, pool))
            continue
        r = rng.random()
        cap = 16 if r < 0.3 else 64 if r < 0.65 else 256 if r < 0.9 else 1024 if r < 0.97 else MAXVALUES
        d = rng.choice([0, 1, 1, 2, 2, 2, 3, 3] if family not in ("restm", "restt") else [1, 1, 2, 2, 3])
        if family == "lit" and rng.random() < 0.35:
            t = pool.lit()
        else:
            t = pool.gen(d, cap)
            if family == "restm" and not (t[0] == "enum" and any(len(fs) >= 2 for _, fs in t[3])):
                c = [e for e in pool.enums if nvalues(e) <= cap and any(len(fs) >= 2 for _, fs in e[3])]
                t = rng.choice(c) if c else pool._define("enum", [("V0", [BOOL, pool.leaf()]), ("V1", [])])
            if family == "named" and not has_style(t, NAMED) and rng.random() < 0.85:
                c = [e for e in pool.enums if e[1] in NAMED and nvalues(e) <= cap]
                if c and rng.random() < 0.5:
                    t = rng.choice(c)
                else:
                    fs = [pool.leaf() for _ in range(rng.choice([1, 2, 2, 3]))]
                    if nvalues(t) <= 64 and depth(t) < 3:
                        fs[rng.randrange(len(fs))] = t
                    t = pool._define(rng.choice(NAMED), [("", fs)])
                    if nvalues(t) > MAXVALUES:
                        t = pool._define(rng.choice(NAMED), [("", [BOOL, pool.leaf()])])
                if rng.random() < 0.3:
                    t = rng.choice([option_ty(t), tuple_ty([BOOL, t])])
            if family == "restt" and t[0] != "tuple":
                t = tuple_ty([pool.leaf(), t] if rng.random() < 0.5 else [t, pool.leaf(), BOOL])
                if nvalues(t) > MAXVALUES:
                    t = tuple_ty([BOOL, pool.leaf()])
            if family == "lit" and not contains_kind(t, "lit"):
                t = tuple_ty([pool.lit(), t]) if nvalues(t) <= 512 and depth(t) < 3 else pool.lit()
        pg = PatGen(rng, family)
        out.append(Match(t, pg.matrix(t), family))
    return pool.defs, out


# --------------------------------------------------------------------------------- exhaustively enumerated small space
E2 = enum_ty("enum", "E2", [("A", []), ("B", [])])
SMALL_DEFS = ["enum E2 { A, B }"]


def _atoms(t, with_alt):
    if t[0] == "bool":
        a = [WILD, ("lit", False, "false"), ("lit", True, "true")]
    else:
        a = [WILD, ("ctor", 0, (), None), ("ctor", 1, (), None)]
    if with_alt:
        a = a + [("alt", (a[1], a[2])), ("alt", (a[2], a[2]))]
    return a


def _rows(t, with_alt):
    if t[0] == "tuple":
        return [("tup", c, None) for c in itertools.product(*[_atoms(f, with_alt) for f in t[1]])]
    return _atoms(t, with_alt)


class SmallSpace:
    """All matrices with <= maxrows rows over the listed types; row = one of `rows(t)` x guard flag (if guards)."""

    def __init__(self, name, types, with_alt, guards, maxrows, topalt=False):
        self.name, self.types, self.guards, self.maxrows = name, types, guards, maxrows
        self.rows = []
        for t in types:
            rs = _rows(t, with_alt)
            if topalt:       # arms `p | q` of two alternative-free rows
                simple = _rows(t, False)
                rs = rs + [("alt", (a, b)) for a in simple for b in simple]
            self.rows.append(rs)
        self.sizes = []
        for rs in self.rows:
            k = len(rs) * (2 if guards else 1)
            self.sizes.append(sum(k ** n for n in range(1, maxrows + 1)))
        self.total = sum(self.sizes)

    def get(self, idx):
        for ti, sz in enumerate(self.sizes):
            if idx < sz:
                break
            idx -= sz
        rs = self.rows[ti]
        k = len(rs) * (2 if self.guards else 1)
        n = 1
        while idx >= k ** n:
            idx -= k ** n
            n += 1
        arms = []
        ng = 0
        for _ in range(n):
            c = idx % k
            idx //= k
            if self.guards and c >= len(rs):
                arms.append((rs[c - len(rs)], ng))
                ng += 1
            else:
                arms.append((rs[c], None))
        return Match(self.types[ti], arms, "small:" + self.name)


def small_spaces():
    b2 = [tuple_ty([BOOL, BOOL]), tuple_ty([BOOL, E2]), tuple_ty([E2, BOOL]), tuple_ty([E2, E2])]
    return [
        SmallSpace("1col-guards", [BOOL, E2], True, True, 3),
        SmallSpace("2col-guards", b2, False, True, 3),
        SmallSpace("2col-alts", [tuple_ty([BOOL, E2])], True, False, 2, topalt=True),
    ]
