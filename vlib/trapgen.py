"""Template generator for trap-report programs (C14; the small helpers are shared with C13).

A generated *batch program* holds N independent cases; `main` dispatches on argv(0). Every case is a function `case_k`
that prints a generator-known prefix, then calls into a chain of *links* (callee shapes: plain fn, generic fn, method,
mutating method, static method, closure, trait object, default trait method, ...). The innermost link performs exactly
one operation that fails (kind chosen by the generator) at a position chosen by the generator (first statement, loop,
match arm, string template, ...). The program text is written one statement per line through `Src`, so the generator
knows the line of the failing operation and of every call on the chain, hence the complete expected stack trace.

Operands come from argv (so nothing can be folded), or are literals in the `lit` variant (so folding paths are used).
Around the failing operation / call the generator places *decoys*: the same operation / the same callee with safe
operands on neighbouring lines. A report that names a neighbouring line is therefore distinguishable from the right one.
Running a case with the safe operand pair in place of the failing pair must end with status 0 and the complete expected
output (control experiment: validates the generator's own bookkeeping of what is printed).

Python stdlib only.
"""
import re

I64_MAX = 2 ** 63 - 1
I64_MIN = -2 ** 63
I32_MAX = 2 ** 31 - 1
I32_MIN = -2 ** 31


class Src:
    """Line emitter: add() returns the 1-based line number of the line just written."""

    def __init__(self):
        self.lines = []

    def add(self, text):
        assert "\n" not in text
        self.lines.append(text)
        return len(self.lines)

    def text(self):
        return "\n".join(self.lines) + "\n"


ARG_HELPER = [
    "fn arg(i: Int32): Int64 {",
    "    std::argv(i).to_int64().get_or_panic()",
    "}",
    "fn ident(x: Int64): Int64 {",
    "    x",
    "}",
]

# ---------------------------------------------------------------------------------------------------------------
# Failing operations


class Op:
    def __init__(self, name, kind, expr, fails, prologue=(), status=None, message=None, std_frames=(), lit_ok=True):
        self.name, self.kind, self.expr, self.fails = name, kind, expr, fails
        self.prologue = list(prologue)
        self.status, self.message = status, message
        self.std_frames = list(std_frames)   # innermost-first frames inside the standard library: (exact name, file)
        self.lit_ok = lit_ok


TRAP_STATUS = {"DIV0": 101, "ASSERT": 102, "INDEX_OUT_OF_BOUNDS": 103, "OVERFLOW": 109, "SHIFT": 110, "FATAL": 1}
TRAP_MESSAGE = {"DIV0": "division by 0", "ASSERT": "assert failed", "INDEX_OUT_OF_BOUNDS": "array index out of bounds",
                "OVERFLOW": "overflow", "SHIFT": "shift amount out of bounds"}

SAFE_PAIRS = [(3, 2), (5, 1), (9, 3), (7, 2)]   # every operation below succeeds on each of these pairs


def _i32(fmt):
    return lambda x, y: fmt.format(x="(%s).to_int32()" % x, y="(%s).to_int32()" % y)


ARR_PROLOGUE = {
    "arr": "let arr = Array[Int64]::fill(4, 9);",
    "arr32": "let arr32 = Array[Int32]::fill(4, 9i32);",
    "arr8": "let arr8 = Array[UInt8]::fill(4, 9u8);",
    "arrs": "let arrs = Array[String]::fill(4, \"ab\");",
    "arrt": "let arrt = Array[(Int64, Bool)]::fill(4, (9, true));",
    "arrf": "let arrf = Array[Float64]::fill(4, 1.5);",
    "vec": "let vec = Vec[Int64]::new(4, 5, 6, 7);",
}
IDX_FAILS = [(1, 4), (1, -1), (1, 5), (1, I64_MAX), (1, I64_MIN), (1, 2 ** 32), (1, 2 ** 31), (1, 2 ** 32 + 1), (1, -(2 ** 32))]

OPS = [
    Op("div64", "DIV0", lambda x, y: "%s / %s" % (x, y), [(7, 0), (-13, 0), (1000003, 0), (I64_MAX, 0), (I64_MIN, 0), (0, 0)]),
    Op("mod64", "DIV0", lambda x, y: "%s %% %s" % (x, y), [(7, 0), (-13, 0), (I64_MIN, 0)]),
    Op("div32", "DIV0", _i32("({x} / {y}).to_int64()"), [(7, 0), (I32_MIN, 0), (-1, 0)]),
    Op("mod32", "DIV0", _i32("({x} % {y}).to_int64()"), [(7, 0), (I32_MAX, 0)]),
    Op("add64", "OVERFLOW", lambda x, y: "%s + %s" % (x, y), [(I64_MAX, 1), (I64_MAX - 5, 6), (I64_MIN, -1), (2 ** 62, 2 ** 62)]),
    Op("sub64", "OVERFLOW", lambda x, y: "%s - %s" % (x, y), [(I64_MIN, 1), (I64_MAX, -1), (0, I64_MIN), (-2, I64_MAX)]),
    Op("mul64", "OVERFLOW", lambda x, y: "%s * %s" % (x, y), [(2 ** 32, 2 ** 31), (I64_MAX, 2), (I64_MIN, -1), (3037000500, 3037000500)]),
    Op("neg64", "OVERFLOW", lambda x, y: "-(%s)" % x, [(I64_MIN, 1)]),
    Op("divmin64", "OVERFLOW", lambda x, y: "%s / %s" % (x, y), [(I64_MIN, -1)]),
    Op("modmin64", "OVERFLOW", lambda x, y: "%s %% %s" % (x, y), [(I64_MIN, -1)]),
    Op("add32", "OVERFLOW", _i32("({x} + {y}).to_int64()"), [(I32_MAX, 1), (I32_MIN, -1), (2 ** 30, 2 ** 30)]),
    Op("sub32", "OVERFLOW", _i32("({x} - {y}).to_int64()"), [(I32_MIN, 1), (I32_MAX, -1), (0, I32_MIN)]),
    Op("mul32", "OVERFLOW", _i32("({x} * {y}).to_int64()"), [(65536, 32768), (I32_MIN, -1), (46341, 46341)]),
    Op("neg32", "OVERFLOW", lambda x, y: "(-((%s).to_int32())).to_int64()" % x, [(I32_MIN, 1)]),
    Op("divmin32", "OVERFLOW", _i32("({x} / {y}).to_int64()"), [(I32_MIN, -1)]),
    Op("shl64", "SHIFT", lambda x, y: "%s << (%s).to_int32()" % (x, y), [(1, 64), (1, -1), (5, 100), (1, I32_MAX), (1, I32_MIN), (0, 65)]),
    Op("sar64", "SHIFT", lambda x, y: "%s >> (%s).to_int32()" % (x, y), [(1, 64), (-8, -1)]),
    Op("shr64", "SHIFT", lambda x, y: "%s >>> (%s).to_int32()" % (x, y), [(1, 64), (-8, -3)]),
    Op("shl32", "SHIFT", _i32("({x} << {y}).to_int64()"), [(1, 32), (1, -1), (1, 64), (3, 33)]),
    Op("sar32", "SHIFT", _i32("({x} >> {y}).to_int64()"), [(1, 32), (1, -1)]),
    Op("shr32", "SHIFT", _i32("({x} >>> {y}).to_int64()"), [(1, 32), (7, 1000)]),
    Op("idx64", "INDEX_OUT_OF_BOUNDS", lambda x, y: "arr(%s)" % y, IDX_FAILS, prologue=["arr"], lit_ok=False),
    Op("idx32", "INDEX_OUT_OF_BOUNDS", lambda x, y: "arr32(%s).to_int64()" % y, IDX_FAILS, prologue=["arr32"], lit_ok=False),
    Op("idx8", "INDEX_OUT_OF_BOUNDS", lambda x, y: "arr8(%s).to_int64()" % y, IDX_FAILS, prologue=["arr8"], lit_ok=False),
    Op("idxs", "INDEX_OUT_OF_BOUNDS", lambda x, y: "arrs(%s).size()" % y, IDX_FAILS, prologue=["arrs"], lit_ok=False),
    Op("idxt", "INDEX_OUT_OF_BOUNDS", lambda x, y: "arrt(%s).0" % y, IDX_FAILS, prologue=["arrt"], lit_ok=False),
    Op("idxf", "INDEX_OUT_OF_BOUNDS", lambda x, y: "arrf(%s).to_int64()" % y, IDX_FAILS, prologue=["arrf"], lit_ok=False),
    Op("set64", "INDEX_OUT_OF_BOUNDS", lambda x, y: "{ arr(%s) = %s; 1 }" % (y, x), IDX_FAILS, prologue=["arr"], lit_ok=False),
    Op("set8", "INDEX_OUT_OF_BOUNDS", lambda x, y: "{ arr8(%s) = 3u8; 1 }" % y, IDX_FAILS, prologue=["arr8"], lit_ok=False),
    Op("sett", "INDEX_OUT_OF_BOUNDS", lambda x, y: "{ arrt(%s) = (%s, false); 1 }" % (y, x), IDX_FAILS, prologue=["arrt"], lit_ok=False),
    Op("sets", "INDEX_OUT_OF_BOUNDS", lambda x, y: "{ arrs(%s) = \"zz\"; 1 }" % y, IDX_FAILS, prologue=["arrs"], lit_ok=False),
    Op("assert_ne", "ASSERT", lambda x, y: "{ assert(%s != %s); 1 }" % (x, y), [(5, 5), (0, 0), (I64_MIN, I64_MIN)]),
    Op("assert_gt", "ASSERT", lambda x, y: "{ assert(%s > %s); 1 }" % (x, y), [(2, 5), (5, 5), (I64_MIN, I64_MAX)]),
    Op("fatal", "FATAL", lambda x, y: "if %s == %s { std::fatal_error(\"boom ${%s}\") } else { 1 }" % (x, y, x), [(5, 5), (-77, -77)],
       message=lambda a, b: "fatal error: boom %d" % a),
    Op("unreachable", "FATAL", lambda x, y: "if %s == %s { unreachable() } else { 1 }" % (x, y), [(5, 5)],
       message=lambda a, b: "unreachable code executed."),
    Op("unwrap_none", "FATAL", lambda x, y: "(if %s == %s { None[Int64] } else { Some[Int64](1) }).get_or_panic()" % (x, y), [(5, 5)],
       message=lambda a, b: "fatal error: cannot unwrap None.",
       std_frames=[("std::primitives::<impl[Int64] Option[Int64]>::get_or_panic", "primitives.dora")]),
    Op("unwrap_err", "FATAL", lambda x, y: "(if %s == %s { Err[Int64, String](\"e\") } else { Ok[Int64, String](1) }).get_or_panic()" % (x, y),
       [(5, 5)], message=lambda a, b: "fatal error: cannot unwrap Err.",
       std_frames=[("std::primitives::<impl[Int64, String] Result[Int64, String]>::get_or_panic", "primitives.dora")]),
    Op("vec_oob", "FATAL", lambda x, y: "vec(%s)" % y, [(1, 4), (1, -1), (1, I64_MAX)], prologue=["vec"], lit_ok=False,
       message=lambda a, b: "fatal error: index out of bounds for vector",
       std_frames=[("std::collections::<impl[Int64] IndexGet for Vec[Int64]>::get", "collections.dora")]),
]
OPS_BY_KIND = {}
for _o in OPS:
    OPS_BY_KIND.setdefault(_o.kind, []).append(_o)
KINDS = ["DIV0", "ASSERT", "INDEX_OUT_OF_BOUNDS", "OVERFLOW", "SHIFT", "FATAL"]

# kinds of execu.TRAPS that cannot be raised from source on this tree (no generated case):
#  NIL      only emitted by the baseline generator for loads through a nil reference; the language has no nil value
#  CAST     emitted by neither generator
#  ILLEGAL  baseline generator only, when an enum payload is read from the wrong variant; the front end always guards
#           the read with a variant test
UNREACHABLE_KINDS = ["NIL", "CAST", "ILLEGAL"]

POSITIONS = ["first", "let", "tail", "return", "while", "for", "match", "if", "template", "callarg", "block", "tuple",
             "cond", "nested", "compound"]

INLINE_SHAPES = ("closure0", "closure1", "closure2", "thread")
SHAPES = ["plain", "plain_force", "plain_never", "generic", "generic_force", "generic_never", "method_struct", "method_class",
          "mutating", "static", "generic_class", "enum_method", "module", "trait_obj", "default", "default_obj", "bounded",
          "prim_impl", "operator", "closure0", "closure1", "closure2", "thread"]

GEN_TARGS = [("Int32", "7i32"), ("Bool", "true"), ("String", "\"s\""), ("(Int32, Bool)", "(1i32, true)"),
             ("Array[Int64]", "Array[Int64]::new()"), ("Option[Int32]", "None[Int32]"), ("Int64", "1")]


class Frame:
    """One expected stack-trace line. user frames: exact name + line; std frames: exact name or regex + file name."""

    def __init__(self, name, line=None, std_file=None, regex=False):
        self.name, self.line, self.std_file, self.regex = name, line, std_file, regex

    def matches(self, got_name, got_file, got_line, user_file):
        if self.regex:
            if not re.fullmatch(self.name, got_name):
                return False
        elif self.name != got_name:
            return False
        if self.std_file is not None:
            return got_file.endswith("/pkgs/std/" + self.std_file)
        return got_file == user_file and got_line == self.line

    def show(self):
        if self.std_file is not None:
            return "%s (<std>/%s)" % (self.name, self.std_file)
        return "%s (line %s)" % (self.name, self.line)


FRAME_RE = re.compile(r"^    (.*) \((.*):(\d+):(\d+)\)$")


def parse_trace(stderr_text):
    """-> (first line, [(name, file, line, col)], other lines)"""
    lines = stderr_text.split("\n")
    if lines and lines[-1] == "":
        lines.pop()
    first = lines[0] if lines else ""
    frames, other = [], []
    for l in lines[1:]:
        m = FRAME_RE.match(l)
        if m:
            frames.append((m.group(1), m.group(2), int(m.group(3)), int(m.group(4))))
        else:
            other.append(l)
    return first, frames, other


# ---------------------------------------------------------------------------------------------------------------


class Link:
    def __init__(self, idx, shape, position):
        self.idx, self.shape, self.position = idx, shape, position
        self.say = None           # (text, newline?) printed at entry
        self.decoy_before = False
        self.decoy_after = False
        self.frames = []          # filled during emission, innermost first
        self.tctx = ""            # type-parameter context inherited by closures defined inside this link
        self.terminal = False     # thread root: nothing of the spawning thread is listed after this link's frames
        self.wrap = None
        self.targ = None
        self.body_indent = 1


class Case:
    def __init__(self, idx):
        self.idx = idx
        self.op = None
        self.fail = None         # (a, b)
        self.safe = None
        self.lit = False
        self.links = []
        self.root = None         # pseudo link: the case function itself
        self.prefix = []         # output steps of case fn before the call
        self.expect_out = ""     # stdout up to the trap
        self.expect_out_safe = ""  # stdout of the control run (without the final r= line)
        self.frames = []
        self.op_line = None
        self.kind = None
        self.status = None
        self.message = None

    def argv(self, safe=False):
        a, b = self.safe if safe else self.fail
        sa, sb = self.safe
        return [self.idx, a, b, sa, sb, 1]

    def link(self, i):
        return self.root if i < 0 else self.links[i]

    def shape(self):
        return self.links[-1].shape

    def position(self):
        return self.links[-1].position

    def describe(self):
        return {"case": self.idx, "kind": self.kind, "op": self.op.name, "operands": list(self.fail), "literal_operands": self.lit,
                "chain": [(l.shape, l.position) for l in self.links], "op_line": self.op_line,
                "expected_frames": [f.show() for f in self.frames]}


class Program:
    def __init__(self):
        self.src = Src()
        self.cases = []

    def source(self):
        return self.src.text()


class TrapGen:
    def __init__(self, rng, kinds=None, shapes=None, positions=None, max_depth=5):
        self.r = rng
        self.kinds = kinds or KINDS
        self.shapes = shapes or SHAPES
        self.positions = positions or POSITIONS
        self.max_depth = max_depth

    # -- planning -------------------------------------------------------------------------------------------------
    def plan_case(self, idx, kind=None, shape=None, position=None):
        r = self.r
        c = Case(idx)
        kind = kind or r.choice(self.kinds)
        c.kind = kind
        c.op = r.choice(OPS_BY_KIND[kind])
        c.fail = r.choice(c.op.fails)
        c.safe = r.choice(SAFE_PAIRS)
        c.lit = c.op.lit_ok and r.random() < 0.15
        depth = r.choice([1, 1, 2, 2, 3, 3, 4, 5]) if self.max_depth >= 5 else r.randint(1, self.max_depth)
        inner_shape = shape or r.choice(self.shapes)
        inline_shapes = INLINE_SHAPES
        if inner_shape == "thread":
            shapes = ["thread"]      # a thread link ends the visible chain: only as the outermost link
        else:
            shapes = [r.choice(self.shapes) for _ in range(depth - 1)] + [inner_shape]
            no_thread = [x for x in self.shapes if x != "thread"] or ["plain"]
            for i in range(1, len(shapes) - 1):
                if shapes[i] == "thread":
                    shapes[i] = r.choice(no_thread)
            # inside `mod` the next link is reached through a top-level hop function, not an inline closure
            for i in range(1, len(shapes) - 1):
                if shapes[i - 1] == "module" and shapes[i] in inline_shapes:
                    shapes[i] = "plain"
            if len(shapes) > 1 and shapes[-2] == "module" and shapes[-1] in inline_shapes:
                shapes[-2] = "plain"
        for i, s in enumerate(shapes):
            inner = (i == len(shapes) - 1)
            pos = position if (inner and position) else r.choice(self.positions)
            if pos == "template" and inner and "\"" in c.op.expr("a", "b"):
                pos = "let"
            if s == "thread" and pos in ("tail", "return"):
                pos = "let"
            l = Link(i, s, pos)
            if r.random() < 0.5:
                l.say = ("in %d.%d %s" % (idx, i, s), r.random() < 0.7)
            if not c.lit and pos not in ("first",):
                l.decoy_before = r.random() < 0.6
            if not c.lit and pos not in ("tail", "return"):
                l.decoy_after = r.random() < 0.6
            c.links.append(l)
        root_pos = r.choice([x for x in self.positions if x not in ("tail", "return", "first")] or ["let"])
        c.root = Link(-1, "case", root_pos)
        if not c.lit:
            c.root.decoy_before = r.random() < 0.4
            c.root.decoy_after = r.random() < 0.4
        # output prefix of the case function
        style = r.choice(["none", "lines", "partial", "big", "bigpartial", "lines", "partial"])
        if style in ("lines", "partial"):
            for j in range(r.randint(1, 4)):
                c.prefix.append(("println", "case %d line %d" % (idx, j)))
        if style in ("big", "bigpartial"):
            n = r.choice([180, 300, 1400]) if r.random() < 0.8 else 2500
            c.prefix.append(("loop", n, "case %d %s" % (idx, "." * 40)))
        if style in ("partial", "bigpartial"):
            c.prefix.append(("print", "partial<%d>" % idx))
        c.status = TRAP_STATUS[kind]
        c.message = c.op.message(*c.fail) if c.op.message else TRAP_MESSAGE[kind]
        return c

    # -- emission -------------------------------------------------------------------------------------------------
    def emit_case(self, p, c):
        s = p.src
        self.pending = []
        k = c.idx
        s.add("fn case_%d() {" % k)
        s.add("    let a = arg(1i32);")
        s.add("    let b = arg(2i32);")
        for st in c.prefix:
            if st[0] == "println":
                s.add("    println(\"%s\");" % st[1])
            elif st[0] == "print":
                s.add("    print(\"%s\");" % st[1])
            else:
                s.add("    let mut n = 0;")
                s.add("    while n < %d {" % st[1])
                s.add("        println(\"%s\");" % st[2])
                s.add("        n = n + 1;")
                s.add("    }")
        self.emit_body(c, c.root, 1, "case_%d" % k)
        s.add("}")
        while self.pending:
            fn = self.pending.pop(0)
            fn()

    def finish_case(self, c):
        frames = []
        for l in reversed(c.links):
            frames.extend(l.frames)
            if l.terminal:
                break
        else:
            frames.extend(c.root.frames)
            frames.append(Frame("main", c.main_line))
        std = [Frame(n, std_file=f) for (n, f) in c.op.std_frames]
        c.frames = std + frames
        # expected output
        out = []
        for st in c.prefix:
            if st[0] == "println":
                out.append(st[1] + "\n")
            elif st[0] == "print":
                out.append(st[1])
            else:
                out.append((st[2] + "\n") * st[1])
        pre = "".join(out)
        c.expect_out = pre + self.simulate(c, -1, False)[0]
        c.expect_out_safe = pre + self.simulate(c, -1, True)[0]

    def simulate(self, c, i, safe):
        """Output of link i (-1: the case function) and of everything it calls -> (text, trapped)"""
        l = c.link(i)
        inner = (i == len(c.links) - 1)
        t = ""
        if l.say:
            t += l.say[0] + ("\n" if l.say[1] else "")

        def act(sf):
            if inner:
                return "", (not sf)
            return self.simulate(c, i + 1, sf)
        if l.decoy_before and not inner:
            t += act(True)[0]
        o, trapped = act(safe)
        t += o
        if trapped:
            return t, True
        if l.decoy_after and not inner:
            t += act(True)[0]
        return t, False

    # The call expression by which `caller context` invokes link l; the declaration of l is queued (or, for closures and
    # threads, written in place by the caller's body through emit_inline_def).
    def call_text(self, c, l, x, y, indent):
        """-> (list of statement lines to put before, expression text). Declares the callee (queued)."""
        k, i = c.idx, l.idx
        sfx = "_%d_%d" % (k, i)
        ind = "    " * indent
        sh = l.shape
        if not getattr(l, "declared", False):
            l.declared = True
            if sh not in INLINE_SHAPES:
                self.pending.append(lambda: self.emit_decl(c, l))
        if sh in ("plain", "plain_force", "plain_never"):
            return [], "f%s(%s, %s)" % (sfx, x, y)
        if sh in ("generic", "generic_force", "generic_never"):
            if l.targ is None:
                l.targ = self.r.choice(GEN_TARGS)
            return [], "g%s[%s](%s, %s, %s)" % (sfx, l.targ[0], l.targ[1], x, y)
        if sh == "method_struct":
            return [], "S%s(x = %s).get(%s)" % (sfx, x, y)
        if sh == "method_class":
            return [], "C%s(x = %s).get(%s)" % (sfx, x, y)
        if sh == "mutating":
            v = "ms%s_%d" % (sfx, self.fresh())
            return ["%slet mut %s = S%s(x = %s);" % (ind, v, sfx, x)], "%s.upd(%s)" % (v, y)
        if sh == "static":
            return [], "S%s::mk(%s, %s)" % (sfx, x, y)
        if sh == "generic_class":
            if l.targ is None:
                l.targ = self.r.choice(GEN_TARGS)
            return [], "B%s[%s](v = %s, x = %s).get(%s)" % (sfx, l.targ[0], l.targ[1], x, y)
        if sh == "enum_method":
            return [], "E%s::A(%s).get(%s)" % (sfx, x, y)
        if sh == "module":
            return [], "m%s::f(%s, %s)" % (sfx, x, y)
        if sh == "trait_obj":
            return [], "(K%s(x = %s) as T%s).area(%s)" % (sfx, x, sfx, y)
        if sh == "default":
            return [], "K%s(x = %s).dflt(%s)" % (sfx, x, y)
        if sh == "default_obj":
            return [], "(K%s(x = %s) as T%s).dflt(%s)" % (sfx, x, sfx, y)
        if sh == "bounded":
            return [], "w%s[K%s](K%s(x = %s), %s)" % (sfx, sfx, sfx, x, y)
        if sh == "prim_impl":
            return [], "(%s).pm%s(%s)" % (x, sfx, y)
        if sh == "operator":
            return [], "(P%s(x = %s) + P%s(x = %s)).x" % (sfx, x, sfx, y)
        if sh == "closure0":
            return [], "lam%s()" % sfx            # captures the caller's a and b
        if sh == "closure1":
            return [], "lam%s(%s)" % (sfx, y)
        if sh == "closure2":
            return [], "lam%s(%s, %s)" % (sfx, x, y)
        if sh == "thread":
            return [], "thr%s(%s, %s)" % (sfx, x, y)
        raise AssertionError(sh)

    def fresh(self):
        self._fresh = getattr(self, "_fresh", 0) + 1
        return self._fresh

    def emit_decl(self, c, l):
        """Top-level declaration of link l (non-closure shapes)."""
        s = self.src_of(c)
        k, i = c.idx, l.idx
        sfx = "_%d_%d" % (k, i)
        sh = l.shape
        B = lambda ind, name, pro=(), wrap=None: self.emit_body(c, l, ind, name, pro, wrap)
        if sh in ("plain", "plain_force", "plain_never"):
            if sh != "plain":
                s.add("@ForceInline" if sh == "plain_force" else "@NeverInline")
            s.add("fn f%s(a: Int64, b: Int64): Int64 {" % sfx)
            B(1, "f%s" % sfx)
            s.add("}")
        elif sh in ("generic", "generic_force", "generic_never"):
            if sh != "generic":
                s.add("@ForceInline" if sh == "generic_force" else "@NeverInline")
            s.add("fn g%s[T](_t: T, a: Int64, b: Int64): Int64 {" % sfx)
            l.tctx = l.targ[0]
            B(1, "g%s[%s]" % (sfx, l.targ[0]))
            s.add("}")
        elif sh in ("method_struct", "mutating", "static"):
            s.add("struct S%s { x: Int64 }" % sfx)
            s.add("impl S%s {" % sfx)
            if sh == "method_struct":
                s.add("    fn get(b: Int64): Int64 {")
                B(2, "<impl S%s>::get" % sfx, ["let a = self.x;"])
            elif sh == "mutating":
                s.add("    mutating fn upd(b: Int64): Int64 {")
                B(2, "<impl S%s>::upd" % sfx, ["let a = self.x;", "self.x = b;"])
            else:
                s.add("    static fn mk(a: Int64, b: Int64): Int64 {")
                B(2, "<impl S%s>::mk" % sfx)
            s.add("    }")
            s.add("}")
        elif sh == "method_class":
            s.add("class C%s { x: Int64 }" % sfx)
            s.add("impl C%s {" % sfx)
            s.add("    fn get(b: Int64): Int64 {")
            B(2, "<impl C%s>::get" % sfx, ["let a = self.x;"])
            s.add("    }")
            s.add("}")
        elif sh == "generic_class":
            s.add("class B%s[T] { v: T, x: Int64 }" % sfx)
            s.add("impl[T] B%s[T] {" % sfx)
            s.add("    fn get(b: Int64): Int64 {")
            l.tctx = l.targ[0]
            B(2, "<impl[%s] B%s[%s]>::get" % (l.targ[0], sfx, l.targ[0]), ["let a = self.x;"])
            s.add("    }")
            s.add("}")
        elif sh == "enum_method":
            s.add("enum E%s { A(Int64), B }" % sfx)
            s.add("impl E%s {" % sfx)
            s.add("    fn get(b: Int64): Int64 {")
            s.add("        let a = match self {")
            s.add("            E%s::A(v) => v," % sfx)
            s.add("            E%s::B => 0," % sfx)
            s.add("        };")
            B(2, "<impl E%s>::get" % sfx)
            s.add("    }")
            s.add("}")
        elif sh == "module":
            s.add("mod m%s {" % sfx)
            s.add("    pub fn f(a: Int64, b: Int64): Int64 {")
            l.in_module = True
            B(2, "m%s::f" % sfx)
            s.add("    }")
            s.add("}")
        elif sh in ("trait_obj", "default", "default_obj", "bounded"):
            s.add("trait T%s {" % sfx)
            if sh in ("default", "default_obj"):
                s.add("    fn base(): Int64;")
                decl = s.add("    fn dflt(b: Int64): Int64 {")
                l.tctx = "K%s" % sfx
                B(2, "<impl T%s for K%s>::dflt" % (sfx, sfx), ["let a = self.base();"])
                s.add("    }")
                if sh == "default_obj":
                    l.frames.append(Frame("T%s::dflt for K%s as T%s" % (sfx, sfx, sfx), decl))
                s.add("}")
                s.add("class K%s { x: Int64 }" % sfx)
                s.add("impl T%s for K%s {" % (sfx, sfx))
                s.add("    fn base(): Int64 {")
                s.add("        self.x")
                s.add("    }")
                s.add("}")
            else:
                decl = s.add("    fn area(b: Int64): Int64;")
                s.add("}")
                s.add("class K%s { x: Int64 }" % sfx)
                s.add("impl T%s for K%s {" % (sfx, sfx))
                s.add("    fn area(b: Int64): Int64 {")
                B(2, "<impl T%s for K%s>::area" % (sfx, sfx), ["let a = self.x;"])
                s.add("    }")
                s.add("}")
                if sh == "trait_obj":
                    l.frames.append(Frame("T%s::area for K%s as T%s" % (sfx, sfx, sfx), decl))
                else:
                    s.add("fn w%s[X: T%s](s: X, b: Int64): Int64 {" % (sfx, sfx))
                    wl = s.add("    s.area(b)")
                    s.add("}")
                    l.frames.append(Frame("w%s[K%s]" % (sfx, sfx), wl))
        elif sh == "prim_impl":
            s.add("trait PT%s {" % sfx)
            s.add("    fn pm%s(b: Int64): Int64;" % sfx)
            s.add("}")
            s.add("impl PT%s for Int64 {" % sfx)
            s.add("    fn pm%s(b: Int64): Int64 {" % sfx)
            B(2, "<impl PT%s for Int64>::pm%s" % (sfx, sfx), ["let a = self;"])
            s.add("    }")
            s.add("}")
        elif sh == "operator":
            s.add("struct P%s { x: Int64 }" % sfx)
            s.add("impl std::traits::Add for P%s {" % sfx)
            s.add("    fn add(rhs: P%s): P%s {" % (sfx, sfx))
            B(2, "<impl Add for P%s>::add" % sfx, ["let a = self.x;", "let b = rhs.x;"], wrap=lambda e: "P%s(x = %s)" % (sfx, e))
            s.add("    }")
            s.add("}")
        else:
            raise AssertionError(sh)

    def src_of(self, c):
        return self._prog.src

    def program_begin(self, p):
        self._prog = p

    def lambda_frames(self, arity, tctx, line, unit=False):
        args = ", ".join(["Int64"] * arity + ["()" if unit else "Int64"])
        tp = "\\[%s\\]" % re.escape(tctx) if tctx else ""
        name = r"<impl%s Fn%d\[%s\] for \$Lambda\d+Env%s>::call" % (tp, arity, re.escape(args), tp)
        gen = ", ".join(["A%d" % j for j in range(arity)] + ["R"])
        thunk = r"std::callable::Fn%d::call\[%s\] for \$Lambda\d+Env%s as Fn%d\[%s\]" % (arity, re.escape(gen), tp, arity, re.escape(args))
        return [Frame(name, line, regex=True), Frame(thunk, std_file="callable.dora", regex=True)]

    def emit_body(self, c, l, indent, name, prologue=(), wrap=None):
        """Body of link l at `indent`; variables a and b are (made) available. Records l.frames (innermost first).
        `name`: display name of the function, or (closures) the list of frames whose first entry gets the line."""
        s = self.src_of(c)
        r = self.r
        ind = "    " * indent
        inner = (l.idx == len(c.links) - 1)
        nxt = None if inner else c.links[l.idx + 1]
        wrap = wrap or (lambda e: e)
        pkg = "package::" if getattr(l, "in_module", False) else ""
        for pl in prologue:
            s.add(ind + pl)
        if l.say:
            s.add("%s%s(\"%s\");" % (ind, "println" if l.say[1] else "print", l.say[0]))
        sa, sb = c.safe
        safe_x, safe_y = r.choice([("%sarg(3i32)" % pkg, "%sarg(4i32)" % pkg), (str(sa), str(sb)), ("%sarg(3i32)" % pkg, str(sb))])
        hop_frames = []

        def call(x, y):
            if pkg:
                return [], "package::hop_%d_%d(%s, %s)" % (c.idx, l.idx, x, y)
            return self.call_text(c, nxt, x, y, indent)
        if inner:
            for name_ in c.op.prologue:
                s.add(ind + ARR_PROLOGUE[name_])
            if c.lit:
                mode = r.choice(["both", "rhs", "let"])
                a, b = c.fail
                la, lb = self.lit(a, c.op), self.lit(b, c.op)
                if mode == "both":
                    E = c.op.expr(la, lb)
                elif mode == "rhs":
                    E = c.op.expr("a", lb)
                else:
                    s.add("%slet za = %s;" % (ind, la))
                    s.add("%slet zb = %s;" % (ind, lb))
                    E = c.op.expr("za", "zb")
            else:
                E = c.op.expr("a", "b")
            have_decoy = not c.lit
            decoy = lambda: ([], c.op.expr(safe_x, safe_y))
            pre_real = []
        else:
            if pkg:
                # inside `mod`: the next link is called by a top-level function hop_k_i (one more, known, frame)
                def hop():
                    s.add("fn hop_%d_%d(a: Int64, b: Int64): Int64 {" % (c.idx, l.idx))
                    pre, e = self.call_text(c, nxt, "a", "b", 1)
                    for x in pre:
                        s.add(x)
                    hl = s.add("    %s" % e)
                    s.add("}")
                    l.frames.insert(0, Frame("hop_%d_%d" % (c.idx, l.idx), hl))
                self.pending.insert(0, hop)
            elif nxt.shape in INLINE_SHAPES:
                # the closure is defined here, inside this body
                nxt.tctx = l.tctx
                self.emit_inline_def(c, nxt, indent)
            pre_real, E = call("a", "b")
            # a closure that captured the failing a (and b) cannot be called with the safe pair
            have_decoy = not c.lit and nxt.shape not in ("closure0", "closure1")
            decoy = lambda: call(safe_x, safe_y)
        terms = []
        if l.decoy_before and have_decoy:
            pre, D = decoy()
            for x in pre:
                s.add(x)
            s.add("%slet d1 = %s;" % (ind, D))
            terms.append("d1")
        else:
            l.decoy_before = False
        for x in pre_real:
            s.add(x)
        pos = l.position
        line = None
        ret_done = False
        idn = pkg + "ident"
        if pos in ("first", "let"):
            line = s.add("%slet r = %s;" % (ind, E))
        elif pos == "tail":
            line = s.add("%s%s" % (ind, wrap(E)))
            ret_done = True
        elif pos == "return":
            line = s.add("%sreturn %s;" % (ind, wrap(E)))
            ret_done = True
        elif pos in ("while", "for"):
            s.add("%slet mut r = 0;" % ind)
            if pos == "while":
                s.add("%slet mut i = 0;" % ind)
                s.add("%swhile i < 3 {" % ind)
            else:
                s.add("%sfor i in std::range(0, 3) {" % ind)
            s.add("%s    if i == 1 {" % ind)
            line = s.add("%s        r = %s;" % (ind, E))
            s.add("%s    }" % ind)
            if pos == "while":
                s.add("%s    i = i + 1;" % ind)
            s.add("%s}" % ind)
        elif pos == "match":
            s.add("%slet sel = %s;" % (ind, r.choice(["%sarg(5i32)" % pkg, "1"])))
            s.add("%slet r = match sel {" % ind)
            s.add("%s    0 => 11," % ind)
            line = s.add("%s    1 => %s," % (ind, E))
            s.add("%s    _ => 12," % ind)
            s.add("%s};" % ind)
        elif pos == "if":
            s.add("%slet sel = %s;" % (ind, r.choice(["%sarg(5i32)" % pkg, "1"])))
            s.add("%slet r = if sel == 1 {" % ind)
            line = s.add("%s    %s" % (ind, E))
            s.add("%s} else {" % ind)
            s.add("%s    13" % ind)
            s.add("%s};" % ind)
        elif pos == "template":
            line = s.add("%slet st = \"v=${%s}!\";" % (ind, E))
            s.add("%slet r = st.size();" % ind)
        elif pos == "callarg":
            line = s.add("%slet r = %s(%s);" % (ind, idn, E))
        elif pos == "block":
            s.add("%slet r = {" % ind)
            s.add("%s    let q = %s(4);" % (ind, idn))
            line = s.add("%s    q - q + (%s)" % (ind, E))
            s.add("%s};" % ind)
        elif pos == "tuple":
            line = s.add("%slet tp = (1, %s);" % (ind, E))
            s.add("%slet r = tp.1;" % ind)
        elif pos == "cond":
            line = s.add("%slet r = if (%s) == 77 { 1 } else { 2 };" % (ind, E))
        elif pos == "nested":
            line = s.add("%slet r = %s(1) + (%s);" % (ind, idn, E))
        elif pos == "compound":
            s.add("%slet mut r = 1;" % ind)
            line = s.add("%sr += (%s);" % (ind, E))
        else:
            raise AssertionError(pos)
        if inner:
            c.op_line = line
        if isinstance(name, list):
            name[0].line = line
            l.frames[0:0] = name
        else:
            l.frames.insert(0, Frame(name, line))
        if ret_done:
            l.decoy_after = False
            return
        if l.decoy_after and have_decoy:
            pre, D = decoy()
            for x in pre:
                s.add(x)
            s.add("%slet d2 = %s;" % (ind, D))
            terms.append("d2")
        else:
            l.decoy_after = False
        res = " + ".join(["r"] + terms)
        if l.shape == "thread":
            s.add("%sif %s == 424242 {" % (ind, res))
            s.add("%s    println(\"never\");" % ind)
            s.add("%s}" % ind)
        elif l.shape == "case":
            s.add("%sprintln(\"r=${%s}\");" % (ind, res))
        else:
            s.add("%s%s" % (ind, wrap(res)))

    def lit(self, v, op):
        if v < 0:
            if v == I64_MIN:
                return "Int64::min_value()"
            return "(-%d)" % -v
        return str(v)

    def emit_inline_def(self, c, l, indent):
        """Closure / thread links are defined inside the caller's body."""
        s = self.src_of(c)
        sfx = "_%d_%d" % (c.idx, l.idx)
        ind = "    " * indent
        sh = l.shape
        l.declared = True
        if sh == "closure0":
            s.add("%slet lam%s = ||: Int64 {" % (ind, sfx))
            self.emit_body(c, l, indent + 1, self.lambda_frames(0, l.tctx, None))
            s.add("%s};" % ind)
        elif sh == "closure1":
            s.add("%slet lam%s = |b: Int64|: Int64 {" % (ind, sfx))
            self.emit_body(c, l, indent + 1, self.lambda_frames(1, l.tctx, None))
            s.add("%s};" % ind)
        elif sh == "closure2":
            s.add("%slet lam%s = |a: Int64, b: Int64|: Int64 {" % (ind, sfx))
            self.emit_body(c, l, indent + 1, self.lambda_frames(2, l.tctx, None))
            s.add("%s};" % ind)
        elif sh == "thread":
            # thr(x, y): a lambda that runs the body on a new thread and joins it
            s.add("%slet thr%s = |a: Int64, b: Int64|: Int64 {" % (ind, sfx))
            s.add("%s    let th = std::thread::spawn(|| {" % ind)
            self.emit_body(c, l, indent + 2, self.lambda_frames(0, l.tctx, None, unit=True))
            s.add("%s    });" % ind)
            s.add("%s    th.join();" % ind)
            s.add("%s    0" % ind)
            s.add("%s};" % ind)
            l.terminal = True
        else:
            raise AssertionError(sh)


def generate(rng, ncases, plans_fn=None, **kw):
    g = TrapGen(rng, **kw)
    p = Program()
    g.program_begin(p)
    s = p.src
    for l in ARG_HELPER:
        s.add(l)
    for k in range(ncases):
        c = plans_fn(g, k) if plans_fn else g.plan_case(k)
        g.emit_case(p, c)
        p.cases.append(c)
    s.add("fn main() {")
    s.add("    let c = arg(0i32);")
    s.add("    match c {")
    for c in p.cases:
        c.main_line = s.add("        %d => case_%d()," % (c.idx, c.idx))
    s.add("        _ => std::exit(98i32),")
    s.add("    }")
    s.add("}")
    for c in p.cases:
        g.finish_case(c)
    return p


def json_dumps(obj):
    import json
    return json.dumps(obj, indent=1, default=str)
