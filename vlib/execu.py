"""Executor + outcome classifier (DESIGN.md 2.2).

Outcome classes: ok(status) | trap(kind) | fatal(1) | signal(n) | rust_panic | verif_monitor(id) | timeout
Only ok / trap / fatal are "defined ways to end".
"""
import os
import re
import signal
import subprocess
import time
from concurrent.futures import ThreadPoolExecutor

from . import build
from .core import NCPU

TRAPS = {101: "DIV0", 102: "ASSERT", 103: "INDEX_OUT_OF_BOUNDS", 104: "NIL", 105: "CAST",
         106: "OOM", 107: "STACK_OVERFLOW", 108: "ILLEGAL", 109: "OVERFLOW", 110: "SHIFT"}
TRAP_MSG = {
    "DIV0": "division by 0",
    "ASSERT": "assert failed",
    "INDEX_OUT_OF_BOUNDS": "array index out of bounds",
    "NIL": "nil check failed",
    "CAST": "cast failed",
    "OOM": "out of memory",
    "STACK_OVERFLOW": "stack overflow",
    "ILLEGAL": "illegal state",
    "OVERFLOW": "overflow",
    "SHIFT": "shift amount out of bounds",
}
MONITOR_EXITS = {93: "C12-terminator", 94: "deadlock", 95: "C10-rootscan", 96: "C09-waitlist", 97: "C04-stw"}


class Outcome:
    __slots__ = ("cls", "status", "sig", "stdout", "stderr", "wall", "detail")

    def __init__(self, cls, status=None, sig=None, stdout=b"", stderr=b"", wall=0.0, detail=""):
        self.cls, self.status, self.sig = cls, status, sig
        self.stdout, self.stderr, self.wall, self.detail = stdout, stderr, wall, detail

    def defined(self):
        return self.cls in ("ok", "trap", "fatal")

    def key(self):
        """Comparable summary: class + status/kind."""
        if self.cls == "ok":
            return "ok(%d)" % self.status
        if self.cls == "trap":
            return "trap(%s)" % TRAPS.get(self.status, self.status)
        if self.cls == "fatal":
            return "fatal(%d)" % self.status
        if self.cls == "signal":
            return "signal(%d)" % self.sig
        if self.cls == "verif_monitor":
            return "verif_monitor(%s)" % MONITOR_EXITS.get(self.status, self.status)
        return self.cls

    def first_err(self):
        t = self.stderr.decode("utf-8", "replace").split("\n")
        return t[0] if t else ""

    def __repr__(self):
        return "<%s out=%r err=%r>" % (self.key(), self.stdout[:200], self.stderr[:300])


def classify(rc, stdout, stderr, wall, timed_out=False):
    if timed_out:
        return Outcome("timeout", None, None, stdout, stderr, wall)
    if rc < 0:
        sig = -rc
        if sig == signal.SIGABRT and (b"panicked at" in stderr):
            return Outcome("rust_panic", None, sig, stdout, stderr, wall)
        return Outcome("signal", None, sig, stdout, stderr, wall)
    if b"VERIF-MONITOR" in stderr and rc in MONITOR_EXITS:
        return Outcome("verif_monitor", rc, None, stdout, stderr, wall)
    if b"panicked at" in stderr:
        # panic=abort gives SIGABRT; an unwinding build gives 101. Either is a runtime-internal panic.
        return Outcome("rust_panic", rc, None, stdout, stderr, wall)
    if rc in TRAPS:
        kind = TRAPS[rc]
        first = stderr.split(b"\n", 1)[0].decode("utf-8", "replace")
        if first.strip() == TRAP_MSG[kind]:
            return Outcome("trap", rc, None, stdout, stderr, wall)
        # exit status in trap range without the trap message: program used exit(n) itself
        return Outcome("ok", rc, None, stdout, stderr, wall)
    if rc == 1 and stderr:
        return Outcome("fatal", rc, None, stdout, stderr, wall)
    return Outcome("ok", rc, None, stdout, stderr, wall)


def run_cmd(cmd, timeout=60, env=None, cwd=None, stdin=None, affinity=None):
    t0 = time.time()
    e = dict(os.environ)
    e.pop("DORA_FLAGS", None)
    if env:
        e.update(env)
    pre = None
    if affinity:
        def pre():
            os.sched_setaffinity(0, affinity)
    try:
        p = subprocess.Popen(cmd, stdout=subprocess.PIPE, stderr=subprocess.PIPE, stdin=subprocess.PIPE if stdin is not None else subprocess.DEVNULL,
                             env=e, cwd=cwd, preexec_fn=pre, start_new_session=True)
    except OSError as ex:
        return Outcome("harness_error", None, None, b"", str(ex).encode(), 0.0)
    try:
        out, err = p.communicate(stdin, timeout=timeout)
        return classify(p.returncode, out, err, time.time() - t0)
    except subprocess.TimeoutExpired:
        try:
            os.killpg(p.pid, signal.SIGKILL)
        except OSError:
            pass
        out, err = p.communicate()
        return classify(-9, out, err, time.time() - t0, timed_out=True)


class CompileResult:
    __slots__ = ("ok", "rc", "stdout", "stderr", "out", "wall", "timeout")

    def __init__(self, ok, rc, stdout, stderr, out, wall, timeout=False):
        self.ok, self.rc, self.stdout, self.stderr, self.out, self.wall, self.timeout = ok, rc, stdout, stderr, out, wall, timeout


def compile_dora(src, out, backend="boots", gc=None, flavour="rel", extra=(), timeout=300, env=None, cwd=None):
    """Run the real CLI: dora compile [--cannon] [--gc X] src -o out."""
    cmd = [build.dora(flavour), "compile"]
    if backend == "cannon":
        cmd.append("--cannon")
    if gc:
        cmd += ["--gc", gc]
    cmd += list(extra) + [src, "-o", out]
    o = run_cmd(cmd, timeout=timeout, env=env, cwd=cwd)
    ok = (o.cls == "ok" and o.status == 0)
    return CompileResult(ok, o.status if o.status is not None else -(o.sig or 0), o.stdout, o.stderr, out, o.wall, o.cls == "timeout")


def pmap(fn, items, workers=None):
    """Ordered parallel map on a thread pool (work is subprocess-bound)."""
    items = list(items)
    if not items:
        return []
    with ThreadPoolExecutor(max_workers=workers or NCPU) as ex:
        return list(ex.map(fn, items))


_ADDR = re.compile(rb"0x[0-9a-f]{6,}")


def norm_stderr(b):
    return _ADDR.sub(b"0xADDR", b)
