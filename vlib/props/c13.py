"""C13 -- running out of stack or heap ends in the documented trap, never in a crash (DESIGN.md 5 C13).

Three generated workloads (template generators below; all argv-dispatched batch programs), each with a control experiment:

  (a) stack   unbounded recursion through generated function families with varying frame sizes (few/many locals, many
              arguments, structs and tuples by value up to 32 KiB, deep expression temporaries, leaf-heavy bodies, single
              functions with frames of several MiB) through plain functions, methods, lambdas, generics, trait objects and
              mutual recursion; on the main thread and on a spawned thread.
              expected: trap STACK_OVERFLOW (exit 107, "stack overflow", a parsable stack trace whose first frame is a
              function of the family).   control: the same case with a small recursion bound ends ok with the checksum.
  (b) heap    live data grown beyond --max-heap-size (8M / 32M): linked lists, Vec growth, arrays of arrays, large arrays,
              strings; main and spawned thread.   expected: trap OOM (exit 106, "out of memory").
              control: same argv with --max-heap-size=512M ends ok with the checksum.
  (c) size    single objects of impossible size through every array-allocating constructor x element type x length in
              {-1, MIN, 2^31, 2^32, 2^60, 2^61+1, 2^62, MAX, ...}.   expected: a documented trap (any kind), never a signal,
              a runtime panic, a hang or success with an object that claims the impossible length.
              control: a sane length ends ok with that length.

Matrix: collectors {copy, sweep, swiper} (+ zero for (b) and (c)) x {baseline, optimizing}. Keys:
`c13:<scenario>:<backend>:<gc>:<outcome class>`.
"""
import os
import re
import shutil

from .. import build, execu, progrun
from ..core import scratch
from ..trapgen import parse_trace

I64_MAX = 2 ** 63 - 1
I64_MIN = -2 ** 63
GCS = ("copy", "sweep", "swiper")
HEADER = [
    "fn arg(i: Int32): Int64 {",
    "    std::argv(i).to_int64().get_or_panic()",
    "}",
    "@NeverInline",
    "fn one(n: Int64): Int64 {",
    "    n - n + 1",
    "}",
]
STRUCTS = [
    "struct T1 { a: Int64, b: Int64, c: Int64, d: Int64, e: Int64, f: Int64, g: Int64, h: Int64 }",
    "struct T2 { a: T1, b: T1, c: T1, d: T1, e: T1, f: T1, g: T1, h: T1 }",
    "struct T3 { a: T2, b: T2, c: T2, d: T2, e: T2, f: T2, g: T2, h: T2 }",
    "struct T4 { a: T3, b: T3, c: T3, d: T3, e: T3, f: T3, g: T3, h: T3 }",
    "fn mk1(x: Int64): T1 { T1(a = x, b = x, c = x, d = x, e = x, f = x, g = x, h = x) }",
    "fn mk2(x: Int64): T2 { let t = mk1(x); T2(a = t, b = t, c = t, d = t, e = t, f = t, g = t, h = t) }",
    "fn mk3(x: Int64): T3 { let t = mk2(x); T3(a = t, b = t, c = t, d = t, e = t, f = t, g = t, h = t) }",
    "fn mk4(x: Int64): T4 { let t = mk3(x); T4(a = t, b = t, c = t, d = t, e = t, f = t, g = t, h = t) }",
]


def main_fn(lines, entries, extra_args=0):
    """entries: list of (case idx, expression using `n`) -> run(c, n) + main with optional thread"""
    lines.append("fn run(c: Int64, n: Int64) {")
    lines.append("    let r = match c {")
    for idx, e in entries:
        lines.append("        %d => %s," % (idx, e))
    lines.append("        _ => -1,")
    lines.append("    };")
    lines.append("    println(\"r=${r}\");")
    lines.append("}")
    lines.append("fn main() {")
    lines.append("    let c = arg(0i32);")
    lines.append("    let n = arg(1i32);")
    lines.append("    let thr = arg(2i32);")
    lines.append("    println(\"start\");")
    lines.append("    if thr == 1 {")
    lines.append("        std::thread::spawn(|| {")
    lines.append("            run(c, n);")
    lines.append("        }).join();")
    lines.append("    } else {")
    lines.append("        run(c, n);")
    lines.append("    }")
    lines.append("    println(\"end\");")
    lines.append("}")


class Case:
    def __init__(self, idx, scenario, template, **kw):
        self.idx, self.scenario, self.template = idx, scenario, template
        self.__dict__.update(kw)

    def describe(self):
        d = {k: v for k, v in self.__dict__.items() if isinstance(v, (int, str, list, tuple, float, bool))}
        return d


# ---------------------------------------------------------------------------------------------------------------
# (a) recursion

REC_TEMPLATES = ["plain", "locals", "args", "struct", "tuple", "expr", "method_struct", "method_class", "lambda", "generic",
                 "trait_obj", "mutual", "leafheavy", "static", "struct_locals"]


def gen_recursion(rng, templates, max_struct=3, locals_max=120):
    """-> (source, cases). Every family returns base + sum of per-level addends; ctl(lim) is the checksum."""
    L = list(HEADER) + list(STRUCTS[:max_struct] + STRUCTS[4:4 + max_struct])
    cases, entries = [], []
    for k, t in enumerate(templates):
        fam = "_r%d" % k
        ctl_lim = 25
        big = False
        if t == "plain":
            L += ["fn p%s(n: Int64, lim: Int64): Int64 {" % fam, "    if n >= lim { return n; }", "    p%s(n + 1, lim) + 1" % fam, "}"]
            entry, ctl, info = "p%s(0, n)" % fam, (lambda lim: 2 * lim), ""
        elif t == "locals":
            m = rng.choice([3, 12, 40, locals_max])
            L.append("fn lo%s(n: Int64, lim: Int64): Int64 {" % fam)
            L.append("    if n >= lim { return n; }")
            for i in range(m):
                L.append("    let v%d = n + %d;" % (i, i))
            L.append("    let s = lo%s(n + 1, lim);" % fam)
            L.append("    s" + "".join(" + (v%d - n)" % i for i in range(m)))
            L.append("}")
            add = m * (m - 1) // 2
            entry, ctl, info = "lo%s(0, n)" % fam, (lambda lim, add=add: lim + lim * add), "locals=%d" % m
        elif t == "args":
            m = rng.choice([7, 9, 14, 24])
            xs = ["x%d" % i for i in range(m)]
            L.append("fn ar%s(n: Int64, lim: Int64, %s): Int64 {" % (fam, ", ".join(x + ": Int64" for x in xs)))
            L.append("    if n >= lim { return n; }")
            L.append("    ar%s(n + 1, lim, %s) + x0" % (fam, ", ".join(xs[1:] + xs[:1])))
            L.append("}")
            entry = "ar%s(0, n, %s)" % (fam, ", ".join(str(i + 1) for i in range(m)))
            ctl, info = (lambda lim, m=m: lim + sum((j % m) + 1 for j in range(lim))), "args=%d" % m
        elif t in ("struct", "struct_locals"):
            d = rng.randint(1, max_struct)
            path = ".h" * d
            if t == "struct":
                L += ["fn st%s(n: Int64, lim: Int64, t: T%d): Int64 {" % (fam, d), "    if n >= lim { return n; }",
                      "    st%s(n + 1, lim, t) + t%s" % (fam, path), "}"]
                entry, info = "st%s(0, n, mk%d(1))" % (fam, d), "struct=T%d by value" % d
                add = 1
            else:
                m = rng.choice([2, 5, 9])
                L.append("fn sl%s(n: Int64, lim: Int64): Int64 {" % fam)
                L.append("    if n >= lim { return n; }")
                for i in range(m):
                    L.append("    let v%d = mk%d(n + %d);" % (i, d, i))
                L.append("    let s = sl%s(n + 1, lim);" % fam)
                L.append("    s" + "".join(" + (v%d%s - n)" % (i, path) for i in range(m)))
                L.append("}")
                entry, info = "sl%s(0, n)" % fam, "%d locals of T%d" % (m, d)
                add = m * (m - 1) // 2
            ctl = (lambda lim, add=add: lim + lim * add)
            if d >= 2:
                ctl_lim, big = 3, (d >= 3)
        elif t == "tuple":
            d = rng.randint(1, min(3, max_struct))
            ty = "Int64"
            for _ in range(d):
                ty = "(" + ", ".join([ty] * 8) + ")"
            L.append("fn tu%s(n: Int64, lim: Int64, t: %s): Int64 {" % (fam, ty))
            L.append("    if n >= lim { return n; }")
            acc = "t"
            for _ in range(d):
                acc = "(%s.7)" % acc
            L.append("    tu%s(n + 1, lim, t) + %s" % (fam, acc))
            L.append("}")
            L.append("fn tue%s(n: Int64): Int64 {" % fam)
            L.append("    let t0 = one(n);")
            for i in range(d):
                L.append("    let t%d = (%s);" % (i + 1, ", ".join(["t%d" % i] * 8)))
            L.append("    tu%s(0, n, t%d)" % (fam, d))
            L.append("}")
            entry, ctl, info = "tue%s(n)" % fam, (lambda lim: 2 * lim), "tuple depth %d by value (%d bytes)" % (d, 8 ** (d + 1))
            if d >= 2:
                ctl_lim, big = 3, (d >= 3)
        elif t == "expr":
            e = rng.choice([4, 16, 48])
            L.append("fn ex%s(n: Int64, lim: Int64): Int64 {" % fam)
            L.append("    if n >= lim { return n; }")
            L.append("    " + "(one(n) + " * e + "ex%s(n + 1, lim)" % fam + ")" * e)
            L.append("}")
            entry, ctl, info = "ex%s(0, n)" % fam, (lambda lim, e=e: lim + lim * e), "pending temporaries=%d" % e
        elif t in ("method_struct", "method_class", "static"):
            kw = "struct" if t != "method_class" else "class"
            L.append("%s MS%s { w: Int64 }" % (kw, fam))
            L.append("impl MS%s {" % fam)
            if t == "static":
                L += ["    static fn go(n: Int64, lim: Int64): Int64 {", "        if n >= lim { return n; }",
                      "        MS%s::go(n + 1, lim) + 3" % fam, "    }", "}"]
                entry = "MS%s::go(0, n)" % fam
            else:
                L += ["    fn go(n: Int64, lim: Int64): Int64 {", "        if n >= lim { return n; }",
                      "        self.go(n + 1, lim) + self.w", "    }", "}"]
                entry = "MS%s(w = 3).go(0, n)" % fam
            ctl, info = (lambda lim: lim + 3 * lim), ""
        elif t == "lambda":
            L += ["fn la%s(n: Int64, lim: Int64): Int64 {" % fam, "    if n >= lim { return n; }",
                  "    let f = |x: Int64|: Int64 {", "        la%s(x, lim) + 1" % fam, "    };", "    f(n + 1)", "}"]
            entry, ctl, info = "la%s(0, n)" % fam, (lambda lim: 2 * lim), ""
        elif t == "generic":
            targ, tval = rng.choice([("Int32", "7i32"), ("String", "\"s\""), ("(Int64, Bool)", "(1, true)"), ("T1", "mk1(1)")])
            L += ["fn ge%s[T](t: T, n: Int64, lim: Int64): Int64 {" % fam, "    if n >= lim { return n; }",
                  "    ge%s[T](t, n + 1, lim) + 1" % fam, "}"]
            entry, ctl, info = "ge%s[%s](%s, 0, n)" % (fam, targ, tval), (lambda lim: 2 * lim), "T=%s" % targ
        elif t == "trait_obj":
            L += ["trait TO%s {" % fam, "    fn go(n: Int64, lim: Int64): Int64;", "}", "class TK%s { w: Int64 }" % fam,
                  "impl TO%s for TK%s {" % (fam, fam), "    fn go(n: Int64, lim: Int64): Int64 {", "        if n >= lim { return n; }",
                  "        let o = self as TO%s;" % fam, "        o.go(n + 1, lim) + self.w", "    }", "}"]
            entry, ctl, info = "(TK%s(w = 2) as TO%s).go(0, n)" % (fam, fam), (lambda lim: lim + 2 * lim), ""
        elif t == "mutual":
            c = rng.choice([2, 3, 5])
            for j in range(c):
                L += ["fn mu%s_%d(n: Int64, lim: Int64): Int64 {" % (fam, j), "    if n >= lim { return n; }",
                      "    mu%s_%d(n + 1, lim) + %d" % (fam, (j + 1) % c, j + 1), "}"]
            entry, ctl, info = "mu%s_0(0, n)" % fam, (lambda lim, c=c: lim + sum((j % c) + 1 for j in range(lim))), "cycle=%d" % c
        elif t == "leafheavy":
            m = rng.choice([20, 60, locals_max])
            L.append("@NeverInline")
            L.append("fn leaf%s(n: Int64): Int64 {" % fam)
            for i in range(m):
                L.append("    let v%d = one(n) + %d;" % (i, i))
            L.append("    0" + "".join(" + (v%d - 1)" % i for i in range(m)))
            L.append("}")
            L += ["fn lh%s(n: Int64, lim: Int64): Int64 {" % fam, "    if n >= lim { return n; }", "    let a = leaf%s(n);" % fam,
                  "    let s = lh%s(n + 1, lim);" % fam, "    s + a + leaf%s(n)" % fam, "}"]
            add = m * (m - 1)
            entry, ctl, info = "lh%s(0, n)" % fam, (lambda lim, add=add: lim + lim * add), "leaf locals=%d" % m
        else:
            raise AssertionError(t)
        entries.append((k, entry))
        cases.append(Case(k, "stack", t, fam=fam, ctl=ctl, ctl_lim=ctl_lim, info=info, big=big))
    main_fn(L, entries)
    return "\n".join(L) + "\n", cases


def gen_huge_frames(sizes):
    """Single (non-recursive) functions whose frame is larger than what is left of / the whole stack: n locals of T3 (4 KiB)."""
    L = list(HEADER) + list(STRUCTS[:3] + STRUCTS[4:7])
    cases, entries = [], []
    for k, nloc in enumerate(sizes):
        fam = "_hf%d" % k
        L.append("fn hf%s(n: Int64): Int64 {" % fam)
        for i in range(nloc):
            L.append("    let v%d = mk3(n + %d);" % (i, i))
        L.append("    let mut s = 0;")
        for i in range(nloc):
            L.append("    s = s + v%d.h.h.h - n;" % i)
        L.append("    s")
        L.append("}")
        entries.append((k, "hf%s(n)" % fam))
        cases.append(Case(k, "stack-huge-frame", "huge_frame", fam=fam, frame_kib=nloc * 4, info="one frame of about %d KiB" % (nloc * 4),
                          ctl=(lambda lim, nloc=nloc: nloc * (nloc - 1) // 2), nloc=nloc))
    main_fn(L, entries)
    return "\n".join(L) + "\n", cases


# ---------------------------------------------------------------------------------------------------------------
# (b) heap

HEAP_TEMPLATES = ["list", "vec", "vecarr", "bigarr", "strvec", "strdouble", "tuplevec", "hashmap", "classarr"]


def gen_heap(rng, templates):
    """argv: case, scale, thr. `per8`: live bytes per unit of n, n8: n that gives about 3-4x 8 MiB of live data."""
    L = list(HEADER)
    L += ["class Node { v: Int64, next: Option[Node] }", "class Cell { a: Int64, b: Int64 }"]
    cases, entries = [], []
    for k, t in enumerate(templates):
        f = "h%d" % k
        if t == "list":
            L += ["fn %s(n: Int64): Int64 {" % f, "    let mut head: Option[Node] = None[Node];", "    let mut i = 0;", "    while i < n {",
                  "        head = Some[Node](Node(v = i, next = head));", "        i = i + 1;", "    }", "    let mut s = 0;", "    let mut cur = head;",
                  "    while cur is Some(node) {", "        s = s + node.v;", "        cur = node.next;", "    }", "    s", "}"]
            n8, ctl = 900000, (lambda n: n * (n - 1) // 2)
        elif t == "vec":
            L += ["fn %s(n: Int64): Int64 {" % f, "    let v = Vec[Int64]::new();", "    let mut i = 0;", "    while i < n {", "        v.push(i);",
                  "        i = i + 1;", "    }", "    v(0) + v(n - 1) + v.size()", "}"]
            n8, ctl = 3500000, (lambda n: (n - 1) + n)
        elif t == "vecarr":
            w = rng.choice([64, 1024, 5000])
            L += ["fn %s(n: Int64): Int64 {" % f, "    let v = Vec[Array[Int64]]::new();", "    let mut i = 0;", "    while i < n {",
                  "        v.push(Array[Int64]::fill(%d, i));" % w, "        i = i + 1;", "    }", "    let mut s = 0;", "    for a in v {",
                  "        s = s + a(0) + a(%d);" % (w - 1), "    }", "    s", "}"]
            n8, ctl = 28000000 // (8 * w), (lambda n: n * (n - 1))
        elif t == "bigarr":
            mb = rng.choice([1, 2, 5])
            L += ["fn %s(n: Int64): Int64 {" % f, "    let v = Vec[Array[UInt8]]::new();", "    let mut i = 0;", "    while i < n {",
                  "        let a = Array[UInt8]::zero(%d);" % (mb * 1048576), "        a(%d) = 7u8;" % (mb * 1048576 - 1), "        v.push(a);",
                  "        i = i + 1;", "    }", "    let mut s = 0;", "    for a in v {", "        s = s + a(%d).to_int64() + a.size();" % (mb * 1048576 - 1),
                  "    }", "    s", "}"]
            n8, ctl = 30 // mb + 1, (lambda n, mb=mb: n * (7 + mb * 1048576))
        elif t == "strvec":
            L += ["fn %s(n: Int64): Int64 {" % f, "    let v = Vec[String]::new();", "    let mut i = 0;", "    while i < n {",
                  "        v.push(\"item ${i} with some padding to make it longer\");", "        i = i + 1;", "    }", "    v(0).size() + v.size()", "}"]
            n8, ctl = 350000, (lambda n: len("item 0 with some padding to make it longer") + n)
        elif t == "strdouble":
            L += ["fn %s(n: Int64): Int64 {" % f, "    let mut s = \"0123456789abcdef\";", "    let keep = Vec[String]::new();", "    let mut i = 0;",
                  "    while i < n {", "        s = s + s;", "        keep.push(s);", "        i = i + 1;", "    }", "    s.size() + keep.size()", "}"]
            # n doublings of 16 bytes, all kept: live = 16 * 2^(n+1); scale is logarithmic here
            n8, ctl = 21, (lambda n: 16 * 2 ** n + n)
        elif t == "tuplevec":
            L += ["fn %s(n: Int64): Int64 {" % f, "    let v = Vec[(Int64, Int64, Int64)]::new();", "    let mut i = 0;", "    while i < n {",
                  "        v.push((i, i + 1, i + 2));", "        i = i + 1;", "    }", "    v(n - 1).2 + v.size()", "}"]
            n8, ctl = 1200000, (lambda n: (n + 1) + n)
        elif t == "hashmap":
            L += ["fn %s(n: Int64): Int64 {" % f, "    let m = std::HashMap[Int64, Int64]::new();", "    let mut i = 0;", "    while i < n {",
                  "        m.insert(i, i * 2);", "        i = i + 1;", "    }", "    m.get(n - 1).get_or_panic() + m.size()", "}"]
            n8, ctl = 1000000, (lambda n: 2 * (n - 1) + n)
        elif t == "classarr":
            L += ["fn %s(n: Int64): Int64 {" % f, "    let a = Array[Option[Cell]]::fill(n, None[Cell]);", "    let mut i = 0;", "    while i < n {",
                  "        a(i) = Some[Cell](Cell(a = i, b = 1));", "        i = i + 1;", "    }", "    a(n - 1).get_or_panic().a + a.size()", "}"]
            n8, ctl = 700000, (lambda n: (n - 1) + n)
        else:
            raise AssertionError(t)
        entries.append((k, "%s(n)" % f))
        cases.append(Case(k, "heap", t, n8=n8, ctl=ctl, log_scale=(t == "strdouble")))
    main_fn(L, entries)
    return "\n".join(L) + "\n", cases


# ---------------------------------------------------------------------------------------------------------------
# (c) impossible sizes

ELEMS = {
    "UInt8": ("1u8", True, True), "Int32": ("1i32", True, True), "Int64": ("1", True, True), "Float64": ("1.5", True, True),
    "Float32": ("1.5f32", True, True), "Bool": ("true", True, True), "Char": ("'c'", True, True),
    "(Int64, Bool)": ("(1, true)", False, False), "(Int64, Int64, Int64)": ("(1, 2, 3)", False, False), "(UInt8, UInt8, UInt8)": ("(1u8, 2u8, 3u8)", False, False),
    "K": ("K(x = 1)", False, False), "String": ("\"s\"", False, True), "Option[Int64]": ("None[Int64]", False, False), "Option[K]": ("None[K]", False, False),
    "()": ("()", False, False),
}   # type -> (value, has zero(), has new_default())
ELEM_SIZE = {"UInt8": 1, "Bool": 1, "Int32": 4, "Float32": 4, "Char": 4, "Int64": 8, "Float64": 8, "String": 8, "K": 8, "Option[K]": 8,
             "(Int64, Bool)": 16, "Option[Int64]": 16, "(Int64, Int64, Int64)": 24, "(UInt8, UInt8, UInt8)": 3, "()": 0}
SIZE_NS = [-1, I64_MIN, 2 ** 31, 2 ** 32, 2 ** 60, 2 ** 61 + 1, 2 ** 62, I64_MAX]
SIZE_NS_EXTRA = [-2, -(2 ** 31), -(2 ** 32), I64_MIN + 1, 2 ** 61, 2 ** 61 - 1, 2 ** 63 - 8, 2 ** 63 - 24, 2 ** 40, 2 ** 59 + 3, 2 ** 62 + 2 ** 61, (2 ** 64) // 24 + 1,
                 (2 ** 63) // 24 + 1, 2 ** 36]


def gen_sizes(rng, ncases):
    L = list(HEADER) + ["class K { x: Int64 }"]
    combos = []
    for ty, (val, has_zero, has_default) in ELEMS.items():
        combos.append(("fill", ty))
        combos.append(("fill_with", ty))
        if has_zero:
            combos.append(("zero", ty))
        if has_default:
            combos.append(("new_default", ty))
        if ty != "()":
            combos.append(("vec_capacity", ty))
            combos.append(("vec_reserve", ty))
    combos += [("sb_reserve", "UInt8"), ("bitset", "Int32")]
    rng.shuffle(combos)
    # every element-size class and every constructor is always present; the rest is a random sample
    fixed = [("zero", "Int64"), ("zero", "UInt8"), ("fill", "(Int64, Int64, Int64)"), ("fill", "K"), ("fill", "()"), ("vec_capacity", "Int64"),
             ("vec_reserve", "UInt8"), ("new_default", "Int32"), ("fill_with", "(Int64, Bool)"), ("sb_reserve", "UInt8"), ("bitset", "Int32")]
    combos = (fixed + [x for x in combos if x not in fixed])[:max(ncases, len(fixed))]
    cases, entries = [], []
    for k, (ctor, ty) in enumerate(combos):
        val = ELEMS[ty][0]
        if ctor == "fill":
            e = "{ let a = Array[%s]::fill(n, %s); a.size() }" % (ty, val)
        elif ctor == "fill_with":
            e = "{ let a = Array[%s]::fill_with(n, |i: Int64|: %s { %s }); a.size() }" % (ty, ty, val)
        elif ctor == "zero":
            e = "{ let a = Array[%s]::zero(n); a.size() }" % ty
        elif ctor == "new_default":
            e = "{ let a = Array[%s]::new_default(n); a.size() }" % ty
        elif ctor == "vec_capacity":
            e = "{ let v = Vec[%s]::new_with_capacity(n); v.capacity() }" % ty
        elif ctor == "vec_reserve":
            e = "{ let v = Vec[%s]::new(); v.push(%s); v.reserve(n); v.capacity() }" % (ty, val)
        elif ctor == "sb_reserve":
            e = "{ let sb = std::StringBuffer::new(); sb.reserve(n); sb.capacity() }"
        elif ctor == "bitset":
            e = "{ let b = std::BitSet::new(n); b.size() }"
        entries.append((k, e))
        cases.append(Case(k, "size", ctor, elem=ty))
    main_fn(L, entries)
    return "\n".join(L) + "\n", cases


# ---------------------------------------------------------------------------------------------------------------


def outcome_class(o):
    return o.key()


def first_user_frames(o):
    first, frames, other = parse_trace(o.stderr.decode("utf-8", "replace"))
    return first, frames, other


class Runner:
    def __init__(self, ctx):
        self.ctx = ctx
        self.jobs = []
        self.meta = {}

    def add(self, tag, exe, argv, flags, meta):
        env = {"DORA_FLAGS": flags} if flags else None
        self.jobs.append((tag, exe, argv, env, None))
        self.meta[tag] = meta

    def run(self, timeout):
        res = progrun.run_cases(self.jobs, timeout=timeout)
        self.jobs = []
        return res


def violation(ctx, scenario, key, o, what, src, cmd, flags):
    be, gc = key
    ctx.violation("c13:%s:%s:%s:%s" % (scenario, be, gc, o.key()), what + "\nstderr: " + o.stderr.decode("utf-8", "replace")[:1200] +
                  "\nstdout tail: %r" % o.stdout[-200:], files={"program.dora": src},
                  cmd="DORA_FLAGS='%s' %s" % (flags or "", cmd))


def check_trap_report(o, kind_status, message, fam=None):
    """-> None or text: the documented trap with a parsable trace (first frame in the family, if given)."""
    if o.cls != "trap" or o.status != kind_status:
        return "outcome %s" % o.key()
    first, frames, other = first_user_frames(o)
    if first != message:
        return "first stderr line %r" % first
    if other:
        return "stderr holds lines that are neither the message nor a frame: %r" % other[:3]
    if not frames:
        return "no stack trace follows the message"
    if fam is not None and not any(fam in f[0] for f in frames[:4]):
        # the overflow may be detected in a helper the family calls (one, mkN, leaf): the family is then the caller
        return "none of the first frames %r is a function of the overflowing family %s" % ([f[0] for f in frames[:4]], fam)
    return None


def run_stack(ctx, progs, gcs, backends_for, timeout):
    """progs: list of (name, source, cases). Each case x {main, thread}: unbounded -> STACK_OVERFLOW, bounded control -> ok."""
    for backends in sorted(set(backends_for.values()), key=str):
        part = [(n, s) for (n, s, _) in progs if backends_for[n] == backends]
        if not part:
            continue
        built, d = progrun.compile_all("c13_stack_%s" % "_".join(backends), part, backends=backends, gcs=gcs, timeout=900)
        R = Runner(ctx)
        for name, src, cases in progs:
            if backends_for[name] != backends:
                continue
            report_compile_errors(ctx, name, src, built[name])
            for key, exe in built[name].exes.items():
                for c in cases:
                    for thr in (0, 1):
                        if c.scenario == "stack":
                            R.add((name, c.idx, key, thr, "overflow"), exe, [c.idx, 1000000000, thr], "--gc-worker=2", (src, c))
                            R.add((name, c.idx, key, thr, "control"), exe, [c.idx, c.ctl_lim, thr], "--gc-worker=2", (src, c))
                        else:
                            R.add((name, c.idx, key, thr, "huge"), exe, [c.idx, 0, thr], "--gc-worker=2", (src, c))
        for tag, o in R.run(timeout):
            name, ci, key, thr, mode = tag
            src, c = R.meta[tag]
            where = "main thread" if thr == 0 else "spawned thread"
            cmd = "%s.%s.%s %d %s %d" % (name, key[0], key[1], ci, {"overflow": 1000000000, "control": getattr(c, "ctl_lim", 0), "huge": 0}[mode], thr)
            if o.cls == "timeout":
                ctx.inconc("watchdog: %s" % (tag,))
                continue
            ctx.count("runs")
            ctx.count("stack_runs:%s" % mode)
            if mode == "overflow":
                if c.idx % 5 == 0 and thr == 1:
                    ctx.sample({"scenario": "stack", "template": c.template, "parameters": c.info, "thread": where, "backend": key[0], "gc": key[1],
                                "argv": [ci, 1000000000, thr], "outcome": o.key(), "first_frames": [f[0] for f in first_user_frames(o)[1][:3]],
                                "control": {"argv": [ci, c.ctl_lim, thr], "expected_stdout": "start\nr=%d\nend\n" % c.ctl(c.ctl_lim)}}, limit=2)
                ctx.observe(("stack", c.template, c.info, thr, key))
                ctx.count("stack:%s" % c.template)
                ctx.count("stack_on_%s" % ("main" if thr == 0 else "thread"))
                p = check_trap_report(o, 107, "stack overflow", c.fam)
                if p is None and not o.stdout.startswith(b"start\n"):
                    p = "stdout written before the trap was lost: %r" % o.stdout[:50]
                if p:
                    violation(ctx, "stack:%s:%s" % (c.template, "main" if thr == 0 else "thread"), key, o,
                              "unbounded recursion (%s %s) on the %s with %s/%s did not end in the stack-overflow trap: %s" % (
                                  c.template, c.info, where, key[0], key[1], p), src, cmd, "")
            elif mode == "control":
                exp = "start\nr=%d\nend\n" % c.ctl(c.ctl_lim)
                if o.cls == "trap" and o.status == 107 and c.big:
                    # frames of tens of KiB: a few levels may legitimately exceed the 500 KiB budget
                    ctx.count("stack_control_big_frame_overflow")
                    continue
                ctx.count("stack_control_runs")
                if not (o.cls == "ok" and o.status == 0 and o.stdout.decode("utf-8", "replace") == exp):
                    violation(ctx, "stack-control:%s" % c.template, key, o,
                              "control: recursion bounded to %d levels (%s %s) on the %s with %s/%s did not end ok with %r" % (
                                  c.ctl_lim, c.template, c.info, where, key[0], key[1], exp), src, cmd, "")
            else:
                # one frame larger than what is left of the stack: ok (it fitted) or the stack-overflow trap
                ctx.observe(("stack-huge-frame", c.frame_kib, thr, key))
                ctx.count("stack_huge_frame_runs")
                exp = "start\nr=%d\nend\n" % c.ctl(0)
                if o.cls == "ok" and o.status == 0 and o.stdout.decode("utf-8", "replace") == exp:
                    ctx.count("stack_huge_frame_fitted")
                    continue
                p = check_trap_report(o, 107, "stack overflow", c.fam)
                if p:
                    violation(ctx, "stack-huge-frame:%s" % ("main" if thr == 0 else "thread"), key, o,
                              "a function with one frame of about %d KiB called on the %s with %s/%s ended neither ok nor in the stack-overflow trap: %s" % (
                                  c.frame_kib, where, key[0], key[1], p), src, cmd, "")
                else:
                    ctx.count("stack_huge_frame_trapped")


def report_compile_errors(ctx, name, src, b):
    for key, r in b.errors.items():
        if r.timeout:
            ctx.inconc("compile watchdog: %s %s" % (name, key))
            continue
        text = progrun.compile_error_text(r)
        first = next((l for l in text.splitlines() if l.startswith(("error", "fatal error")) or "panicked at" in l), text[:100])
        ctx.violation("c13:compile-rejected:%s:%s" % (key[0], re.sub(r"\d+", "N", first)[:120]),
                      "generated program rejected or compiler failed (%s %s):\n%s" % (name, key, text[-1500:]), files={"program.dora": src})


def run_heap(ctx, progs, gcs, heaps, timeout):
    built, d = progrun.compile_all("c13_heap", [(n, s) for (n, s, _) in progs], gcs=gcs, timeout=900)
    R = Runner(ctx)
    for name, src, cases in progs:
        report_compile_errors(ctx, name, src, built[name])
        for key, exe in built[name].exes.items():
            for c in cases:
                for hi, heap in enumerate(heaps):
                    thr = (c.idx + hi + len(key[1])) % 2
                    mult = heap // 8
                    n = (c.n8 + (2 if mult > 1 else 0)) if c.log_scale else c.n8 * mult
                    for mode, flags in (("oom", "--max-heap-size=%dM --gc-worker=2" % heap), ("control", "--max-heap-size=512M --gc-worker=2")):
                        if mode == "control" and hi > 0:
                            continue
                        R.add((name, c.idx, key, thr, heap, mode), exe, [c.idx, n, thr], flags, (src, c, n, flags))
    for tag, o in R.run(timeout):
        name, ci, key, thr, heap, mode = tag
        src, c, n, flags = R.meta[tag]
        where = "main thread" if thr == 0 else "spawned thread"
        cmd = "%s.%s.%s %d %d %d" % (name, key[0], key[1], ci, n, thr)
        if o.cls == "timeout":
            ctx.inconc("watchdog: %s" % (tag,))
            continue
        ctx.count("runs")
        if mode == "oom":
            if c.idx % 4 == 1:
                ctx.sample({"scenario": "heap", "template": c.template, "thread": where, "backend": key[0], "gc": key[1], "DORA_FLAGS": flags,
                            "argv": [ci, n, thr], "outcome": o.key(), "control": {"DORA_FLAGS": "--max-heap-size=512M", "expected_stdout": "start\nr=%d\nend\n" % c.ctl(n)}},
                           limit=4)
            ctx.observe(("heap", c.template, heap, thr, key))
            ctx.count("heap:%s" % c.template)
            ctx.count("heap_runs:%dM" % heap)
            p = check_trap_report(o, 106, "out of memory")
            if p is None and not o.stdout.startswith(b"start\n"):
                p = "stdout written before the trap was lost: %r" % o.stdout[:50]
            if p:
                violation(ctx, "heap:%s:%dM" % (c.template, heap), key, o,
                          "live data beyond the heap limit (%s, n=%d, --max-heap-size=%dM) on the %s with %s/%s did not end in the out-of-memory trap: %s" % (
                              c.template, n, heap, where, key[0], key[1], p), src, cmd, flags)
        else:
            ctx.count("heap_control_runs")
            exp = "start\nr=%d\nend\n" % c.ctl(n)
            if not (o.cls == "ok" and o.status == 0 and o.stdout.decode("utf-8", "replace") == exp):
                violation(ctx, "heap-control:%s" % c.template, key, o,
                          "control: the same program (%s, n=%d) with --max-heap-size=512M on the %s with %s/%s did not end ok with %r" % (
                              c.template, n, where, key[0], key[1], exp), src, cmd, flags)


def run_sizes(ctx, progs, gcs, ns_for, timeout):
    built, d = progrun.compile_all("c13_size", [(n, s) for (n, s, _) in progs], gcs=gcs, timeout=900)
    R = Runner(ctx)
    flags = "--max-heap-size=64M --gc-worker=2"
    for name, src, cases in progs:
        report_compile_errors(ctx, name, src, built[name])
        for key, exe in built[name].exes.items():
            for c in cases:
                for n in ns_for(name, c):
                    if c.elem == "()" and n > 0 and c.template in ("fill", "fill_with", "new_default"):
                        continue   # zero-sized elements: the constructor legitimately loops n times
                    if c.template == "bitset" and -32 < n < 0:
                        continue   # (n + 31) / 32 == 0 words: no allocation is requested
                    R.add((name, c.idx, key, n, "size"), exe, [c.idx, n, 0], flags, (src, c))
                R.add((name, c.idx, key, 10, "control"), exe, [c.idx, 10, (c.idx % 2)], flags, (src, c))
    for tag, o in R.run(timeout):
        name, ci, key, n, mode = tag
        src, c = R.meta[tag]
        cmd = "%s.%s.%s %d %d %d" % (name, key[0], key[1], ci, n, 0 if mode == "size" else ci % 2)
        if o.cls == "timeout":
            ctx.inconc("watchdog: %s" % (tag,))
            continue
        ctx.count("runs")
        out = o.stdout.decode("utf-8", "replace")
        if mode == "size":
            if (ci + n) % 7 == 0:
                ctx.sample({"scenario": "size", "constructor": c.template, "element": c.elem, "length": n, "backend": key[0], "gc": key[1],
                            "DORA_FLAGS": flags, "outcome": o.key()}, limit=6)
            ctx.observe(("size", c.template, c.elem, n, key))
            ctx.count("size:%s" % c.template)
            ctx.count("size_runs")
            if o.cls == "trap":
                first, frames, other = first_user_frames(o)
                if other or not frames:
                    violation(ctx, "impossible-size:bad-report", key, o, "%s of %s with length %d on %s/%s: trap report malformed" % (
                        c.template, c.elem, n, key[0], key[1]), src, cmd, flags)
                else:
                    ctx.count("size_trap:%s" % execu.TRAPS[o.status])
                continue
            m = re.fullmatch(r"start\nr=(-?\d+)\nend\n", out)
            if o.cls == "ok" and o.status == 0 and m and c.template in ("sb_reserve", "vec_reserve") and n < 0 and 0 <= int(m.group(1)) <= 16:
                ctx.count("size_negative_reserve_noop")     # reserving a negative amount requests no object
                continue
            if o.cls == "ok" and o.status == 0 and m and c.elem == "()" and c.template in ("vec_capacity",):
                continue
            cls = "negative" if n < 0 else "too-large"
            bogus = " (the object claims length %s)" % m.group(1) if (o.cls == "ok" and m) else ""
            violation(ctx, "impossible-size:%s" % cls, key, o,
                      "%s of %s with impossible length %d on %s/%s ended with %s%s instead of a documented trap" % (
                          c.template, c.elem, n, key[0], key[1], o.key(), bogus), src, cmd, flags)
        else:
            ctx.count("size_control_runs")
            m = re.fullmatch(r"start\nr=(-?\d+)\nend\n", out)
            ok = o.cls == "ok" and o.status == 0 and m is not None
            if ok:
                r = int(m.group(1))
                ok = (r == 10) if c.template in ("fill", "fill_with", "zero", "new_default", "bitset") else (r >= 10)
            if not ok:
                violation(ctx, "size-control:%s" % c.template, key, o, "control: %s of %s with length 10 on %s/%s did not end ok with that length" % (
                    c.template, c.elem, key[0], key[1]), src, cmd, flags)


def run_memcheck(ctx, samples, timeout):
    """samples: (exe, argv, flags, what). valgrind memcheck: invalid read/write = violation; uninitialised-value reports ignored."""
    vg = shutil.which("valgrind")
    if not vg:
        ctx.inconc("valgrind not installed: memcheck sample skipped")
        return
    jobs = []
    for i, (exe, argv, flags, what) in enumerate(samples):
        jobs.append((i, vg, ["--error-exitcode=0", "--undef-value-errors=no", "--quiet", "--num-callers=12", exe] + list(argv),
                     {"DORA_FLAGS": flags}, None))
    for i, o in progrun.run_cases(jobs, timeout=timeout):
        exe, argv, flags, what = samples[i]
        if o.cls == "timeout":
            ctx.inconc("memcheck watchdog: %s" % what)
            continue
        ctx.count("memcheck_runs")
        err = o.stderr.decode("utf-8", "replace")
        bad = [l for l in err.splitlines() if re.search(r"Invalid (read|write|free)|Jump to the invalid address|Process terminating with default action of signal", l)]
        if bad:
            ctx.violation("c13:memcheck:%s" % re.sub(r"==\d+==\s*", "", bad[0])[:60].replace(" ", "-"),
                          "valgrind memcheck reports an invalid access for %s\n%s" % (what, err[:3000]),
                          cmd="DORA_FLAGS='%s' valgrind %s %s" % (flags, exe, " ".join(str(a) for a in argv)))


def run(ctx):
    build.ensure_toolchain("rel")
    quick = ctx.quick()
    only = set(ctx.opts["only"].split(",")) if ctx.opts.get("only") else {"stack", "heap", "size", "memcheck"}
    ctx.rule = ("case = one generated scenario instance (recursion family with its frame-shaping parameters and thread / allocation template with heap "
                "limit and thread / array constructor with element type and impossible length) run on one code generator and collector; distinct = "
                "distinct (scenario, template, parameters, thread, length, code generator, collector); non-trivial = the executable ran to a verdict "
                "and its outcome class, message and trace were examined (the control run of the same case is counted separately)")
    ctx.assumptions = [
        "a watchdog timeout is reported as inconclusive, not as a hang",
        "zero-sized element arrays with huge positive lengths are excluded for looping constructors (they legitimately loop n times)",
        "reserve() with a negative amount that allocates nothing is accepted as a no-op; BitSet::new(n) with -32 < n < 0 requests 0 words and is skipped",
        "the control run of recursion families with frames of tens of KiB may itself exceed the fixed 500 KiB budget; that is counted, not judged",
    ]
    timeout = 300
    # (a) stack
    if "stack" in only:
        nrec = ctx.pick(1, 6)
        progs, backends_for = [], {}
        for i in range(nrec):
            r = ctx.rng("rec", i)
            tpl = list(REC_TEMPLATES)
            r.shuffle(tpl)
            src, cases = gen_recursion(r, tpl, max_struct=3)
            progs.append(("rec%02d" % i, src, cases))
            backends_for["rec%02d" % i] = progrun.BACKENDS
        # 32 KiB aggregates by value: the optimizing generator needs minutes to compile them -> baseline only
        r = ctx.rng("recbig", 0)
        src, cases = gen_recursion(r, ["struct", "struct", "struct_locals", "tuple", "struct"], max_struct=4)
        progs.append(("recbig", src, cases))
        backends_for["recbig"] = ("cannon",)
        # single frames of 0.4 .. 9 MiB (main stack 8 MiB, thread stacks 2 MiB, budget 500 KiB)
        src, cases = gen_huge_frames([100, 300, 600, 2300] if not quick else [300, 600, 2300])
        progs.append(("hugeframe", src, cases))
        backends_for["hugeframe"] = ("cannon",)
        run_stack(ctx, progs, GCS if not quick else ("swiper", "copy"), backends_for, timeout)
    # (b) heap
    heap_exes = []
    if "heap" in only:
        progs = []
        for i in range(ctx.pick(1, 2)):
            r = ctx.rng("heap", i)
            src, cases = gen_heap(r, list(HEAP_TEMPLATES))
            progs.append(("heap%02d" % i, src, cases))
        run_heap(ctx, progs, GCS + ("zero",), (8, 32) if not quick else (8,), timeout)
    # (c) sizes
    if "size" in only:
        progs = []
        for i in range(1):
            r = ctx.rng("size", i)
            src, cases = gen_sizes(r, ctx.pick(12, 60))
            progs.append(("size%02d" % i, src, cases))

        def ns_for(name, c):
            r = ctx.rng("ns:" + name, c.idx)
            ns = SIZE_NS + r.sample(SIZE_NS_EXTRA, ctx.pick(0, 4))
            # lengths whose byte size (length * element size + header, rounded up) is just below / at / beyond 2^63: the window in which
            # unchecked size arithmetic wraps to a negative size (seeded change C13)
            es = ELEM_SIZE.get(getattr(c, "elem", None), 8)
            if es:
                top = I64_MAX // es
                ns = ns + [top - r.randrange(0, 3), top - r.randrange(3, 24), (I64_MAX - 16) // es + r.randrange(0, 2)]
            return ns
        run_sizes(ctx, progs, GCS + ("zero",), ns_for, timeout)
    # memcheck sample (thorough)
    if "memcheck" in only and not quick:
        d = os.path.join(build.BUILD, "scratch")
        samples = []
        for be in progrun.BACKENDS:
            for (prog, argvs, flags) in (("rec00", [[0, 1000000000, 0], [1, 1000000000, 1], [2, 1000000000, 0]], "--gc-worker=2"),
                                         ("heap00", [[0, 900000, 0], [1, 3500000, 1], [3, 31, 0]], "--max-heap-size=8M --gc-worker=2"),
                                         ("size00", [[0, -1, 0], [1, 2 ** 62, 0], [2, I64_MIN, 0], [3, 2 ** 61 + 1, 0]], "--max-heap-size=64M --gc-worker=2")):
                exe = os.path.join(d, {"rec00": "c13_stack_cannon_boots", "heap00": "c13_heap", "size00": "c13_size"}[prog], "%s.%s.swiper" % (prog, be))
                if os.path.exists(exe):
                    for a in argvs:
                        samples.append((exe, a, flags, "%s %s %s" % (prog, be, a)))
        run_memcheck(ctx, samples, 900)
    if not ctx.violations:
        # the executables are 11 MB each: keep only the sources
        for sub in os.listdir(os.path.join(build.BUILD, "scratch")):
            if sub.startswith("c13_") and os.path.isdir(os.path.join(build.BUILD, "scratch", sub)):
                for f in os.listdir(os.path.join(build.BUILD, "scratch", sub)):
                    if not f.endswith(".dora"):
                        try:
                            os.unlink(os.path.join(build.BUILD, "scratch", sub, f))
                        except OSError:
                            pass
    ctx.extra["collectors"] = list(GCS) + ["zero (heap and size scenarios)"]
    ctx.required_counters = [x for x, s in (("stack_control_runs", "stack"), ("stack_on_thread", "stack"), ("heap_control_runs", "heap"),
                                            ("size_control_runs", "size"), ("size_runs", "size")) if s in only]
    ctx.min_distinct = 20
