"""C02 -- both code generators agree and every run ends in a defined way (DESIGN.md 5 C02).

Oracle (differential + outcome classifier): the same program with the same input is run as built by `dora compile --cannon`
(baseline generator) and by `dora compile` (optimizing generator): stdout bytes, outcome class/status and -- for runs that do
not end with status 0 -- the first stderr line must be identical; and every single run must end as ok | trap | fatal. A signal,
a runtime-internal Rust panic, a verif monitor exit or a one-sided hang is a violation. A watchdog timeout of both is
inconclusive. Thorough tier: a valgrind memcheck sample (plain and --gc-stress); invalid read/write/free or a jump to
unmapped memory is a violation, uninitialised-value reports are only counted.

Workloads: (1) stdlib/intrinsic boundary programs (vlib/stdgen.py), (2) every runnable program of the repository (vlib/corpus.py:
test/rt, bench, unit-test images), (3) type-preserving mutants of (2), (4) the typed generator of vlib/gen with all features on.

Violation keys: c02:<undefined-end|disagree|compile-disagree|memcheck>:<callee or program>:<outcome (pair cannon|boots)>.
"""
import collections
import hashlib
import json
import os
import re
import resource
import shutil
import signal
import subprocess
import time

from .. import build, corpus, execu, progrun, stdgen
from ..core import BUILD, REPO, scratch

CFGS = ("cannon", "boots")
OUT_CAP = 16 << 20          # bytes of stdout+stderr a run may write before it is stopped (SIGXFSZ): flood guard for mutants
RESOURCE_TRAPS = ("trap(STACK_OVERFLOW)", "trap(OOM)")
PRLIMIT = shutil.which("prlimit")


# ---------------------------------------------------------------------------------------------------------------
# running

def sname(ctx, base):
    """Scratch directory name; per seed and tier so that several runs of the check can share one build area."""
    return "%s-%s%d" % (base, ctx.tier[0], ctx.seed)


def cleanup(ctx, *dirs):
    """Executables are ~8 MB each: drop a workload's scratch directory as soon as it is no longer needed."""
    if ctx.opts.get("keep"):
        return
    for d in dirs:
        shutil.rmtree(d, ignore_errors=True)


def run_capped(cmd, timeout, env=None, cwd=None, outdir=None, tag="r"):
    """Like execu.run_cmd, but stdout/stderr go to size-limited files (a mutant that prints forever cannot eat the memory of
    the harness). -> (Outcome, flooded)"""
    e = dict(os.environ)
    e.pop("DORA_FLAGS", None)
    if env:
        e.update(env)
    po, pe = os.path.join(outdir, tag + ".out"), os.path.join(outdir, tag + ".err")

    pre = None
    if PRLIMIT:
        # no preexec_fn: lets subprocess use vfork (a fork of this multi-threaded process per run costs seconds under load)
        cmd = [PRLIMIT, "--fsize=%d" % OUT_CAP, "--core=0"] + list(cmd)
    else:
        def pre():
            resource.setrlimit(resource.RLIMIT_FSIZE, (OUT_CAP, OUT_CAP))
            resource.setrlimit(resource.RLIMIT_CORE, (0, 0))
    t0 = time.time()
    timed_out = False
    with open(po, "wb") as fo, open(pe, "wb") as fe:
        try:
            p = subprocess.Popen(cmd, stdout=fo, stderr=fe, stdin=subprocess.DEVNULL, env=e, cwd=cwd, preexec_fn=pre,
                                 start_new_session=True)
        except OSError as ex:
            return execu.Outcome("harness_error", None, None, b"", str(ex).encode(), 0.0), False
        try:
            p.wait(timeout=timeout)
        except subprocess.TimeoutExpired:
            timed_out = True
            try:
                os.killpg(p.pid, signal.SIGKILL)
            except OSError:
                pass
            p.wait()
    with open(po, "rb") as f:
        out = f.read()
    with open(pe, "rb") as f:
        err = f.read()
    try:
        os.unlink(po)
        os.unlink(pe)
    except OSError:
        pass
    o = execu.classify(p.returncode if not timed_out else -9, out, err, time.time() - t0, timed_out=timed_out)
    flooded = (o.cls == "signal" and o.sig == signal.SIGXFSZ) or len(out) >= OUT_CAP or len(err) >= OUT_CAP
    return o, flooded


def outcome_key(o):
    k = o.key()
    if o.cls == "rust_panic":
        m = re.search(rb"panicked at ([^\s:]+):(\d+)", o.stderr)
        if m:
            f = m.group(1).decode("utf-8", "replace").split("/repo/")[-1]
            f = re.sub(r"^/rustc/[0-9a-f]+/library/", "rustlib/", f)
            k = "rust_panic@%s:%s" % (f, m.group(2).decode())
    return k


def err_line(o):
    """First stderr line, compared for every run that does not end with plain success."""
    if o.cls == "ok" and o.status == 0:
        return ""
    return execu.norm_stderr(o.stderr.split(b"\n", 1)[0]).decode("utf-8", "replace").strip()


class Judge:
    """Shared comparison logic + evidence bookkeeping for all workloads."""

    def __init__(self, ctx):
        self.ctx = ctx
        self.hist = {c: collections.Counter() for c in CFGS}
        self.triples = set()
        self.by_workload = collections.Counter()
        self.nondet = []
        self.timeout_both = collections.Counter()

    def pair(self, wl, ident, cls, runner, files=None, cmd=None, timeout=30, distinct=None, compare_stdout=True):
        """runner(cfg, timeout, attempt) -> (Outcome, flooded). Runs both generators, re-runs where needed, reports."""
        ctx = self.ctx
        res = {c: runner(c, timeout, 0) for c in CFGS}
        return self.judge(wl, ident, cls, res, runner, files, cmd, timeout, distinct, compare_stdout)

    def judge(self, wl, ident, cls, res, runner, files=None, cmd=None, timeout=30, distinct=None, compare_stdout=True):
        ctx = self.ctx
        ctx.count("runs", len(res))
        ctx.count("runs:" + wl, len(res))
        tos = [c for c in CFGS if res[c][0].cls == "timeout"]
        if len(tos) == 1 and runner is not None:
            # only one generator ran into the watchdog: re-run both with 10x the time before judging
            ctx.count("rerun_one_sided_timeout")
            res = {c: runner(c, timeout * 10, 1) for c in CFGS}
            tos = [c for c in CFGS if res[c][0].cls == "timeout"]
        for c in CFGS:
            o = res[c][0]
            self.hist[c][(wl, o.key())] += 1
            self.triples.add((wl, ident, c, o.key()))
        if any(res[c][0].cls == "harness_error" for c in CFGS):
            ctx.inconc("%s %s: could not start the executable" % (wl, ident))
            return "inconclusive"
        if len(tos) == 2:
            self.timeout_both[(wl, cls)] += 1
            ctx.count("timeout_both:" + wl)
            return "timeout"
        if any(res[c][1] for c in CFGS):
            ctx.count("output_flood:" + wl)
            return "flood"
        ctx.observe(distinct if distinct is not None else (wl, ident))
        self.by_workload[wl] += 1
        o1, o2 = res["cannon"][0], res["boots"][0]
        k1, k2 = outcome_key(o1), outcome_key(o2)
        verdict = "agree"
        problems = []
        # (a) every run ends in a defined way
        for c, o, k in (("cannon", o1, k1), ("boots", o2, k2)):
            if o.cls == "timeout":
                continue
            if not o.defined():
                problems.append(("c02:undefined-end:%s:%s" % (cls, k), "%s code generator: run ended as %s" % (c, k)))
        # (b) agreement
        resource_dep = k1 in RESOURCE_TRAPS or k2 in RESOURCE_TRAPS
        if len(tos) == 1:
            other = k2 if tos[0] == "cannon" else k1
            problems.append(("c02:disagree:%s:%s" % (cls, "timeout|%s" % other if tos[0] == "cannon" else "%s|timeout" % other),
                             "only the %s code generator's executable does not finish (watchdog %ds x10)" % (tos[0], timeout)))
        elif resource_dep and (k1 != k2 or o1.stdout != o2.stdout):
            # stack depth / heap exhaustion legitimately differ between generators (frame sizes): excluded by the property
            ctx.count("resource_dependent_not_compared:" + wl)
        elif k1 != k2:
            problems.append(("c02:disagree:%s:%s|%s" % (cls, k1, k2), "outcome differs: cannon %s, boots %s" % (k1, k2)))
        elif compare_stdout and o1.stdout != o2.stdout:
            problems.append(("c02:disagree:%s:stdout(%s)" % (cls, k1), "stdout differs (both end as %s)" % k1))
        elif err_line(o1) != err_line(o2):
            problems.append(("c02:disagree:%s:stderr(%s)" % (cls, k1), "first stderr line differs: %r vs %r" % (err_line(o1), err_line(o2))))
        if problems and runner is not None and any(p[0].startswith("c02:disagree") for p in problems):
            # a program that disagrees with *itself* depends on interleaving/timing: outside the property
            again = {c: runner(c, timeout * (10 if tos else 1), 2) for c in CFGS}
            for c in CFGS:
                a, b = res[c][0], again[c][0]
                if (outcome_key(a), a.stdout, err_line(a)) != (outcome_key(b), b.stdout, err_line(b)):
                    self.nondet.append("%s %s (%s: %s then %s)" % (wl, ident, c, outcome_key(a), outcome_key(b)))
                    ctx.inconc("%s %s: the %s executable does not reproduce its own outcome (timing/interleaving dependent)" % (wl, ident, c))
                    problems = [p for p in problems if not p[0].startswith("c02:disagree")]
                    break
        for key, what in problems:
            verdict = "violation"
            text = ("%s [%s] %s\n%s\ncannon: %s stdout=%r stderr=%r\nboots:  %s stdout=%r stderr=%r" % (
                wl, cls, ident, what, k1, o1.stdout[-300:], o1.stderr[:400], k2, o2.stdout[-300:], o2.stderr[:400]))
            f = dict(files() if callable(files) else (files or {}))
            f["cannon.stdout"], f["boots.stdout"] = o1.stdout[-65536:], o2.stdout[-65536:]
            f["cannon.stderr"], f["boots.stderr"] = o1.stderr[-65536:], o2.stderr[-65536:]
            ctx.violation(key, text, files=f, cmd=cmd)
        return verdict

    def finish(self):
        ctx = self.ctx
        ctx.extra["outcome_histogram"] = {c: {"%s %s" % k: v for k, v in sorted(self.hist[c].items())} for c in CFGS}
        ctx.extra["distinct_program_input_outcome_triples"] = len(self.triples)
        ctx.extra["cases_compared_by_workload"] = dict(self.by_workload)
        ctx.extra["self_nondeterministic"] = self.nondet[:50]
        ctx.extra["timeouts_of_both_generators"] = {"%s %s" % k: v for k, v in self.timeout_both.most_common(60)}
        n = sum(self.timeout_both.values())
        if n:
            ctx.inconc("%d cases ran into the watchdog with both generators (listed under timeouts_of_both_generators)" % n)


def crash_signature(text):
    """Stable one-line signature of a compiler failure: panic site + message, or first error line (+ top Dora frames of a
    fatal error in the optimizing compiler, which is a Dora program)."""
    lines = [l for l in text.splitlines() if l.strip()]
    for i, l in enumerate(lines):
        m = re.match(r"^thread .*panicked at ([^\s:]+:\d+)", l)
        if m:
            nxt = lines[i + 1].strip() if i + 1 < len(lines) else ""
            site = re.sub(r"^/rustc/[0-9a-f]+/library/", "rustlib/", m.group(1).split("/repo/")[-1])
            return "panic@%s:%s" % (site, re.sub(r"\d+", "N", nxt)[:60])
    first = next((l.strip() for l in lines if l.startswith(("fatal error:", "error:"))), lines[-1].strip() if lines else "")
    frames = []
    if first.startswith("fatal error"):
        for l in lines:
            fm = re.match(r"^\s+(.*) \(\S+:\d+:\d+\)\s*$", l)
            if fm and len(frames) < 3:
                frames.append(re.split(r"::", fm.group(1))[-1])
    return re.sub(r"\d+", "N", first)[:120] + ("@" + ">".join(frames) if frames else "")


def compile_problem(ctx, wl, cls, name, errors, exes, source_text):
    """One generator accepted the program and the other did not: violation. (Both failing the same way is not a disagreement
    and is handled by the caller.) -> True if reported"""
    if not errors or len(errors) == len(CFGS):
        return False
    for cfg, r in errors.items():
        cfgname = cfg[0] if isinstance(cfg, tuple) else cfg
        if r.timeout:
            ctx.inconc("%s %s: compile watchdog (%s)" % (wl, name, cfgname))
            return True
        text = progrun.compile_error_text(r)
        ctx.violation("c02:compile-disagree:%s:%s:%s" % (cls, cfgname, crash_signature(text)),
                      "%s %s: the %s code generator fails on a program the other one compiles:\n%s" % (wl, name, cfgname, text[-1500:]),
                      files={"program.dora": source_text})
    return True


def both_fail(ctx, wl, name, errors):
    """Both generators fail on the program. A front-end diagnostic is the workload's problem; a crash of the shared pipeline
    (front end / AOT closure) is recorded in the evidence -- it is no *disagreement* and belongs to C05/C06."""
    texts = [progrun.compile_error_text(r) for r in errors.values()]
    if any(r.timeout for r in errors.values()):
        ctx.inconc("%s %s: compile watchdog" % (wl, name))
        return "timeout"
    if any(re.search(r"(?m)^(thread .*panicked at|fatal error)", t) for t in texts) or not all(re.search(r"(?m)^error", t) for t in texts):
        sigs = sorted({crash_signature(t) for t in texts})
        ctx.count("compiler_crashes_with_both_generators:" + wl)
        lst = ctx.extra.setdefault("compiler_crashes_with_both_generators", [])
        if len(lst) < 60:
            lst.append("%s %s: %s" % (wl, name, " | ".join(sigs)))
        return "crash"
    ctx.count("%s_rejected_by_front_end" % wl)
    return "rejected"


# ---------------------------------------------------------------------------------------------------------------
# workload 1: stdlib / intrinsic boundary programs

def validation_cache_key():
    h = hashlib.sha256()
    files = sorted(os.path.join(REPO, "pkgs", "std", f) for f in os.listdir(os.path.join(REPO, "pkgs", "std")) if f.endswith(".dora"))
    files += [stdgen.__file__, __file__]
    for p in files:
        with open(p, "rb") as f:
            h.update(p.encode() + b"\0" + f.read() + b"\0")
    for b in ("dora", "dora-cannon-compiler"):
        with open(os.path.join(build.bindir("rel"), b), "rb") as f:
            h.update(hashlib.sha256(f.read()).digest())
    return h.hexdigest()[:16]


def front_end_check(d):
    n = [0]

    def check(src):
        n[0] += 1
        p = os.path.join(d, "probe%d.dora" % n[0])
        with open(p, "w") as f:
            f.write(src)
        r = execu.compile_dora(p, p + ".pkg", backend="cannon", extra=["-c"], env={"TMPDIR": d}, timeout=600)
        text = (r.stderr or b"").decode("utf-8", "replace")
        errs = [int(m.group(1)) for m in re.finditer(r"error: [^\n]*\n--> [^\n]*?:(\d+):\d+", text)]
        return r.ok, errs, text
    return check


def backend_validate(ctx, gen, templates, d, chunk=60):
    """Second validation stage: the probe cases must get through the (shared) AOT pipeline of the baseline generator. A
    template whose probe crashes the compiler *after* the front end accepted it is recorded (evidence: compiler_crashes) and
    dropped -- both generators share that part of the pipeline, so this is not a C02 disagreement (C05 territory)."""
    srcs = gen.probe_sources(templates, ctx.rng("std-probe2"))
    chunks = [srcs[i:i + chunk] for i in range(0, len(srcs), chunk)]
    counter = [0]

    def compile_fails(text, full=False):
        counter[0] += 1
        p = os.path.join(d, "be%d_%d.dora" % (os.getpid(), counter[0]))
        with open(p, "w") as f:
            f.write(text)
        r = execu.compile_dora(p, p + ".out", backend="cannon", extra=["-S"], env={"TMPDIR": d}, timeout=900)
        return (not r.ok), progrun.compile_error_text(r)

    def one(ch):
        bad, text = compile_fails(gen.assemble([(s[0], s[1]) for s in ch])[0])
        if not bad:
            return []
        culprits = gen.isolate(ch, lambda t: compile_fails(t)[0])
        out = []
        for s in culprits:
            _, etext = compile_fails(gen.assemble([(s[0], s[1])])[0])
            out.append((s, etext))
        return out
    dropped = set()
    crashes = ctx.extra.setdefault("compiler_crashes_on_accepted_std_calls", [])
    for res in execu.pmap(one, chunks):
        for (fname, text, t), etext in res:
            dropped.add(id(t))
            m = re.search(r"panicked at ([^\s:]+:\d+)[^\n]*\n([^\n]*)", etext)
            site = ("%s (%s)" % (m.group(1), m.group(2).strip()[:80])) if m else etext.strip().splitlines()[-1][:160] if etext.strip() else "?"
            ctx.count("std_templates_crashing_the_shared_pipeline")
            crashes.append("%s: %s" % (t.key(gen.cat), site))
            gen.uninstantiable.append((t.sig.ident() + " " + t.key(gen.cat), "compiler crashes after the front end accepted the call: " + site))
    return [t for t in templates if id(t) not in dropped]


def build_std_programs(ctx, nbatches, per_template, cases_per_program=50):
    cat = stdgen.Catalog(REPO)
    gen = stdgen.Generator(cat)
    tmpls = gen.templates()
    d = scratch(sname(ctx, "c02std-probe"))
    ctx.c02_dirs.append(d)
    # Which templates compile is a function of the std sources, this generator and the compiler binaries: memoised under that
    # content key (the validation itself is ~20 compiler runs over 800-function probe programs).
    ck = validation_cache_key()
    cpath = os.path.join(BUILD, "c02-stdvalid-%s.json" % ck)
    cached = None
    if not ctx.opts.get("novalidcache"):
        try:
            with open(cpath) as f:
                cached = json.load(f)
        except (OSError, ValueError):
            cached = None
    if cached is not None:
        keep = set(cached["good"])
        good = [t for t in tmpls if t.key(cat) in keep]
        gen.uninstantiable += [tuple(x) for x in cached["uninstantiable"]]
        ctx.extra["compiler_crashes_on_accepted_std_calls"] = cached["crashes"]
        ctx.count("std_templates_crashing_the_shared_pipeline", len(cached["crashes"]))
        ctx.count("std_validation_from_cache")
    else:
        n0 = len(gen.uninstantiable)
        good = gen.validate(tmpls, front_end_check(d), ctx.rng("std-validate"))
        good = backend_validate(ctx, gen, good, d)
        try:
            tmp = cpath + ".%d.tmp" % os.getpid()
            with open(tmp, "w") as f:
                json.dump({"good": [t.key(cat) for t in good], "uninstantiable": gen.uninstantiable[n0:],
                           "crashes": ctx.extra.get("compiler_crashes_on_accepted_std_calls", [])}, f)
            os.replace(tmp, cpath)
        except OSError:
            pass
    progs = gen.programs(good, ctx.rng("std-cases"), per_template, cases_per_program, max_cases=nbatches * cases_per_program)
    pub = {s.ident() for s in cat.sigs if s.pub and not s.inherited}
    inh = {s.ident() for s in cat.sigs if s.pub and s.inherited}
    covered = {t.sig.ident() for t in good}
    ctx.count("std_signatures_public", len(pub))
    ctx.count("std_signatures_public_covered", len(pub & covered))
    ctx.count("std_trait_default_methods", len(inh))
    ctx.count("std_trait_default_methods_covered", len(inh & covered))
    ctx.count("std_templates", len(good))
    reasons = collections.Counter()
    detail = []
    seen = set()
    for ident, why in gen.uninstantiable + cat.skipped:
        if ident.split(" ")[0] in covered:
            # another instantiation of the same signature made it
            reasons["(some instantiations only) " + why.split(":")[0][:60]] += 1
            continue
        reasons[why.split(":")[0][:80]] += 1
        if ident not in seen and len(detail) < 150:
            seen.add(ident)
            detail.append("%s: %s" % (ident, why[:160]))
    ctx.extra["std_signatures_skipped_by_reason"] = dict(reasons)
    ctx.extra["std_signatures_skipped"] = detail
    return cat, gen, good, progs


def run_std(ctx, J, mc):
    nb = int(ctx.opts.get("std_batches", ctx.pick(40, 300)))
    per = int(ctx.opts.get("std_per_template", ctx.pick(3, 150)))
    sub = ctx.extra.setdefault("std_subphase_seconds", {})
    t0 = time.time()
    cat, gen, good, progs = build_std_programs(ctx, nb, per, cases_per_program=ctx.pick(50, 80))
    sub["signatures+validation+generation"] = round(time.time() - t0, 1)
    ctx.count("std_programs", len(progs))
    t0 = time.time()
    built, d = progrun.compile_all(sname(ctx, "c02std"), [(p.name, p.source()) for p in progs])
    sub["compile"] = round(time.time() - t0, 1)
    ctx.c02_dirs.append(d)
    cwd = os.path.join(d, "cwd")
    os.makedirs(cwd, exist_ok=True)
    timeout = int(ctx.opts.get("std_timeout", 20))
    jobs = []
    for p in progs:
        b = built[p.name]
        if b.errors:
            if len(b.errors) == len(CFGS):
                # validated per template, not per value combination: a batch that does not build is lost (inconclusive)
                kind = both_fail(ctx, "std", p.name, b.errors)
                if kind != "timeout":
                    ctx.inconc("std batch %s does not build with either generator (%s): %s" % (
                        p.name, kind, progrun.compile_error_text(list(b.errors.values())[0])[-300:]))
            else:
                compile_problem(ctx, "std", "std-batch", p.name, b.errors, b.exes, p.source())
            continue
        for c in p.cases:
            jobs.append((p, c))

    def one(job):
        p, c = job
        b = built[p.name]
        tag = "%s_%d" % (p.name, c.idx)

        def runner(cfg, to, attempt):
            return run_capped([b.exes[(cfg, None)]] + [str(a) for a in c.argv], to, cwd=cwd, outdir=d, tag="%s.%s.%d" % (tag, cfg, attempt))
        res = {cfg: runner(cfg, timeout, 0) for cfg in CFGS}
        return job, res, runner

    t0 = time.time()
    results = execu.pmap(one, jobs)
    sub["run"] = round(time.time() - t0, 1)
    for (p, c), res, runner in results:
        t = c.template
        callee = t.sig.callee()
        ident = "%s case %d: %s [%s]%s" % (p.name, c.idx, t.key(cat), ", ".join(c.labels), " opaque" if c.opaque else "")
        ctx.count("std_cases")

        def files(p=p, c=c):
            lo, hi = p.spans["case_%d" % c.idx]
            return {"program.dora": p.source(), "case.txt": "argv: %s\n%s\n" % (c.argv, "\n".join(p.source().split("\n")[lo - 1:hi]))}
        v = J.judge("std", ident, callee, res, runner, files=files, timeout=timeout,
                    cmd="%s.<cannon|boots>.default %s" % (p.name, " ".join(str(a) for a in c.argv)),
                    distinct=("std", t.key(cat), tuple(c.labels)))
        if v == "agree":
            # runs that ended in a defined way natively are candidates for the memcheck sample
            for cfg in CFGS:
                mc.append(("%s (%s)" % (ident, cfg), callee, built[p.name].exes[(cfg, None)], c.argv, res[cfg][0].key(), files))
        if v == "agree" and ctx.counters.get("std_cases", 0) % 499 == 1:
            ctx.sample({"workload": "std", "call": t.key(cat), "values": c.labels, "opaque_operands": c.opaque,
                        "outcome": res["boots"][0].key(), "stdout": res["boots"][0].stdout[:120].decode("utf-8", "replace")}, limit=8)


# ---------------------------------------------------------------------------------------------------------------
# workload 2: repository programs

def run_corpus(ctx, J):
    progs = corpus.list_programs(REPO)
    excl = corpus.exclusions(progs)
    good = [p for p in progs if p.exclusion is None]
    ctx.count("corpus_programs_total", len(progs))
    ctx.count("corpus_programs_eligible", len(good))
    ctx.extra["corpus_excluded"] = ["%s: %s" % e for e in excl]
    n = int(ctx.opts.get("corpus_n", ctx.pick(250, len(good))))
    sel = list(good)
    if n < len(sel):
        ctx.rng("corpus-slice").shuffle(sel)
        sel = sorted(sel[:n], key=lambda p: p.rel)
    ctx.count("corpus_programs_selected", len(sel))
    built, d = corpus.compile_programs(sname(ctx, "c02corpus"), [(p.rel, p, None) for p in sel])
    todo = []
    expect_miss = []
    for p in sel:
        b = built[p.rel]
        if b.errors:
            if len(b.errors) == len(CFGS):
                if both_fail(ctx, "corpus", p.rel, b.errors) == "rejected":
                    ctx.extra.setdefault("corpus_rejected_by_front_end", []).append(
                        "%s: %s" % (p.rel, progrun.compile_error_text(b.errors["cannon"])[-200:]))
            else:
                compile_problem(ctx, "corpus", p.rel, p.rel, b.errors, b.exes, p.text())
            continue
        todo.append(p)

    def one(p):
        b = built[p.rel]

        def runner(cfg, to, attempt):
            o = corpus.run_built(d, b, cfg, timeout=to, tagsuffix=".%d" % attempt)
            return o, False
        to = (p.timeout or 60) * 2
        res = {cfg: runner(cfg, to, 0) for cfg in CFGS}
        return p, res, runner, to

    times = {}
    for p, res, runner, to in execu.pmap(one, todo):
        ctx.count("corpus_programs_run")
        times[p.rel] = max(res[c][0].wall for c in CFGS)
        for c in CFGS:
            e = corpus.check_expectation(p, res[c][0])
            if e and res[c][0].cls != "timeout":
                expect_miss.append("%s (%s): %s" % (p.rel, c, e))
        v = J.judge("corpus", p.rel, p.rel, res, runner, files={"program.dora": p.text(), "annotations.json": repr(p.describe())},
                    timeout=to, cmd="cd <scratch cwd> && DORA_FLAGS=%r <exe> %s" % (p.dora_flags("boots") or "", " ".join(p.args_for("boots"))))
        if v == "agree" and ctx.counters.get("corpus_programs_run", 0) % 211 == 1:
            ctx.sample({"workload": "corpus", "program": p.describe(), "outcome": res["boots"][0].key()}, limit=8)
    ctx.count("corpus_expectation_mismatch", len(expect_miss))
    ctx.extra["corpus_expectation_mismatch"] = expect_miss[:40]
    cleanup(ctx, d)
    return sel, built, times, d


# ---------------------------------------------------------------------------------------------------------------
# workload 2b: unit-test images (`dora compile --test`)

def run_unit_tests(ctx, J):
    d = scratch(sname(ctx, "c02ut"))
    src = os.path.join(REPO, "pkgs", "boots", "boots.dora")
    exes, errs = {}, {}

    def comp(cfg):
        out = os.path.join(d, "boots-tests." + cfg)
        r = execu.compile_dora(src, out, backend=cfg, extra=["--internal-compile-boots", "--test"], timeout=1200, env={"TMPDIR": d}, cwd=REPO)
        return cfg, out, r
    for cfg, out, r in execu.pmap(comp, CFGS):
        if r.ok and os.path.exists(out):
            exes[cfg] = out
        else:
            errs[cfg] = r
    if errs:
        if len(errs) == 2:
            ctx.inconc("unit tests: boots test image does not build with either generator: %s" % progrun.compile_error_text(list(errs.values())[0])[-300:])
        else:
            compile_problem(ctx, "unittests", "pkgs/boots --test", "pkgs/boots", errs, exes, "dora compile --internal-compile-boots --test pkgs/boots/boots.dora")
        return

    def runner(cfg, to, attempt):
        return run_capped([exes[cfg]], to, cwd=d, outdir=d, tag="ut.%s.%d" % (cfg, attempt))
    res = {cfg: runner(cfg, 600, 0) for cfg in CFGS}
    J.judge("unittests", "pkgs/boots --test", "pkgs/boots:unit-tests", res, runner, timeout=600,
            files={"how.txt": "dora compile [--cannon] --internal-compile-boots --test pkgs/boots/boots.dora -o t && ./t"})
    m = re.search(rb"(\d+) tests executed; (\d+) passed", res["boots"][0].stdout)
    if m:
        ctx.count("unit_tests_in_image", int(m.group(1)))
    cleanup(ctx, d)


# ---------------------------------------------------------------------------------------------------------------
# workload 3: type-preserving mutants of repository programs

INT64_BOUNDS = ["0", "1", "(-1)", "9223372036854775807", "(-9223372036854775807 - 1)", "2147483648", "4294967296", "63", "64", "2305843009213693953"]
INT32_BOUNDS = ["0i32", "1i32", "(-1i32)", "2147483647i32", "(-2147483647i32 - 1i32)", "31i32", "32i32", "65536i32"]
UINT8_BOUNDS = ["0u8", "1u8", "127u8", "128u8", "255u8"]
TOK = re.compile(r"(?P<num>(?<![\w.])\d[\d_]*(?:i32|i64|u8)?(?![\w.]))|(?P<op>>>>|>>|<<|>=|<=|==|!=|=>|->|&&|\|\||\+=|-=|\*=|/=|[<>+\-*/%])")
CMP_SWAP = {"<": ["<=", ">", "!="], "<=": ["<", ">="], ">": [">=", "<", "=="], ">=": [">", "<="], "==": ["!="], "!=": ["=="]}
ARITH_SWAP = {"+": ["-", "*"], "-": ["+"], "*": ["+", "/"], "/": ["*", "%"], "%": ["/"], ">>": [">>>", "<<"], ">>>": [">>"], "<<": [">>"]}


def mutation_sites(text):
    blank = stdgen.blank_comments_and_strings(text)
    # keep //= lines and template holes out of it: blanked already (comments / string contents)
    sites = []
    for m in TOK.finditer(blank):
        if m.group("num"):
            tok = m.group("num")
            line = blank[blank.rfind("\n", 0, m.start()) + 1: blank.find("\n", m.end()) if blank.find("\n", m.end()) >= 0 else len(blank)]
            loop = bool(re.search(r"\b(while|for)\b", line))
            sites.append((m.start(), m.end(), "num", tok, loop))
        else:
            op = m.group("op")
            if op in CMP_SWAP:
                sites.append((m.start(), m.end(), "cmp", op, False))
            elif op in ARITH_SWAP:
                sites.append((m.start(), m.end(), "arith", op, False))
    return sites


def mutate(text, rng):
    """-> (mutated text, description) or None"""
    sites = mutation_sites(text)
    if not sites:
        return None
    lo, hi, kind, tok, loop = rng.choice(sites)
    if kind == "num":
        digits = re.match(r"[\d_]+", tok).group(0).replace("_", "")
        suffix = tok[len(re.match(r"[\d_]+", tok).group(0)):]
        val = int(digits)
        pm = ["%d%s" % (val + 1, suffix)] + (["%d%s" % (val - 1, suffix)] if val > 0 else [])
        if loop or rng.random() < 0.35:
            new, what = rng.choice(pm), "loop-bound/literal +-1"
        else:
            pool = {"i32": INT32_BOUNDS, "u8": UINT8_BOUNDS}.get(suffix, INT64_BOUNDS)
            new, what = rng.choice(pool), "boundary literal"
            if suffix == "i64":
                new = new.replace(")", "i64)") if new.startswith("(") and " - " not in new else (new if new.startswith("(") else new + "i64")
    else:
        new = rng.choice((CMP_SWAP if kind == "cmp" else ARITH_SWAP)[tok])
        what = "comparison operator" if kind == "cmp" else "arithmetic operator"
    if new == tok:
        return None
    line = text.count("\n", 0, lo) + 1
    return text[:lo] + new + text[hi:], "%s: `%s` -> `%s` at line %d" % (what, tok, new, line)


def run_mutants(ctx, J, sel, times):
    n = int(ctx.opts.get("mutants", ctx.pick(100, 1500)))
    base = [p for p in sel if p.source_rel == p.rel and p.kind == "rt" and times.get(p.rel, 99) < 5.0
            and not re.search(r"(?m)^\s*(pub\s+)?mod\s+\w+\s*;", p.text()) and "thread" not in p.text().lower()
            and not p.needs_files()]
    ctx.count("mutant_base_programs", len(base))
    if not base:
        return
    d = scratch(sname(ctx, "c02mut-src"))
    items, meta = [], {}
    tries = 0
    i = 0
    while len(items) < n and tries < n * 6:
        tries += 1
        r = ctx.rng("mutant", tries)
        p = r.choice(base)
        mu = mutate(p.text(), r)
        if mu is None:
            continue
        text, what = mu
        tag = "m%05d" % i
        i += 1
        path = os.path.join(d, tag + ".dora")
        with open(path, "w") as f:
            f.write(text)
        items.append((tag, p, path))
        meta[tag] = (p, what, text)
    ctx.count("mutants_generated", len(items))
    built, bd = corpus.compile_programs(sname(ctx, "c02mut"), items)
    todo = []
    for tag, p, path in items:
        b = built[tag]
        if b.errors:
            if len(b.errors) == len(CFGS):
                both_fail(ctx, "mutants", tag + " of " + p.rel + " (" + meta[tag][1] + ")", b.errors)
            else:
                compile_problem(ctx, "mutant", "mutant:" + p.rel, tag + " " + meta[tag][1], b.errors, b.exes, meta[tag][2])
            continue
        todo.append(tag)
    ctx.count("mutants_compiled_by_both", len(todo))
    short_to = int(ctx.opts.get("mutant_timeout", 10))

    def one(tag):
        b = built[tag]
        p = b.prog

        def runner(cfg, to, attempt):
            env = {}
            fl = p.dora_flags(cfg)
            if fl:
                env["DORA_FLAGS"] = fl
            cwd = os.path.join(bd, "cwd")
            os.makedirs(cwd, exist_ok=True)
            return run_capped([b.exes[cfg]] + p.args_for(cfg), to, env=env, cwd=cwd, outdir=bd, tag="%s.%s.%d" % (tag, cfg, attempt))
        res = {cfg: runner(cfg, short_to, 0) for cfg in CFGS}
        return tag, res, runner

    for tag, res, runner in execu.pmap(one, todo):
        p, what, text = meta[tag]
        ctx.count("mutants_run")
        v = J.judge("mutant", "%s of %s (%s)" % (tag, p.rel, what), "mutant:" + p.rel, res, runner,
                    files={"mutant.dora": text, "mutation.txt": "%s\noriginal: %s\nargs: %s flags: %s\n" % (what, p.rel, p.args_for("boots"), p.dora_flags("boots"))},
                    timeout=short_to, distinct=("mutant", p.rel, what))
        if res["boots"][0].key() != "ok(0)" and v == "agree":
            ctx.count("mutants_changing_the_outcome")
        if v == "agree" and ctx.counters.get("mutants_run", 0) % 97 == 1:
            ctx.sample({"workload": "mutant", "of": p.rel, "mutation": what, "outcome": res["boots"][0].key()}, limit=10)
    cleanup(ctx, d, bd)


# ---------------------------------------------------------------------------------------------------------------
# workload 4: typed generator, all features

def run_gen(ctx, J, mc):
    from . import c01
    from ..gen import build as gbuild
    n = int(ctx.opts.get("gen_batches", ctx.pick(6, 60)))
    progs = c01.gen_programs(ctx, n, 40, stream="c02", feature_sets=[gbuild.ALL_FEATURES])
    built, d = progrun.compile_all(sname(ctx, "c02gen"), [(nm, p.source()) for nm, p in progs])
    ctx.c02_dirs.append(d)
    cwd = os.path.join(d, "cwd")
    os.makedirs(cwd, exist_ok=True)
    jobs = []
    for nm, p in progs:
        b = built[nm]
        if b.errors:
            if any(r.timeout for r in b.errors.values()):
                ctx.inconc("gen %s: compile watchdog" % nm)
            elif len(b.errors) == len(CFGS):
                # C01 owns "well-typed generated programs are accepted"; here only the differential matters
                ctx.count("gen_batches_rejected_by_both")
                ctx.inconc("gen %s rejected by both generators (C01's finding): %s" % (nm, progrun.compile_error_text(list(b.errors.values())[0])[-200:]))
            else:
                compile_problem(ctx, "gen", "gen", nm, b.errors, b.exes, p.source())
            continue
        for c in p.cases:
            jobs.append((nm, p, c))
    ctx.count("gen_programs", len(progs))

    def one(job):
        nm, p, c = job
        b = built[nm]

        def runner(cfg, to, attempt):
            return run_capped([b.exes[(cfg, None)]] + [str(a) for a in [c.idx] + list(c.inputs)], to, cwd=cwd, outdir=d,
                              tag="%s_%d.%s.%d" % (nm, c.idx, cfg, attempt))
        res = {cfg: runner(cfg, 30, 0) for cfg in CFGS}
        return job, res, runner

    for (nm, p, c), res, runner in execu.pmap(one, jobs):
        ctx.count("gen_cases")
        exp_kind = c.expect[1]
        files = {"program.dora": p.source(), "case.txt": "case %d inputs %s\n%s\n" % (c.idx, list(c.inputs), c.fn.src())}
        v = J.judge("gen", "%s case %d inputs %s" % (nm, c.idx, list(c.inputs)), "gen(%s)" % exp_kind.split("(")[0], res, runner,
                    files=files, timeout=30, distinct=("gen", c01.shape_hash(c)),
                    cmd="%s.<cannon|boots>.default %s" % (nm, " ".join(str(x) for x in [c.idx] + list(c.inputs))))
        if v == "agree" and c.idx % 4 == 0:
            for cfg in CFGS:
                mc.append(("gen %s case %d (%s)" % (nm, c.idx, cfg), "gen", built[nm].exes[(cfg, None)], [c.idx] + list(c.inputs),
                           res[cfg][0].key(), files))


# ---------------------------------------------------------------------------------------------------------------
# operator matrix (added because of seeded change C02: a fused float compare-and-branch that is wrong only for NaN operands)

OPS_TYPES = {
    "Float64": ["0.0", "-0.0", "1.0", "-1.0", "1.5", "2.5", "0.0 / 0.0", "-(0.0 / 0.0)", "1.0 / 0.0", "-1.0 / 0.0", "1.0e308", "5.0e-324", "-5.0e-324", "0.1 + 0.2", "0.3"],
    "Float32": ["0.0f32", "-0.0f32", "1.0f32", "-1.0f32", "1.5f32", "0.0f32 / 0.0f32", "-(0.0f32 / 0.0f32)", "1.0f32 / 0.0f32", "-1.0f32 / 0.0f32", "3.0e38f32",
                "1.0e-45f32", "0.1f32 + 0.2f32", "0.3f32"],
    "Int64": ["0", "1", "-1", "2", "9223372036854775807", "-9223372036854775807 - 1", "4294967296", "-4294967296", "2147483648", "255"],
    "Int32": ["0i32", "1i32", "-1i32", "2i32", "2147483647i32", "-2147483647i32 - 1i32", "65536i32", "-65536i32", "128i32", "255i32"],
    "UInt8": ["0u8", "1u8", "2u8", "127u8", "128u8", "129u8", "200u8", "254u8", "255u8"],
    "Char": ["'a'", "'b'", "'A'", "'z'", "'0'", "' '", "'ß'", "'中'", "'😀'", "'~'", "'é'"],
    "String": ["\"\"", "\"a\"", "\"b\"", "\"ab\"", "\"aa\"", "\"A\"", "\"a \"", "\"ß\"", "\"中\"", "\"abcdefghijklmnopqrstuvwxyz\"", "\"abcdefghijklmnopqrstuvwxyZ\""],
    "Bool": ["true", "false"],
}
OPS_CMP = [("lt", "<"), ("le", "<="), ("gt", ">"), ("ge", ">="), ("eq", "=="), ("ne", "!=")]
OPS_CTX = [
    ("if", "if a OP b { 1 } else { 0 }"),
    ("let", "let c = a OP b; if c { 1 } else { 0 }"),
    ("ifnot", "if !(a OP b) { 0 } else { 1 }"),
    ("while", "let mut r = 0; while a OP b { r = 1; break; } r"),
    ("and", "if a OP b && t { 1 } else { 0 }"),
    ("or", "if f || a OP b { 1 } else { 0 }"),
    ("and2", "if t && a OP b { 1 } else { 0 }"),
    ("call", "pass_bool(a OP b)"),
    ("guard", "match 0 { _ if a OP b => 1, _ => 0 }"),
    ("value", "(if a OP b { 2 } else { 3 }) * 5 - 10 + (if b OP a { 7 } else { 0 })"),
    ("loop", "let mut n = 0; let mut r = 0; while n < 3 { if a OP b { r = r + 1; } n = n + 1; } r"),
]


def ops_program(ty, rng):
    vals = list(OPS_TYPES[ty])
    rng.shuffle(vals)
    cmps = OPS_CMP if ty != "Bool" else OPS_CMP[4:]
    L = ["fn pass_bool(x: Bool): Int64 { if x { 1 } else { 0 } }",
         "fn show(x: Int64) { print(\"${x} \"); }"]
    calls = []
    for oname, op in cmps:
        for cname, body in OPS_CTX:
            f = "f_%s_%s" % (oname, cname)
            L.append("fn %s(a: %s, b: %s, t: Bool, f: Bool): Int64 { %s }" % (f, ty, ty, body.replace("OP", op)))
            L.append("fn run_%s_%s(vals: Array[%s], t: Bool, f: Bool) {" % (oname, cname, ty))
            L.append("    print(\"%s %s %s: \");" % (ty, op, cname))
            L.append("    let mut i = 0;")
            L.append("    while i < vals.size() {")
            L.append("        let mut j = 0;")
            L.append("        while j < vals.size() { show(%s(vals(i), vals(j), t, f)); j = j + 1; }" % f)
            L.append("        i = i + 1;")
            L.append("    }")
            L.append("    println(\"\");")
            L.append("}")
            calls.append("run_%s_%s(vals, std::argc() < 100i32, std::argc() > 100i32);" % (oname, cname))
    L.append("fn main() {")
    L.append("    let vals = Array[%s]::new(%s);" % (ty, ", ".join(vals)))
    for c in calls:
        L.append("    " + c)
    L.append("}")
    return "\n".join(L) + "\n"


def run_ops(ctx, J):
    progs = []
    for i, ty in enumerate(OPS_TYPES):
        progs.append(("ops_%s" % ty, ty, ops_program(ty, ctx.rng("ops", i))))
    built, d = progrun.compile_all(sname(ctx, "c02ops"), [(nm, src) for nm, ty, src in progs])
    ctx.c02_dirs.append(d)
    cwd = os.path.join(d, "cwd")
    os.makedirs(cwd, exist_ok=True)
    for nm, ty, src in progs:
        b = built[nm]
        if b.errors:
            if any(r.timeout for r in b.errors.values()):
                ctx.inconc("ops %s: compile watchdog" % nm)
            elif len(b.errors) == len(CFGS):
                ctx.inconc("ops %s: rejected by both generators (template error): %s" % (nm, progrun.compile_error_text(list(b.errors.values())[0])[-200:]))
            else:
                compile_problem(ctx, "ops", "ops:" + ty, nm, b.errors, b.exes, src)
            continue

        def runner(cfg, to, attempt, b=b, nm=nm):
            return run_capped([b.exes[(cfg, None)]], to, cwd=cwd, outdir=d, tag="%s.%s.%d" % (nm, cfg, attempt))
        res = {cfg: runner(cfg, 60, 0) for cfg in CFGS}
        nvals = len(OPS_TYPES[ty])
        ncmp = (len(OPS_CMP) if ty != "Bool" else 2) * len(OPS_CTX)
        ctx.count("ops_programs")
        ctx.count("ops_comparisons_evaluated", ncmp * nvals * nvals)
        out = res["cannon"][0].stdout
        if out.count(b"\n") != ncmp:
            ctx.inconc("ops %s: expected %d output lines, saw %d" % (nm, ncmp, out.count(b"\n")))
        J.judge("ops", nm, "ops:" + ty, res, runner, files={"program.dora": src}, timeout=60, cmd="%s.<cannon|boots>.default" % nm)
        lines = out.splitlines()[:ncmp]
        for line in lines:
            ctx.observe(("ops", line.split(b":")[0]))
        if lines:
            ctx.sample({"workload": "ops", "type": ty, "values": OPS_TYPES[ty][:6], "first_line_of_output": lines[0].decode("utf-8", "replace")[:160],
                        "outcome": res["boots"][0].key()}, limit=12)


# ---------------------------------------------------------------------------------------------------------------
# memcheck sample (thorough)

MC_BAD = re.compile(rb"==\d+== (Invalid (read|write|free)[^\n]*|Jump to the invalid address[^\n]*|Mismatched free[^\n]*|Process terminating with default action of signal (\d+)[^\n]*)")
MC_UNINIT = re.compile(rb"==\d+== (Conditional jump or move depends on uninitialised|Use of uninitialised|Syscall param [^\n]* uninitialised)")


def run_memcheck(ctx, J, candidates):
    """candidates: [(ident, class, exe, argv, native outcome key, files)] of runs that ended in a defined way natively."""
    n = int(ctx.opts.get("memcheck", ctx.pick(0, 240)))
    if not n or not candidates:
        return
    vg = "/usr/bin/valgrind"
    if not os.path.exists(vg):
        ctx.inconc("memcheck: valgrind not installed")
        return
    r = ctx.rng("memcheck")
    r.shuffle(candidates)
    d = scratch(sname(ctx, "c02mc"))
    jobs = []
    for i, cand in enumerate(candidates[:n]):
        jobs.append((i, cand, "--gc-stress" if i % 3 == 2 else None))

    def one(job):
        i, (ident, cls, exe, argv, native, files), flags = job
        env = {"DORA_FLAGS": flags} if flags else {}
        cmd = [vg, "--tool=memcheck", "--error-exitcode=0", "--num-callers=12", "--undef-value-errors=yes", "--child-silent-after-fork=yes",
               exe] + [str(a) for a in argv]
        o, _ = run_capped(cmd, 1200, env=env, cwd=d, outdir=d, tag="mc%d" % i)
        return job, o

    for (i, (ident, cls, exe, argv, native, files), flags), o in execu.pmap(one, jobs):
        ctx.count("memcheck_runs")
        if o.cls == "timeout":
            ctx.inconc("memcheck watchdog: %s" % ident)
            continue
        if b"valgrind:" in o.stderr[:4000] and b"==" not in o.stderr[:200000]:
            ctx.inconc("memcheck tool failure: %s" % o.stderr[:200])
            continue
        ctx.observe(("memcheck", ident, flags))
        ctx.count("memcheck_runs_" + ("gc_stress" if flags else "plain"))
        un = len(MC_UNINIT.findall(o.stderr))
        if un:
            ctx.count("memcheck_uninitialised_value_reports_not_judged", un)
        m = MC_BAD.search(o.stderr)
        if m:
            kind = re.sub(rb"\d+", b"N", m.group(1)).decode("utf-8", "replace")[:60]
            at = o.stderr[m.end():m.end() + 600]
            fm = re.search(rb"(?:at|by) 0x[0-9A-F]+: (\S+)", at)
            where = fm.group(1).decode("utf-8", "replace")[:80] if fm else "?"
            f = dict(files() if callable(files) else files)
            f["valgrind.stderr"] = o.stderr[-200000:]
            ctx.violation("c02:memcheck:%s:%s@%s" % (cls, kind.split(" of size")[0], where),
                          "memcheck (%s) on %s [native outcome %s]: %s\n%s" % (flags or "plain", ident, native, kind,
                                                                               at.decode("utf-8", "replace")[:600]),
                          files=f, cmd="DORA_FLAGS=%r valgrind %s %s" % (flags or "", os.path.basename(exe), " ".join(str(a) for a in argv)))


# ---------------------------------------------------------------------------------------------------------------

def run(ctx):
    build.ensure_toolchain("rel")
    only = set(ctx.opts["only"].split(",")) if ctx.opts.get("only") else None

    def on(w):
        return only is None or w in only
    ctx.rule = ("case = one program + one input run on both code generators (std: one call of one instantiated std signature with one "
                "combination of boundary values; corpus: one repository program with its annotated arguments/flags; mutant: one "
                "single-token mutant of a repository program; gen: one generated case; unittests: the package's unit-test image; ops: one "
                "type's comparison-operator matrix -- every operator x 11 syntactic contexts (if/while/&&/||/let/call/guard/value) x all "
                "ordered pairs of boundary values incl. NaN, signed zeros, infinities, extremes); "
                "non-trivial = both executables were built and at least one of them ran to a conclusion that was compared; "
                "distinct = distinct (call template, value labels) / program / (program, mutation) / IR shape")
    ctx.assumptions = [
        "programs excluded from the corpus are exactly those listed under corpus_excluded (time, sleep, network, //= ignore|flaky)",
        "a program whose own executable does not reproduce its outcome on an immediate re-run is treated as interleaving dependent",
        "when one side ends with a stack-overflow or out-of-memory trap, outputs are not compared (frame sizes differ legitimately)",
        "memcheck sees the managed heap as one addressable mapping: only accesses outside any mapping / freed native memory are caught",
    ]
    J = Judge(ctx)
    mc = []
    ctx.c02_dirs = []
    phases = ctx.extra.setdefault("phase_seconds", {})
    tlast = [time.time()]

    def lap(name):
        phases[name] = round(time.time() - tlast[0], 1)
        tlast[0] = time.time()
    lap("build")
    if on("std"):
        run_std(ctx, J, mc)
        lap("std")
    sel = times = None
    if on("corpus") or on("mutants"):
        sel, cbuilt, times, cd = run_corpus(ctx, J)
        lap("corpus")
    if on("unittests"):
        run_unit_tests(ctx, J)
        lap("unittests")
    if on("mutants") and sel:
        run_mutants(ctx, J, sel, times)
        lap("mutants")
    if on("gen"):
        run_gen(ctx, J, mc)
        lap("gen")
    if on("ops"):
        run_ops(ctx, J)
        lap("ops")
    if on("memcheck") and mc:
        run_memcheck(ctx, J, mc)
        lap("memcheck")
    cleanup(ctx, *ctx.c02_dirs)
    J.finish()
    if only is None:
        ctx.required_counters = ["std_cases", "corpus_programs_run", "mutants_run", "gen_cases", "ops_comparisons_evaluated"]
    ctx.min_distinct = 20
