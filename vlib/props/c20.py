"""C20 -- editor positions and symbol ranges always match the document (DESIGN.md 5 C20).

Part 1 (harness/vh-lsp `pos`, in-process, the *real* dora-language-server/src/position.rs included by path):
for every char-boundary offset o of every text (also the offset between \\r and \\n, and len):
utf8_offset_to_utf16_position(o) equals an independent one-pass reference of the LSP line/UTF-16 arithmetic and
utf16_position_to_utf8_offset maps it back to o; a grid of (line, column) positions incl. out-of-range lines and
columns and columns inside surrogate pairs maps into [0, len], onto a char boundary, inside the addressed line,
to the reference offset where the reference is exact, monotonically; no panic.

Part 2 (vlib/lspdrive.py): the real `dora-language-server` binary over stdio. Every text becomes the main file of
its own project; didOpen / didChange+didSave / debounced didChange, then documentSymbol + formatting and a probe
request that acts as barrier (single FIFO worker, see lspdrive.py); workspace/symbol once per session.
Oracle: every range / selectionRange / diagnostic range consists of positions *of the document* (line exists,
column <= UTF-16 length of the line content, not inside a surrogate pair), start <= end, selectionRange inside
range, child range inside parent range, the document text at the selection range is the symbol's name; every
request is answered without `error`; the server does not die.
"""
import json
import os
import time
from concurrent.futures import ThreadPoolExecutor

from .. import build, inproc
from .. import lspdrive as L
from ..core import BUILD, NCPU, REPO, scratch

PROBE_TEXT = "fn probe() {}\n"


def _tag(ctx):
    """Scratch directories are per (tier, seed) so that concurrent runs of this check do not wipe each other."""
    return "%s-s%d" % (ctx.tier, ctx.seed)
SESSION_TEXTS = 10


def run(ctx):
    build.ensure_harness(["vh-lsp"])
    bindir = build.ensure_toolchain("rel", need_boots=False)
    ctx.rule = (
        "part 1: case = generated text (families: hostile fixed list [empty, lone CR, CRLF at EOF, BOM, astral chars, "
        "...], random pieces over {CR, LF, CRLF, astral, BMP, BOM, combining}, repository files as is and as CRLF/CR/BOM "
        "variants, mixed line endings, multi-byte insertions, random UTF-8, token replace/truncate, token soup, very "
        "long lines, generated declaration files); for texts <= 6000 bytes every char-boundary offset is checked, "
        "else 700 random + all around line breaks/astral chars + the last line; part 2: case = text sent through the "
        "real server. distinct = distinct text hash (part 1) / distinct text hash prefixed 'srv:' (part 2); a case is "
        "non-trivial when the real position code resp. the real server evaluated it (all counted cases)")
    ctx.assumptions = [
        "line breaks are \\n, \\r\\n and lone \\r (LSP 3.17); U+2028/U+2029/U+0085 are not line breaks",
        "a column past the end of a line may be clamped anywhere from the end of the line content to the start of the "
        "next line (LSP: 'defaults back to the line length'; clients differ on whether the terminator counts)",
        "a column inside a surrogate pair may resolve to either side of that character",
        "the whole-document TextEdit of textDocument/formatting ends at (u32::MAX, u32::MAX) by design; it is checked "
        "to start at (0,0) and to cover the document, not to lie inside it",
        "server: one worker thread, FIFO result channel (barrier by probe request, no timers in verdicts)",
    ]
    ctx.required_counters = ["offsets_checked", "positions_checked", "server_texts", "server_symbols",
                             "server_requests_answered", "server_diagnostics_checked"]
    part1(ctx)
    part2(ctx, os.path.join(bindir, "dora-language-server"))


# ---------------------------------------------------------------------------------------------------


def part1(ctx):
    count = int(ctx.opts.get("pos", ctx.pick(16000, 400000)))
    r = inproc.run_sharded("vh-lsp", "pos", ctx.seed, count, "c20-pos-" + _tag(ctx), timeout=ctx.pick(900, 3600))
    for o in r.ok:
        ctx.observe(o.get("h"))
    for k, v in r.stats.items():
        if isinstance(v, (int, float)):
            ctx.count(k, v)
    seen = set()
    for o in r.ok:
        if o.get("snip") is not None and o.get("fam") not in seen and o.get("idx", 99) < 64 and len(seen) < 5:
            seen.add(o.get("fam"))
            ctx.sample({"part": "in-process", "case_index": o["idx"], "family": o["fam"], "bytes": o.get("len"),
                        "text_first_120_chars": o["snip"]}, limit=5)
    for o in r.bad:
        if o["key"].startswith("panic@"):
            ctx.count("position_code_panics")
        ctx.violation(o["key"], "%s [family %s, case %d]" % (o["what"], o.get("family"), o["idx"]),
                      files={"input.txt": o.get("input", "").encode("utf-8")},
                      cmd="%s pos --seed %d --count %d --only %d --out /tmp/x" % (
                          build.harness_bin("vh-lsp"), ctx.seed, count, o["idx"]))
    for d in r.deaths:
        ctx.violation("c20:child-death:rc=%s" % d["rc"],
                      "position harness child died (rc=%s) on case %s: %s" % (d["rc"], d["idx"], d["log"][-400:]),
                      files={"input.txt": d["input"].encode("utf-8", "replace")})
    for s in r.timeouts:
        ctx.inconc("in-process shard %d hit the wall-clock watchdog" % s)


# ---------------------------------------------------------------------------------------------------


class TextResult:
    def __init__(self, case):
        self.case = case
        self.bad = []        # (key, what, extra files)
        self.stats = {}
        self.inconc = None
        self.done = False


def _check_answers(doc, docs, srv, ids, res, notes):
    """ids: subset of {"sym": id, "fmt": id}; responses are in srv.responses (or lost)."""
    st = res.stats
    for kind, method in (("sym", "textDocument/documentSymbol"), ("fmt", "textDocument/formatting")):
        if kind not in ids:
            continue
        rid = ids[kind]
        m = srv.responses.get(rid)
        if m is None:
            pk = L.panic_key(srv.stderr_text(), (REPO + "/", "/repo/"))
            if pk:
                res.bad.append((pk[0], "the server's worker %s while handling %s; the request was never answered "
                                       "although a later request was" % (pk[1], method), {}))
            else:
                res.bad.append(("c20:no-response:%s" % method,
                                "%s was never answered although a later request was" % method, {}))
            continue
        st["server_requests_answered"] = st.get("server_requests_answered", 0) + 1
        if "error" in m:
            res.bad.append(("c20:error-response:%s:%s" % (method, m["error"].get("code")),
                            "%s answered with an error: %s" % (method, json.dumps(m["error"])[:300]), {}))
            continue
        out = []
        if kind == "sym":
            result = m.get("result") or []
            L.check_symbol_tree(doc, result, out, st)
            extra = {"documentSymbol.json": json.dumps(result, indent=1)}
        else:
            result = m.get("result") or []
            st["format_edits"] = st.get("format_edits", 0) + len(result)
            for e in result:
                rg = e.get("range", {})
                s, en = rg.get("start", {}), rg.get("end", {})
                last = len(doc.lines) - 1
                covers = (s.get("line"), s.get("character")) == (0, 0) and \
                    (en.get("line", -1), en.get("character", -1)) >= (last, doc.line_u16(last))
                if len(result) != 1 or not covers:
                    out.append(("c20:format-edit-not-whole-document",
                                "formatting returned %d edits; edit range %s does not cover the %d-line document" % (
                                    len(result), json.dumps(rg), len(doc.lines))))
            extra = {}
        for key, what in out[:6]:
            res.bad.append((key, what, extra))
    for method, params in notes:
        if method != "textDocument/publishDiagnostics":
            st["other_notifications"] = st.get("other_notifications", 0) + 1
            continue
        u = params.get("uri")
        d = docs.get(u)
        if d is None:
            # a file the client never opened (standard library, `mod x;` siblings): the server read it from disk
            try:
                from urllib.parse import unquote
                with open(unquote(u[len("file://"):]), encoding="utf-8", newline="") as f:
                    d = docs[u] = L.Doc(f.read())
                st["diagnosed_files_read_from_disk"] = st.get("diagnosed_files_read_from_disk", 0) + 1
            except (OSError, UnicodeDecodeError, TypeError):
                res.bad.append(("c20:diagnostics-for-unknown-uri",
                                "publishDiagnostics for %s which was never opened and cannot be read" % u, {}))
                continue
        st["diagnostic_notifications"] = st.get("diagnostic_notifications", 0) + 1
        out = []
        for dg in params.get("diagnostics") or []:
            st["diagnostics_checked"] = st.get("diagnostics_checked", 0) + 1
            L.check_range(d, dg.get("range"), "diagnostic %r" % dg.get("message", "")[:80], out,
                          "c20:diagnostic-range-outside-document", byte_column_hint=True)
        for key, what in out[:4]:
            files = {"publishDiagnostics.json": json.dumps(params, indent=1)}
            if d is not doc:
                files["diagnosed-document.dora"] = d.text.encode("utf-8")
            res.bad.append((key, what + " [uri %s]" % u, files))


def _barrier(srv, probe_uri):
    rid = srv.request("textDocument/documentSymbol", {"textDocument": {"uri": probe_uri}})
    m, _lost = srv.wait(rid)
    return m


def _write(path, text):
    with open(path, "w", encoding="utf-8", newline="") as f:
        f.write(text)


def _workspace_symbols(srv, docs, ws):
    rid = srv.request("workspace/symbol", {"query": ""})
    m, _ = srv.wait(rid)
    if "error" in m:
        ws.bad.append(("c20:error-response:workspace/symbol:%s" % m["error"].get("code"),
                       "workspace/symbol answered with an error: %s" % json.dumps(m["error"])[:300], {}))
        return
    ws.stats["server_requests_answered"] = ws.stats.get("server_requests_answered", 0) + 1
    for sym in m.get("result") or []:
        loc = sym.get("location") or {}
        dd = docs.get(loc.get("uri"))
        ws.stats["workspace_symbols_checked"] = ws.stats.get("workspace_symbols_checked", 0) + 1
        if dd is None:
            ws.bad.append(("c20:workspace-symbol-unknown-uri", "workspace symbol %r in unknown document %s" % (
                sym.get("name"), loc.get("uri")), {}))
            continue
        out = []
        r = L.check_range(dd, loc.get("range"), "workspace symbol %r" % sym.get("name", "")[:60], out,
                          "c20:workspace-symbol-range-outside-document")
        kind = L.SYMBOL_KIND.get(sym.get("kind"), "?")
        if r and kind in L.NAME_IS_SELECTION and dd.text[r[0]:r[1]] != sym.get("name"):
            out.append(("c20:workspace-symbol-text-mismatch:%s" % kind,
                        "workspace symbol %r (%s): the document text at its range %s is %r" % (
                            sym.get("name"), kind, json.dumps(loc.get("range")), dd.text[r[0]:r[1]][:80])))
        for key, what in out[:3]:
            ws.bad.append((key, what, {"symbol-document.dora": dd.text.encode("utf-8")}))


def run_session(exe, sdir, cases, watchdog):
    """cases: list of dicts {idx, fam, text, h}. Returns the list of TextResult (one per case + session records).

    Per text: (A) the text is opened as a file outside every project (no compile job): documentSymbol + formatting;
    (B) it becomes the main file of a project -- didOpen (compiles at once), or didChange+didSave onto the previous
    text's document, or a bare didChange (debounced compile) -- and the diagnostics are checked. A death of the
    server is charged to the text being processed; the session then restarts behind it."""
    results = [TextResult(c) for c in cases]
    session = TextResult({"idx": -1, "fam": "session", "text": "", "h": 0})
    results.append(session)
    pos = 0
    gen = 0
    env = dict(os.environ)
    env["RUST_BACKTRACE"] = "0"
    while pos < len(cases):
        d = os.path.join(sdir, "g%d" % gen)
        gen += 1
        os.makedirs(os.path.join(d, "loose"), exist_ok=True)
        todo = list(range(pos, len(cases)))
        # delivery plan for (B): every third text is delivered as didChange+didSave onto the previous text's URI; the
        # last text of a session with >= 4 texts as a bare didChange (debounced compile) onto the first URI.
        plan = []
        for k, ci in enumerate(todo):
            if len(todo) >= 4 and k == len(todo) - 1:
                plan.append((ci, "debounce", 0))
            elif k % 3 == 2:
                plan.append((ci, "change", k - 1))
            else:
                plan.append((ci, "open", k))
        mains = {}
        for k, (ci, mode, slot) in enumerate(plan):
            if mode == "open":
                mains[k] = L.make_project(d, "p%d" % k, cases[ci]["text"])
        probe_path = os.path.join(d, "loose", "probe.dora")
        _write(probe_path, PROBE_TEXT)
        probe_uri = L.file_uri(probe_path)
        srv = L.LspServer(exe, os.path.join(d, "stderr.txt"), watchdog=watchdog, env=env)
        docs = {probe_uri: L.Doc(PROBE_TEXT)}
        cur = None
        phase = "initialize"
        try:
            rid = srv.request("initialize", {"processId": None, "rootUri": L.file_uri(d), "capabilities": {},
                                             "workspaceFolders": [{"uri": L.file_uri(d), "name": "ws"}]})
            m, _ = srv.wait(rid)
            srv.notify("initialized", {})
            srv.notify("textDocument/didOpen", {"textDocument": {"uri": probe_uri, "languageId": "dora", "version": 1,
                                                                   "text": PROBE_TEXT}})
            pm = _barrier(srv, probe_uri)
            if [s.get("name") for s in (pm.get("result") or [])] != ["probe"]:
                raise RuntimeError("probe document answered unexpectedly: %r" % (pm,))
            srv.take_notifications()
            session.stats["server_sessions"] = session.stats.get("server_sessions", 0) + 1
            version = 2
            for k, (ci, mode, slot) in enumerate(plan):
                cur = ci
                res = results[ci]
                text = cases[ci]["text"]
                doc = L.Doc(text)
                # (A) outside any project
                phase = "documentSymbol/formatting"
                lpath = os.path.join(d, "loose", "t%d.dora" % k)
                _write(lpath, text)
                luri = L.file_uri(lpath)
                docs[luri] = doc
                srv.notify("textDocument/didOpen", {"textDocument": {"uri": luri, "languageId": "dora", "version": 1,
                                                                       "text": text}})
                ids = {"sym": srv.request("textDocument/documentSymbol", {"textDocument": {"uri": luri}}),
                       "fmt": srv.request("textDocument/formatting",
                                          {"textDocument": {"uri": luri}, "options": {"tabSize": 4, "insertSpaces": True}})}
                _barrier(srv, probe_uri)
                _check_answers(doc, docs, srv, ids, res, srv.take_notifications())
                srv.notify("textDocument/didClose", {"textDocument": {"uri": luri}})
                res.stats["server_texts_symbols_answered"] = 1
                # (B) as the main file of a project
                phase = "compile (" + mode + ")"
                main = mains[slot]
                uri = L.file_uri(main)
                if mode == "open":
                    srv.notify("textDocument/didOpen", {"textDocument": {"uri": uri, "languageId": "dora", "version": 1,
                                                                           "text": text}})
                else:
                    _write(main, text)
                    srv.notify("textDocument/didChange", {"textDocument": {"uri": uri, "version": version},
                                                          "contentChanges": [{"text": text}]})
                    version += 1
                    if mode == "change":
                        srv.notify("textDocument/didSave", {"textDocument": {"uri": uri}})
                docs[uri] = doc
                res.stats["delivered:" + mode] = 1
                if mode == "debounce":
                    # wait for the *event* "debounce expired" on stderr (the main loop then has queued the compile
                    # job); the requests below are queued behind it
                    t0 = time.time()
                    marker = "Debounce expired, triggering compilation for project p%d\n" % slot
                    while marker not in srv.stderr_text(10 ** 8):
                        if srv.p.poll() is not None:
                            break
                        if time.time() - t0 > watchdog:
                            raise L.Watchdog()
                        time.sleep(0.02)
                ids = {}
                if mode != "open":
                    # the document now has the new text: its symbols must match the *new* text
                    ids["sym"] = srv.request("textDocument/documentSymbol", {"textDocument": {"uri": uri}})
                _barrier(srv, probe_uri)
                _check_answers(doc, docs, srv, ids, res, srv.take_notifications())
                res.stats["server_texts_compiled"] = 1
                res.done = True
                pos = ci + 1
                nxt = plan[k + 1] if k + 1 < len(plan) else None
                if mode == "open" and slot != 0 and not (nxt and nxt[1] == "change") and k % 2 == 1:
                    srv.notify("textDocument/didClose", {"textDocument": {"uri": uri}})
            # workspace/symbol over all projects of the session
            cur = None
            phase = "workspace/symbol"
            _workspace_symbols(srv, docs, session)
            srv.take_notifications()
            if srv.close() is None:
                session.stats["server_exit_needed_kill"] = session.stats.get("server_exit_needed_kill", 0) + 1
            return results
        except L.ServerDied as e:
            res = results[cur] if cur is not None else session
            pk = L.panic_key(e.stderr, (REPO + "/", "/repo/"))
            tail = e.stderr[-3000:]
            if pk:
                res.bad.append((pk[0] if pk[0].startswith("panic@") else "c20:server-died:" + pk[0],
                                "the language server died (exit status %s) during %s: %s" % (e.rc, phase, pk[1]),
                                {"stderr.txt": tail}))
            else:
                res.bad.append(("c20:server-died:rc=%s" % e.rc,
                                "the language server died with exit status %s during %s without a panic message" % (
                                    e.rc, phase), {"stderr.txt": tail}))
            res.stats["server_deaths"] = res.stats.get("server_deaths", 0) + 1
            res.stats["server_deaths_during:" + phase.split(" ")[0]] = 1
            srv.kill()
            if cur is None:
                return results
            res.done = True
            pos = cur + 1
        except L.Watchdog:
            res = results[cur] if cur is not None else session
            res.inconc = "watchdog (%ds without a message from the server) during %s, case %s" % (
                watchdog, phase, res.case["idx"])
            srv.kill()
            if cur is None:
                return results
            pos = cur + 1
    return results


def part2(ctx, exe):
    n = int(ctx.opts.get("srv", ctx.pick(320, 5000)))
    nsh = 8
    r = inproc.run_sharded("vh-lsp", "dump", ctx.seed, n, "c20-dump-" + _tag(ctx), nshards=nsh, timeout=1800)
    if r.deaths or r.timeouts:
        ctx.inconc("text generation for the server part failed: %r" % (r.deaths[:1] or r.timeouts,))
    dump = os.path.join(BUILD, "scratch", "c20-dump-" + _tag(ctx))
    cases = []
    for o in sorted(r.ok, key=lambda o: o["idx"]):
        p = os.path.join(dump, "s%d" % (o["idx"] % nsh), o["file"])
        with open(p, encoding="utf-8", newline="") as f:
            text = f.read()
        cases.append({"idx": o["idx"], "fam": o["fam"], "text": text, "h": o["h"], "base": o.get("base")})
    root = scratch("c20-lsp-" + _tag(ctx))
    sessions = [cases[i:i + SESSION_TEXTS] for i in range(0, len(cases), SESSION_TEXTS)]
    watchdog = 180
    t0 = time.time()
    with ThreadPoolExecutor(max_workers=NCPU) as ex:
        futs = [ex.submit(run_session, exe, os.path.join(root, "s%d" % i), s, watchdog) for i, s in enumerate(sessions)]
        all_results = []
        for f in futs:
            all_results.extend(f.result())
    ctx.extra["server_part_wall_s"] = round(time.time() - t0, 1)
    fams = {}
    sampled = set()
    for res in all_results:
        c = res.case
        for k, v in res.stats.items():
            ctx.count(k if k.startswith("server_") else "server_" + k, v)
        if c["idx"] >= 0:
            if res.done:
                ctx.observe("srv:%s" % c["h"])
                ctx.count("server_texts")
                fams[c["fam"]] = fams.get(c["fam"], 0) + 1
                if c["fam"] not in sampled and len(sampled) < 4 and not res.bad:
                    sampled.add(c["fam"])
                    ctx.sample({"part": "server", "case_index": c["idx"], "family": c["fam"], "base_file": c.get("base"),
                                "symbols": res.stats.get("symbols", 0),
                                "text_first_120_chars": c["text"][:120]}, limit=9)
            elif res.inconc is None:
                ctx.count("server_texts_not_reached")
        if res.inconc:
            ctx.inconc(res.inconc)
        for key, what, files in res.bad:
            fl = {"input.dora": c["text"].encode("utf-8")}
            fl.update(files)
            ctx.violation(key, "%s [server part, family %s, case %s%s]" % (
                what, c["fam"], c["idx"], (", base " + c["base"]) if c.get("base") else ""), files=fl,
                cmd="./check C20 --tier %s --seed %d  (server part case %s)" % (ctx.tier, ctx.seed, c["idx"]))
    ctx.extra["server_texts_per_family"] = fams
    # the server's stderr logs and project trees are only needed for failures (already copied into replay dirs)
    import shutil
    shutil.rmtree(root, ignore_errors=True)
    shutil.rmtree(dump, ignore_errors=True)
    shutil.rmtree(os.path.join(BUILD, "scratch", "c20-pos-" + _tag(ctx)), ignore_errors=True)
