"""C18 -- packages and bytecode survive being written and read back (DESIGN.md 5 C18).

(1) packages: the real front end runs in-process (harness/vh-bytecode `prog`) on a slice of test/rt + bench:
    decode(encode(p)) == p (Debug text), encode(decode(b)) == b, two encodings equal. At CLI level: for package
    files written by `dora compile -c`: encode(decode(file)) == file and file == in-process encoding of the same
    source (`pkgfile`); the executable built from the package file is byte-identical (sha256) to the executable
    built from the source with the same options, for both code generators.
(2) bytecode (`bc`): random instruction sequences over all opcodes through BytecodeWriter's public emit methods
    (operands on both sides of every LEB128 length boundary and of 255/256, 65 535/65 536; forward/backward jumps
    over 0..70 000 bytes, jump tables, constant pools beyond 16 384 entries) read back with the real reader
    iterator and visitor; trace recorded while emitting == trace seen by the visitor, start offsets == an
    independent model of the encoding, resolved jump targets == label offsets, constant pool, location table,
    registers, and the function body through bincode.
(3) damaged packages (`damage`): strict prefixes, the file followed by extra bytes, and random single-bit flips
    of real package files through decode_program_from_bytes in-process (panic capture, allocation tracking) and
    a sample through both code-generator binaries. Oracle: clean refusal. (Every file b the decoder accepts must
    satisfy encode(decode(b)) == b; a damaged file that decodes to the original program would violate that, one
    that decodes to another program is the "wrong program" of the property text.)
"""
import hashlib
import os
import shutil

from .. import build, execu, inproc
from ..core import BUILD, NCPU, REPO, scratch
from ..lspdrive import panic_key


def run(ctx):
    build.ensure_harness(["vh-bytecode"])
    ctx.rule = (
        "packages: case = one repository program (test/rt, bench; list rotated by the seed) accepted by the front end; "
        "bytecode: case = one generated function (1..3000 instructions, every opcode, operand values from "
        "{0,1,2,126..129,255,256,16383,16384,65535,65536,70000,2^21-1,2^21,2^28-1,2^28,2^32-2,2^32-1} + random); "
        "damage: case = one strict prefix or one single-bit flip of a package file written by the real CLI; "
        "distinct = hash of program path / of the emitted code bytes / (file, damage) respectively; non-trivial = "
        "the real encoder/decoder/reader evaluated the case")
    ctx.assumptions = [
        "'equal programs' = identical Debug text (Program has no PartialEq) and identical re-encoding",
        "the package writer is what dora/src/driver/compile.rs::compile_to_package calls: bincode::encode_to_vec(prog, "
        "standard()) on the pinned tree, dora_bytecode::encode_program_to_bytes when the working tree provides it",
        "register numbers and pool indices above u32::MAX are out of scope (the writer casts usize to u32)",
        "damaged inputs: single faults (one prefix cut or one flipped bit) per file",
    ]
    ctx.required_counters = ["programs_roundtripped", "cli_packages_roundtripped", "cli_executables_compared",
                             "bytecode_functions", "damaged_inputs:truncation", "damaged_inputs:trailing",
                             "damaged_inputs:bitflip",
                             "compiler_binary_runs"]
    import time
    t0 = time.time()
    # the in-process parts need only the harness; they run first so that a tree whose toolchain cannot be built or
    # bootstrapped any more (e.g. a broken bytecode reader) still gets its verdict from them
    progs = part_prog(ctx)
    t1 = time.time()
    part_bc(ctx)
    t2 = time.time()
    try:
        bindir = build.ensure_toolchain("rel")
    except build.BuildError as e:
        ctx.inconc("the toolchain (incl. the three-stage bootstrap through package files) could not be built: %s" % str(e)[-600:])
        return
    t3 = time.time()
    pkgs = part_cli(ctx, bindir, progs)
    t4 = time.time()
    part_damage(ctx, bindir, pkgs)
    ctx.extra["wall_s_by_part"] = {"packages_in_process": round(t1 - t0, 1), "bytecode": round(t2 - t1, 1),
                                   "toolchain_build": round(t3 - t2, 1), "cli": round(t4 - t3, 1),
                                   "damaged": round(time.time() - t4, 1)}


def _tag(ctx):
    """Scratch directories are per (tier, seed) so that concurrent runs of this check do not wipe each other."""
    return "%s-s%d" % (ctx.tier, ctx.seed)


def _report(ctx, r, what, witness_name="input.txt"):
    for k, v in r.stats.items():
        if isinstance(v, (int, float)):
            ctx.count(k, v)
    for o in r.bad:
        ctx.violation(o["key"], "%s [%s case %d]" % (o["what"], what, o["idx"]),
                      files={witness_name: o.get("input", "")},
                      cmd="%s %s --seed %d --only %d --out /tmp/x ..." % (build.harness_bin("vh-bytecode"), what, ctx.seed, o["idx"]))
    for d in r.deaths:
        log = d["log"]
        cls = "alloc-failure" if "memory allocation of" in log else ("stack-overflow" if "overflowed its stack" in log else "rc=%s" % d["rc"])
        ctx.violation("c18:%s:child-death:%s" % (what, cls),
                      "%s harness child died (rc=%s) on case %s (%s): %s" % (what, d["rc"], d["idx"], d["input"][:200], log[-300:]),
                      files={witness_name: d["input"]})
    for s in r.timeouts:
        ctx.inconc("%s shard %d hit the wall-clock watchdog" % (what, s))


# ---------------------------------------------------------------------------------------------------


def part_prog(ctx):
    n = int(ctx.opts.get("progs", ctx.pick(160, 1600)))
    r = inproc.run_sharded("vh-bytecode", "prog", ctx.seed, n, "c18-prog-" + _tag(ctx), timeout=ctx.pick(600, 2400))
    _report(ctx, r, "prog")
    for o in r.ok:
        ctx.observe("prog:%s" % o["h"])
    for o in r.ok[:2]:
        ctx.sample({"part": "package round trip", "program": o["file"], "package_bytes": o["bytes"]}, limit=8)
    return sorted(o["file"] for o in r.ok)


def _sha(path):
    h = hashlib.sha256()
    with open(path, "rb") as f:
        h.update(f.read())
    return h.hexdigest()


def part_cli(ctx, bindir, progs):
    """Real CLI: package files, and executables via package vs. directly from source."""
    k = int(ctx.opts.get("cli", ctx.pick(6, 40)))
    work = scratch("c18-cli-" + _tag(ctx))
    pk = os.path.join(work, "pkgs")
    os.makedirs(pk)
    rng = ctx.rng("cli")
    hello = os.path.join(pk, "hello.dora")
    with open(hello, "w") as f:
        f.write('fn main() { println("hello world"); }\n')
    cand = [p for p in progs if os.path.getsize(p) < 20000]
    rng.shuffle(cand)
    items = [hello]
    for i, p in enumerate(cand[:k * 2]):
        dst = os.path.join(pk, "p%02d_%s" % (i, os.path.basename(p)))
        shutil.copy(p, dst)
        items.append(dst)
    dora = os.path.join(bindir, "dora")

    def one(src):
        res = {"src": src, "bad": [], "skip": None, "pkg": None, "compared": 0}
        pkg = src[:-len(".dora")] + ".dora-package"
        o = execu.run_cmd([dora, "compile", "-c", src, "-o", pkg], timeout=300)
        if o.cls == "timeout":
            res["skip"] = "timeout"
            return res
        if not (o.cls == "ok" and o.status == 0) or not os.path.exists(pkg):
            if o.cls in ("rust_panic", "signal"):
                res["skip"] = "front end died: %s" % o.key()
            else:
                res["skip"] = "rejected"      # e.g. needs sibling files; not a C18 matter
            return res
        res["pkg"] = pkg
        for gen in ("boots", "cannon"):
            a = os.path.join(work, os.path.basename(src) + "." + gen + ".src.exe")
            b = os.path.join(work, os.path.basename(src) + "." + gen + ".pkg.exe")
            ca = execu.compile_dora(src, a, backend=gen, timeout=600)
            cb = execu.compile_dora(pkg, b, backend=gen, timeout=600)
            if ca.timeout or cb.timeout:
                res["skip"] = "timeout"
                continue
            if ca.ok != cb.ok:
                res["bad"].append(("c18:cli:package-vs-source:build-outcome:%s" % gen,
                                   "building %s with the %s generator %s from the source but %s from its package file: %s" % (
                                       os.path.basename(src), gen, "succeeds" if ca.ok else "fails",
                                       "succeeds" if cb.ok else "fails",
                                       (cb.stderr if ca.ok else ca.stderr).decode("utf-8", "replace")[-400:])))
            elif ca.ok:
                res["compared"] += 1
                if _sha(a) != _sha(b):
                    res["bad"].append(("c18:cli:package-vs-source:executable-differs:%s" % gen,
                                       "executable of %s built via its package file differs (sha256) from the one built "
                                       "from source, %s generator" % (os.path.basename(src), gen)))
            for f in (a, b):
                if os.path.exists(f):
                    os.unlink(f)
        return res

    results = execu.pmap(one, items, workers=max(2, NCPU // 2))
    done = 0
    pkgs = []
    for res in results:
        if res["skip"]:
            if res["skip"] == "timeout":
                ctx.inconc("CLI build of %s hit the watchdog" % res["src"])
            else:
                ctx.count("cli_programs_skipped:" + res["skip"].split(":")[0])
            if res["pkg"] is None:
                for ext in (".dora", ".dora-package"):
                    f = res["src"][:-len(".dora")] + ext
                    if os.path.exists(f):
                        os.unlink(f)     # keep only (source, package) pairs for the pkgfile pass
                continue
        done += 1
        pkgs.append(res["pkg"])
        ctx.count("cli_executables_compared", res["compared"])
        ctx.observe("cli:%s" % os.path.basename(res["src"]))
        for key, what in res["bad"]:
            ctx.violation(key, what, files={"input.dora": open(res["src"]).read()},
                          cmd="dora compile -c SRC -o P.dora-package; dora compile [--cannon] SRC -o a; dora compile [--cannon] P.dora-package -o b; sha256sum a b")
    ctx.count("cli_programs", done)
    # the files the CLI wrote, through the in-process decoder/encoder
    r = inproc.run_sharded("vh-bytecode", "pkgfile", ctx.seed, len(pkgs) + 4, "c18-pkgfile-" + _tag(ctx), extra_args=["--extra", pk],
                           nshards=min(NCPU, max(1, len(pkgs))), timeout=600)
    _report(ctx, r, "pkgfile")
    for o in r.ok:
        ctx.observe("pkgfile:%s" % o["h"])
    return pkgs


def part_bc(ctx):
    n = int(ctx.opts.get("bc", ctx.pick(16000, 320000)))
    r = inproc.run_sharded("vh-bytecode", "bc", ctx.seed, n, "c18-bc-" + _tag(ctx), timeout=ctx.pick(600, 2400))
    _report(ctx, r, "bc", "trace.txt")
    for o in r.ok:
        ctx.observe("bc:%s" % o["h"])
    for o in r.ok:
        if o.get("snip"):
            ctx.sample({"part": "bytecode round trip", "case_index": o["idx"], "instructions": o["n"],
                        "emitted_trace_excerpt": o["snip"].split("\n")[1:9]}, limit=8)
            break
    ops = {k[3:]: v for k, v in r.stats.items() if k.startswith("op:")}
    ctx.extra["instructions_round_tripped_per_opcode"] = ops
    ctx.count("opcodes_total", len(ops))
    ctx.count("opcodes_covered", sum(1 for v in ops.values() if v > 0))
    missing = sorted(k for k, v in ops.items() if v <= 0)
    if missing or not ops:
        ctx.inconc("opcodes never round-tripped: %s" % (missing or "no opcode table"))
        ctx.required_counters.append("all_opcodes_covered")
    else:
        ctx.count("all_opcodes_covered")


def part_damage(ctx, bindir, pkgs):
    """pkgs: package files written by the CLI (hello world first)."""
    work = scratch("c18-damaged-" + _tag(ctx))
    files = pkgs[:int(ctx.opts.get("files", ctx.pick(3, 6)))]
    nflips = int(ctx.opts.get("flips", ctx.pick(5000, 40000)))
    nbin = int(ctx.opts.get("bin", ctx.pick(120, 1500)))       # damaged files per compiler binary, in total
    hist = {}
    dumped = []
    for fi, pkg in enumerate(files):
        size = os.path.getsize(pkg)
        # every strict prefix for files <= 64 KiB (thorough: <= 256 KiB), stepped beyond
        full = ctx.pick(64 << 10, 256 << 10)
        step = 1 if size <= full else max(1, size // ctx.pick(6000, 60000))
        if ctx.quick() and step == 1 and size > 8000:
            step = max(1, size // 8000)
        if "prefixes" in ctx.opts:      # cap on the number of prefix cases per file
            step = max(step, (size + int(ctx.opts["prefixes"]) - 1) // int(ctx.opts["prefixes"]))
        nprefix = (size + step - 1) // step
        ntrail = 96
        total = nprefix + ntrail + nflips
        per = max(1, nbin // len(files))
        tag = "f%d" % fi
        r = inproc.run_sharded("vh-bytecode", "damage", ctx.seed, total, "c18-damage-%d-%s" % (fi, _tag(ctx)), timeout=ctx.pick(900, 3000),
                               kv={"pkg": pkg, "step": step, "nprefix": nprefix, "ntrail": ntrail, "dumpdir": work,
                                   "dumpevery": max(1, total // per), "tag": tag})
        _report(ctx, r, "damage")
        ctx.observe("damage:%s" % os.path.basename(pkg), n=int(sum(r.stats.get("damaged_inputs:" + c, 0) for c in
                                                                   ("truncation", "trailing", "bitflip"))))
        for k, v in r.stats.items():
            if ":" in k and isinstance(v, (int, float)) and k.split(":")[0] in ("truncation", "trailing", "bitflip"):
                hist[k] = hist.get(k, 0) + v
        ctx.count("damage_prefix_step_%s" % tag, step)
        for o in r.ok:
            o["orig"] = pkg
            dumped.append(o)
    ctx.extra["decoder_outcome_histogram"] = hist
    acc = hist.get("bitflip:accepted-different-program", 0)
    tot = sum(v for k, v in hist.items() if k.startswith("bitflip:"))
    ctx.extra["bitflips_accepted_as_a_different_program"] = "%d of %d (%.1f%%)" % (acc, tot, 100.0 * acc / max(1, tot))

    # --- a sample through both code-generator binaries
    comps = [("cannon", os.path.join(bindir, "dora-cannon-compiler")), ("boots", os.path.join(bindir, "dora-boots-compiler"))]
    ref = {}
    for pkg in files:
        for name, exe in comps:
            out = os.path.join(work, "ref_%s_%s.s" % (os.path.basename(pkg), name))
            o = execu.run_cmd([exe, pkg, "-o", out], timeout=600)
            ref[(pkg, name)] = _sha(out) if (o.cls == "ok" and o.status == 0 and os.path.exists(out)) else None
            if ref[(pkg, name)] is None:
                ctx.inconc("%s does not compile the undamaged %s: %s" % (name, pkg, o))

    def one(job):
        o, (name, exe) = job
        inp = os.path.join(work, o["file"])
        out = inp + "." + name + ".s"
        res = execu.run_cmd([exe, inp, "-o", out], timeout=300)
        sha = _sha(out) if os.path.exists(out) else None
        if os.path.exists(out):
            os.unlink(out)
        return (o, name, res, sha)

    jobs = [(o, c) for o in dumped for c in comps]
    bhist = {}
    for (o, name, res, sha) in execu.pmap(one, jobs):
        ctx.count("compiler_binary_runs")
        stderr = res.stderr.decode("utf-8", "replace")
        if res.cls == "timeout":
            ctx.inconc("%s hit the watchdog on %s" % (name, o["desc"]))
            continue
        accepted = res.cls == "ok" and res.status == 0
        refused = (not accepted) and res.cls in ("ok", "fatal") and res.status not in (None, 0) and stderr.strip() != ""
        cls = "accepted" if accepted else ("refused" if refused else res.key())
        k = "%s:%s:decoder-%s:%s" % (name, o["class"], o["outcome"], cls)
        bhist[k] = bhist.get(k, 0) + 1
        files_ = {"damaged.dora-package": open(os.path.join(work, o["file"]), "rb").read(), "stderr.txt": stderr[-4000:]}
        cmd = "%s damaged.dora-package -o out.s   # %s" % (os.path.basename(comps[0][1] if name == "cannon" else comps[1][1]), o["desc"])
        if not accepted and not refused:
            pk = panic_key(stderr, (REPO + "/", "/repo/"))
            if res.cls == "rust_panic" and pk:
                ctx.violation(pk[0], "%s %s on a damaged package (%s)" % (name, pk[1], o["desc"]), files=files_, cmd=cmd)
            elif res.cls in ("ok", "fatal"):
                ctx.violation("c18:compiler-binary:%s:refused-without-message" % name,
                              "%s exits with status %s and no message on a damaged package (%s)" % (name, res.status, o["desc"]),
                              files=files_, cmd=cmd)
            else:
                ctx.violation("c18:compiler-binary:%s:%s" % (name, res.key()),
                              "%s ends with %s on a damaged package (%s): %s" % (name, res.key(), o["desc"], stderr[-300:]),
                              files=files_, cmd=cmd)
        elif accepted:
            same = sha is not None and sha == ref.get((o["orig"], name))
            if o["outcome"] == "refused":
                ctx.violation("c18:compiler-binary:%s:accepts-what-the-decoder-refuses" % name,
                              "%s accepts a damaged package that decode_program_from_bytes refuses (%s)" % (name, o["desc"]),
                              files=files_, cmd=cmd)
            elif o["outcome"] == "accepted-equal-program":
                ctx.violation("c18:damaged-package-accepted-as-original:%s" % o["class"],
                              "%s compiles a file that differs from the original package without complaint (%s); generated "
                              "assembly %s the original's" % (name, o["desc"], "equals" if same else "differs from"),
                              files=files_, cmd=cmd)
            elif o["outcome"] == "accepted-different-program":
                ctx.count("compiler_binary_accepted_damaged:%s" % ("same-output" if same else "different-output"))
                ctx.violation("c18:damaged-package-accepted:%s" % o["class"],
                              "%s compiles a damaged package without complaint (%s); generated assembly %s the original's" % (
                                  name, o["desc"], "equals" if same else "differs from"), files=files_, cmd=cmd)
    ctx.extra["compiler_binary_outcome_histogram"] = bhist
    shutil.rmtree(work, ignore_errors=True)
    # witnesses are in the replay directories; drop this run's scratch trees
    sc = os.path.join(BUILD, "scratch")
    for d in os.listdir(sc):
        if d.startswith("c18-") and d.endswith("-" + _tag(ctx)):
            shutil.rmtree(os.path.join(sc, d), ignore_errors=True)
